"""F17 (C19): AttributeCollection.unpack served its one-entry cache on the raw bytes alone although the decode depends
on the negotiated parameters: the same AS_PATH bytes are ( 1 2 ) ( 3 ) on a 2-byte session and ( 65538 33619971 ) on a
4-byte session; decoded second, the 4-byte session got the cached 2-byte object.
Run: /venv/bin/python findings/F17_attribute_cache_ignores_session.py   (exit 1 = defect present)"""
import sys
sys.path.insert(0, '/repo/src')
from unittest.mock import MagicMock
from exabgp.bgp.message.update.attribute import Attribute
from exabgp.bgp.message.update.attribute.collection import AttributeCollection
import exabgp.bgp.message.update.attribute  # noqa
# AS_PATH: one AS_SEQUENCE of 2 two-byte ASNs + one of 1 ...  the same bytes read 4 bytes wide are one sequence of 2
block = bytes([0x40, 0x02, 0x0A, 0x02, 0x02, 0x00, 0x01, 0x00, 0x02, 0x02, 0x01, 0x00, 0x03])
two = MagicMock(); two.asn4 = False
four = MagicMock(); four.asn4 = True
fresh4 = str(AttributeCollection().parse(block, four).get(Attribute.CODE.AS_PATH))
AttributeCollection.cached = None; AttributeCollection.previous = b''
a2 = str(AttributeCollection.unpack(block, two).get(Attribute.CODE.AS_PATH))
a4 = str(AttributeCollection.unpack(block, four).get(Attribute.CODE.AS_PATH))
print('2-byte session :', a2); print('4-byte session :', a4, '(fresh process: %s)' % fresh4)
sys.exit(0 if a4 == fresh4 else 1)
