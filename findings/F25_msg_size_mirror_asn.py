"""F25 (C06): Peer._establish copied negotiated.msg_size to the connection right after the peer OPEN was read; when the
local AS is mirrored (local-as unset) our OPEN is sent - and the negotiation completed - only afterwards, so the
connection kept 4096 although both sides announced Extended Message, and a valid 5000-byte UPDATE was refused 1/2.
Run: /venv/bin/python findings/F25_msg_size_mirror_asn.py   (exit 1 = defect present)"""
import asyncio, sys
from unittest.mock import MagicMock
sys.path.insert(0, '/repo/src')
from exabgp.bgp.message.open import Open
from exabgp.bgp.message.open.asn import ASN
from exabgp.bgp.message.open.version import Version
from exabgp.bgp.message.open.holdtime import HoldTime
from exabgp.bgp.message.open.routerid import RouterID
from exabgp.bgp.message.open.capability.capabilities import Capabilities
from exabgp.bgp.message.open.capability.capability import Capability
from exabgp.bgp.message.open.capability.extended import ExtendedMessage
from exabgp.bgp.message.open.capability.negotiated import Negotiated
from exabgp.bgp.message.direction import Direction
from exabgp.reactor.peer.peer import Peer

def mk(asn, rid):
    caps = Capabilities(); caps[Capability.CODE.EXTENDED_MESSAGE] = ExtendedMessage()
    return Open.make_open(Version(4), ASN(asn), HoldTime(180), RouterID(rid), caps)

neighbor = MagicMock(); neighbor.api = None; neighbor.uid = '1'
neighbor.session.local_as = None                     # mirror the peer's AS: read first, send second
peer = Peer(neighbor, MagicMock())
proto = MagicMock()
proto.negotiated = Negotiated(neighbor, Direction.IN)
proto.connection.msg_size = 4096
peer.proto = proto
async def send_open(): return mk(65000, '1.1.1.1')
async def read_open(): return mk(65000, '2.2.2.2')
async def nop(): return None
peer._send_open = send_open; peer._read_open = read_open; peer._send_ka = nop; peer._read_ka = nop
import exabgp.reactor.peer.peer as P
P.getenv = lambda: MagicMock(bgp=MagicMock(passive=False))
asyncio.run(peer._establish())
print('negotiated.msg_size', proto.negotiated.msg_size, 'connection.msg_size', proto.connection.msg_size)
sys.exit(0 if proto.connection.msg_size == 65535 else 1)
