#!/usr/bin/env python3
"""F68 (C13, also C02): an UPDATE that carries AGGREGATOR (AS_TRANS) together with AS4_AGGREGATOR - what RFC 6793 prescribes
when a 2-byte speaker sits in the path - was reported as  "aggregator": "23456:1.1.1.1", "aggregator": "65536:2.2.2.2"  in one
JSON object (both codes are rendered under the name "aggregator" and nothing merged them): a duplicate key, the consumer keeps
one of the two.  RFC 6793 4.2.3: the AS4_AGGREGATOR is the aggregator when the AS of AGGREGATOR is AS_TRANS, and is ignored
otherwise.  Real configuration, negotiated session, Message.unpack and both JSON encoders.

    cd /repo && PYTHONPATH=/repo/src /venv/bin/python /verif/findings/F68_two_aggregator_members.py
exit 1 when an object has a duplicate key or the wrong aggregator."""
import json
import sys

from exabgp.bgp.message import Message
from exabgp.configuration.check import _negotiated
from exabgp.configuration.setup import create_minimal_configuration
from exabgp.reactor.api.response.json import JSON
from exabgp.reactor.api.response.v4.json import V4JSON

configuration = create_minimal_configuration(families='ipv4 unicast')
configuration.reload()
neighbor = list(configuration.neighbors.values())[0]
negotiated, _ = _negotiated(neighbor)


def attr(flag, code, value):
    return bytes([flag, code, len(value)]) + value


BASE = attr(0x40, 1, b'\x00') + attr(0x40, 2, b'') + attr(0x40, 3, bytes([10, 0, 0, 1]))
width = 4 if negotiated.asn4 else 2
CASES = {
    'AGGREGATOR AS_TRANS + AS4_AGGREGATOR 65536': (attr(0xC0, 7, (23456).to_bytes(width, 'big') + bytes([1, 1, 1, 1])) + attr(0xC0, 18, (65536).to_bytes(4, 'big') + bytes([2, 2, 2, 2])), '65536:2.2.2.2'),
    'AGGREGATOR 64512 + AS4_AGGREGATOR 65536 (ignored)': (attr(0xC0, 7, (64512).to_bytes(width, 'big') + bytes([1, 1, 1, 1])) + attr(0xC0, 18, (65536).to_bytes(4, 'big') + bytes([2, 2, 2, 2])), '64512:1.1.1.1'),
    'AGGREGATOR alone': (attr(0xC0, 7, (64512).to_bytes(width, 'big') + bytes([1, 1, 1, 1])), '64512:1.1.1.1'),
}


def no_duplicate(pairs):
    keys = [key for key, _ in pairs]
    if len(keys) != len(set(keys)):
        raise ValueError('duplicate key: %s' % keys)
    return dict(pairs)


bad = 0
for name, (extra, want) in CASES.items():
    attributes = BASE + extra
    body = b'\x00\x00' + len(attributes).to_bytes(2, 'big') + attributes + bytes([24, 10, 1, 1])
    update = Message.unpack(Message.CODE.UPDATE, body, negotiated)
    for encoder in (JSON('6.0.0'), V4JSON('4.0.1')):
        line = encoder.update(neighbor, 'receive', update.data, b'', b'', negotiated)
        try:
            doc = json.loads(line, object_pairs_hook=no_duplicate)
            got = doc['neighbor']['message']['update']['attribute'].get('aggregator')
            ok = got == want
            print('%-4s %-7s %-52s aggregator %s' % ('ok' if ok else 'BAD', type(encoder).__name__, name, got))
            bad += not ok
        except ValueError as exc:
            bad += 1
            print('BAD  %-7s %-52s %s' % (type(encoder).__name__, name, exc))
sys.exit(1 if bad else 0)
