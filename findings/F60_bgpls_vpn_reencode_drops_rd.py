#!/usr/bin/env python3
"""F60 (C15): a decoded bgp-ls-vpn route was re-encoded without its route distinguisher.

BGPLS.unpack_nlri takes the RD out of the wire bytes (kept beside them, in route_d) and pack_nlri returned those
bytes alone: decode(canonical bytes) -> encode did not give the same bytes, and what was sent was a different NLRI.

    cd /repo && PYTHONPATH=/repo/src /venv/bin/python /verif/findings/F60_bgpls_vpn_reencode_drops_rd.py
exit 1 when re-encoding changes the bytes."""
import struct
import sys

from exabgp.bgp.message import Action
from exabgp.bgp.message.open.capability.negotiated import Negotiated
from exabgp.bgp.message.update.nlri import NLRI
from exabgp.bgp.message.update.nlri.bgpls.nlri import BGPLS
from exabgp.protocol.family import AFI, SAFI

asn = struct.pack('!HH', 512, 4) + struct.pack('!I', 65001)
local = struct.pack('!HH', 256, len(asn)) + asn
payload = bytes([2]) + bytes(8) + local  # protocol IS-IS level 2, identifier 0, local node descriptors
rd = bytes([0, 0]) + struct.pack('!HI', 65000, 7)
bad = 0
for safi, wire in ((SAFI.bgp_ls, struct.pack('!HH', 1, len(payload)) + payload), (SAFI.bgp_ls_vpn, struct.pack('!HH', 1, len(payload) + 8) + rd + payload)):
    nlri, left = BGPLS.unpack_nlri(AFI.bgpls, safi, wire, Action.ANNOUNCE, None, Negotiated.UNSET)
    again = bytes(nlri.pack_nlri(Negotiated.UNSET))
    ok = again == wire and not left
    print(safi, 'decoded', type(nlri).__name__, 'rd', getattr(nlri, 'route_d', None), 're-encoded', again.hex(), 'ok' if ok else 'DIFFERS from ' + wire.hex())
    bad += not ok
sys.exit(1 if bad else 0)
