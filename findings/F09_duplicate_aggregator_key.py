"""F9 (C13): AGGREGATOR and AS4_AGGREGATOR share the JSON key "aggregator"; an attribute block holding both rendered a
duplicate key inside the attribute object (repaired by d99ab70, see F68).
Run: /venv/bin/python findings/F09_duplicate_aggregator_key.py   (exit 1 = defect present)"""
import sys
sys.path.insert(0, '/repo/src')
from unittest.mock import MagicMock
from exabgp.bgp.message.update.attribute.collection import AttributeCollection
import exabgp.bgp.message.update.attribute  # noqa
neg = MagicMock(); neg.asn4 = False
agg = bytes([0xC0, 0x07, 0x06]) + (23456).to_bytes(2, 'big') + bytes([10, 0, 0, 1])
agg4 = bytes([0xC0, 0x12, 0x08]) + (70000).to_bytes(4, 'big') + bytes([10, 0, 0, 1])
a = AttributeCollection.unpack(agg + agg4, neg)  # the entry point of a received UPDATE (parse, then the RFC 6793 merge)
js = a.json()
print(js)
sys.exit(1 if js.count('"aggregator"') > 1 else 0)
