"""F22 (C14): announce_watchdog / withdraw_watchdog iterated reactor.configuration.neighbors instead of the `peers`
matched by the command's selector: `neighbor 10.0.0.1 announce watchdog w` also changed 10.0.0.3.
Run: /venv/bin/python findings/F22_watchdog_ignores_selector.py   (exit 1 = defect present)"""
import asyncio, sys
sys.path.insert(0, '/repo/src')
from unittest.mock import MagicMock, AsyncMock
from exabgp.reactor.api.command.watchdog import announce_watchdog
n1, n3 = MagicMock(), MagicMock()
reactor = MagicMock()
reactor.configuration.neighbors = {'neighbor 10.0.0.1': n1, 'neighbor 10.0.0.3': n3}
reactor.processes.answer_done = AsyncMock()
scheduled = []
reactor.asynchronous.schedule = lambda service, cmd, cb: scheduled.append(cb)
announce_watchdog(MagicMock(), reactor, 'svc', ['neighbor 10.0.0.1'], 'announce watchdog w', False)
asyncio.run(scheduled[0])
a, b = n1.rib.outgoing.announce_watchdog.call_count, n3.rib.outgoing.announce_watchdog.call_count
print('announce_watchdog calls: selected 10.0.0.1 =', a, ', not selected 10.0.0.3 =', b)
sys.exit(0 if (a, b) == (1, 0) else 1)
