#!/usr/bin/env python3
"""F73 (C20): with two or more `--neighbor` options the healthcheck helper wrote `peer 192.0.2.1, peer 192.0.2.3 announce route ...`.
That is not a command of the v6 API (`unknown command: peer`): the daemon answered `error`, nothing was announced, and the
service never went up on those neighbors.  The v6 form of a list of peers is one bracketed selector, `peer [ a , b ]`.
The real helper loop() runs over scripted check results; each line it writes goes through the real API.process ->
dispatch_v6 -> announce_route -> ASYNC scheduler -> Configuration and outgoing RIBs of three neighbors.

    cd /repo && PYTHONPATH=/repo/src /venv/bin/python /verif/findings/F73_healthcheck_two_neighbors.py
exit 1 when a line is refused or the route is not in the Adj-RIB-Out of exactly the selected neighbors."""
from __future__ import annotations

import argparse
import asyncio
import io
import sys
from unittest.mock import patch

import exabgp
from exabgp.application import healthcheck
from exabgp.configuration.configuration import Configuration
from exabgp.reactor.api import API
from exabgp.reactor.asynchronous import ASYNC


CONF = """
neighbor 192.0.2.1 {
    router-id 192.0.2.2;
    local-address 192.0.2.2;
    local-as 64496;
    peer-as 64497;
    family { ipv4 unicast; }
}
neighbor 192.0.2.3 {
    router-id 192.0.2.2;
    local-address 192.0.2.2;
    local-as 64496;
    peer-as 64498;
    family { ipv4 unicast; }
}
neighbor 192.0.2.5 {
    router-id 192.0.2.2;
    local-address 192.0.2.2;
    local-as 64496;
    peer-as 64499;
    family { ipv4 unicast; }
}
"""


# --------------------------------------------------------------------------- the helper


def run_helper(argv: list[str], results: list[bool]) -> list[str]:
    """Run the real loop() over the scripted check results, then interrupt it (Ctrl-C) during the sleep."""
    parser = argparse.ArgumentParser()
    healthcheck.setargs(parser)
    options = parser.parse_args(argv)
    options.ip_ifnames = {}

    pending = list(results)

    def fake_check(cmd: object, timeout: object) -> bool:
        return pending.pop(0)

    def fake_sleep(delay: float) -> None:
        if not pending:
            raise KeyboardInterrupt

    out = io.StringIO()
    with (
        patch.object(healthcheck, 'check', fake_check),
        patch.object(healthcheck.time, 'sleep', fake_sleep),
        patch.object(healthcheck.signal, 'signal'),
        patch.object(sys, 'stdout', out),
    ):
        healthcheck.loop(options)
    return [line for line in out.getvalue().split('\n') if line]


# --------------------------------------------------------------------------- the daemon side


class Processes:
    """What the API command handlers use of reactor.processes: only the answers are recorded."""

    def __init__(self) -> None:
        self.answers: list[str] = []

    def get_sync(self, service: str) -> bool:
        return False

    async def answer_done(self, service: str) -> None:
        self.answers.append('done')

    async def answer_error(self, service: str, message: str = '') -> None:
        self.answers.append(f'error {message}')

    def answer_error_sync(self, service: str, message: str = '') -> None:
        self.answers.append(f'error {message}')

    async def flush_write_queue(self) -> None:
        return None


class Daemon:
    """A reactor reduced to what the announce/withdraw commands touch, every part of it being the real one."""

    def __init__(self) -> None:
        self.configuration = Configuration([CONF], text=True)
        assert self.configuration.reload(), self.configuration.error
        self.asynchronous = ASYNC()
        self.processes = Processes()
        self.asynchronous.set_error_handler(lambda uid: self.processes.answer_error_sync(uid))
        self._peers: dict[str, object] = {}
        self.api = API(self)  # type: ignore[arg-type]

    def peers(self, service: str = '') -> list[str]:
        return list(self.configuration.neighbors)

    def ribs(self):  # noqa: ANN201
        return {n.session.peer_address.top(): n.rib.outgoing for n in self.configuration.neighbors.values()}

    def command(self, line: str) -> str:
        before = len(self.processes.answers)
        self.api.process(self, 'healthcheck', line)  # type: ignore[arg-type]
        while not self.asynchronous.ready():
            asyncio.run(self.asynchronous._run_async())
        # the peer sends what is pending: the cache becomes what the remote end holds
        for rib in self.ribs().values():
            for _ in rib.updates(False):
                pass
        answers = self.processes.answers[before:]
        return answers[-1] if answers else 'no answer'

    def adj_rib_out(self) -> dict:
        return {peer: sorted(str(route.nlri) for route in rib.cached_routes()) for peer, rib in self.ribs().items()}




def main() -> int:
    bad = 0
    for title, extra, want in (
        ('one neighbor', ['--neighbor', '192.0.2.1'], {'192.0.2.1'}),
        ('two neighbors', ['--neighbor', '192.0.2.1', '--neighbor', '192.0.2.3'], {'192.0.2.1', '192.0.2.3'}),
        ('all neighbors', [], {'192.0.2.1', '192.0.2.3', '192.0.2.5'}),
    ):
        lines = run_helper(['--cmd', 'true', '--ip', '203.0.113.1/32', '--rise', '1', '--no-ack'] + extra, [True, True])
        from exabgp.rib import RIB

        RIB._cache.clear()  # the RIB of a neighbor is kept by name: every case is a fresh daemon
        daemon = Daemon()
        up = [line for line in lines if ' announce ' in line][:1]
        answers = [daemon.command(line) for line in up]
        got = {peer for peer, routes in daemon.adj_rib_out().items() if routes}
        ok = bool(up) and all(a == 'done' for a in answers) and got == want
        bad += not ok
        print('%-4s %-14s wrote %r -> %s, announced to %s' % ('ok' if ok else 'BAD', title, up[0] if up else None, answers, sorted(got)))
    return 1 if bad else 0


if __name__ == '__main__':
    sys.exit(main())
