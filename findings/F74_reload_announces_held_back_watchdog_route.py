#!/usr/bin/env python3
"""F74 (C17): a route configured with `watchdog <name> withdraw` is kept out of the Adj-RIB-Out until the API announces the
watchdog.  A fresh start honours that.  A reload whose new configuration ADDS such a route announced it at once:
OutgoingRIB.replace_reload queues every route the previous configuration did not have, and the watchdog / withdraw markers
have already been taken off the route at parse time (add_to_rib_watchdog).  The peer of a reloaded daemon and the peer of a
freshly started one end with different tables for the same configuration.

    cd /repo && PYTHONPATH=/repo/src /venv/bin/python /verif/findings/F74_reload_announces_held_back_watchdog_route.py
exit 1 when the reload announces the held back route."""
import sys

from exabgp.environment import getenv
from exabgp.logger import log

log.init(getenv())
log.silence()

from exabgp.configuration.configuration import Configuration  # noqa: E402
from exabgp.rib import RIB  # noqa: E402

HEAD = """
neighbor 127.0.0.1 {
    router-id 1.2.3.4;
    local-address 127.0.0.1;
    local-as 65000;
    peer-as 65001;
    static {
        route 10.0.0.0/24 next-hop 192.0.2.1;
%s
    }
}
"""
A = HEAD % ''
B = HEAD % '        route 10.0.9.0/24 next-hop 192.0.2.1 watchdog dnsr withdraw;\n        route 10.0.8.0/24 next-hop 192.0.2.1 watchdog dnsr;'


def sent(rib):
    out = []
    for update in rib.updates(False):
        out += ['+' + str(r.nlri) for r in update.announces] + ['-' + str(n) for n in update.withdraws]
    return sorted(out)


# a fresh start with B
RIB._cache.clear()
c = Configuration([B], text=True)
assert c.reload(), c.error
fresh = sent(next(iter(c.neighbors.values())).rib.outgoing)
print('fresh start with the new configuration sends:', fresh)

# start with A, session up, then reload to B (what Peer._main does with the reloaded neighbor)
RIB._cache.clear()
c = Configuration([A], text=True)
assert c.reload(), c.error
first = sent(next(iter(c.neighbors.values())).rib.outgoing)
c._configurations[:] = [B]
assert c.reload(), c.error
neighbor = next(iter(c.neighbors.values()))
previous = neighbor.previous.routes if neighbor.previous else []
neighbor.rib.outgoing.replace_reload(previous, neighbor.routes)
after = sent(neighbor.rib.outgoing)
print('start with the old one sends                :', first)
print('reload to the new one then sends            :', after)
peer_after_reload = sorted(set(first) | set(after))
bad = '+10.0.9.0/24' in peer_after_reload or peer_after_reload != fresh
print('peer after the reload', peer_after_reload, '- peer after a fresh start', fresh)
sys.exit(1 if bad else 0)
