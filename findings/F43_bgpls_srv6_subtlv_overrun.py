#!/usr/bin/env python3
"""F43 (C08): a sub-TLV of the BGP-LS SRv6 End.X / LAN End.X SID TLV whose declared length overruns the TLV was
accepted as a shorter one.

The BGP-LS attribute (type 29) below carries one SRv6 End.X SID TLV (1106) whose only sub-TLV says "100 bytes" and
has 2.  Expected (RFC 9552 8.2.2, the class is DISCARD): the attribute is refused (Notify 3/5 -> attribute discard).
Before the fix the TLV was decoded with "unknown-subtlv-9999": "ABCD" and the route announced with it.

    cd /repo && PYTHONPATH=/repo/src /venv/bin/python /verif/findings/F43_bgpls_srv6_subtlv_overrun.py
exit 1 when the overrun is accepted."""
import struct
import sys

from exabgp.bgp.message.notification import Notify
from exabgp.bgp.message.update.attribute.bgpls.linkstate import LinkState
import exabgp.bgp.message.update.attribute.bgpls  # noqa: F401  (registers the TLV classes)

bad = 0
for name, code, fixed in (('SRv6 End.X SID', 1106, 22), ('SRv6 LAN End.X SID (OSPF)', 1108, 26)):
    body = bytes(fixed)
    if code == 1108:
        body = bytes(6) + bytes([10, 0, 0, 1]) + bytes(16)  # flags.. neighbor-id (OSPF: 4 bytes) .. SID
        body = bytes(2) + bytes([0]) + bytes(3) + bytes([10, 0, 0, 1]) + bytes(16)
    sub = struct.pack('!HH', 9999, 100) + b'\xab\xcd'
    tlv = struct.pack('!HH', code, len(body) + len(sub)) + body + sub
    try:
        ls = LinkState.unpack_attribute(tlv, None)
        text = ls.json()
        print(name, 'ACCEPTED:', text[:160])
        bad += 1
    except Notify as exc:
        print(name, 'refused:', exc.code, exc.subcode, str(exc)[:90])
    except Exception as exc:  # noqa: BLE001
        print(name, 'other error', type(exc).__name__, exc)
sys.exit(1 if bad else 0)
