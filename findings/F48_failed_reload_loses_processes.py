#!/usr/bin/env python3
"""F48 (C17): a reload that FAILS replaced configuration.processes by what the parser had read before the error.

The main loop then calls Processes.start(configuration.processes), which terminates every API process missing from that
partial table: a typo in the file killed the API.

    cd /repo && PYTHONPATH=/repo/src /venv/bin/python /verif/findings/F48_failed_reload_loses_processes.py
exit 1 when the processes table changed.
"""
import sys

from exabgp.configuration.configuration import Configuration

GOOD = """
neighbor 127.0.0.1 {
    router-id 1.2.3.4;
    local-address 127.0.0.1;
    local-as 65000;
    peer-as 65001;
    api { processes [ svc ]; }
}
process svc {
    run /bin/cat;
    encoder text;
}
"""
BAD = GOOD.replace('peer-as 65001;', 'peer-as 65001; bogus;')

c = Configuration([GOOD], text=True)
assert c.reload()
before = dict(c.processes)
print('processes after the load          :', sorted(before))
c._configurations[:] = [BAD]
print('reload of a broken file           :', c.reload())
print('processes after the failed reload :', sorted(c.processes))
sys.exit(0 if c.processes == before else 1)
