"""F28 (C16): Flow._encode_length refused a rule of exactly 4095 bytes (`lc < 4095`), although the two-byte length form
0xFnnn covers 240 to 4095 inclusive (RFC 8955 4.1).
Run: /venv/bin/python findings/F28_flowspec_length_4095.py   (exit 1 = defect present)"""
import sys
sys.path.insert(0, '/repo/src')
from exabgp.bgp.message.update.nlri.flow import Flow
from exabgp.bgp.message.notification import Notify
from exabgp.protocol.family import AFI, SAFI
flow = Flow.make_flow(AFI.ipv4, SAFI.flow_ip)
try:
    out = bytes(flow._encode_length(bytes(4095)))
except Notify as n:
    print('refused a 4095 byte rule:', str(n)[:60]); sys.exit(1)
print('length prefix', out[:2].hex())
try:
    flow._encode_length(bytes(4096)); print('4096 accepted'); sys.exit(1)
except Notify:
    pass
sys.exit(0 if out[:2] == bytes([0xFF, 0xFF]) else 1)
