"""F2 (C03): AttributeCollection.parse recursed once per attribute; a valid UPDATE with ~1200 unknown optional
non-transitive attributes (3 bytes each, 3.6 kB) hit RecursionError and was refused.
Run: /venv/bin/python findings/F02_parse_recursion.py   (exit 1 = defect present)"""
import sys
sys.path.insert(0, '/repo/src')
from unittest.mock import MagicMock
from exabgp.bgp.message.update.attribute.collection import AttributeCollection
data = b''.join(bytes([0x80, 200, 0]) for _ in range(1200))   # optional, unknown type 200, empty value
try:
    AttributeCollection().parse(data, MagicMock())
except RecursionError:
    print('RecursionError on a valid 3600-byte attribute block'); sys.exit(1)
print('parsed 1200 unknown optional attributes'); sys.exit(0)
