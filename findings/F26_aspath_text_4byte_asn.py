"""F26 (C18, C01): the as-path parser built the AS_PATH with make_aspath's default 2-byte packing, so a route text with a
4-byte AS number (`as-path [ 65001 200000 ]`, valid per RFC 6793) raised struct.error instead of being accepted.
Run: /venv/bin/python findings/F26_aspath_text_4byte_asn.py   (exit 1 = defect present)"""
import sys
sys.path.insert(0, '/repo/src')
from exabgp.configuration.setup import create_minimal_configuration
from exabgp.bgp.message.update.attribute import Attribute
cfg = create_minimal_configuration(peer_address='192.0.2.2', local_address='192.0.2.1', local_as=65001, peer_as=65002)
try:
    routes = cfg.parse_route_text('route 10.0.0.0/24 next-hop 192.0.2.1 as-path [ 65001 200000 ]')
except Exception as e:
    print('EXC', repr(e)); sys.exit(1)
if not routes:
    print('refused:', cfg.error); sys.exit(1)
print('accepted: as-path', routes[0].attributes[Attribute.CODE.AS_PATH])
sys.exit(0 if '200000' in str(routes[0].attributes[Attribute.CODE.AS_PATH]) else 1)
