"""F15 (C17): Configuration._reload() cleared the neighbor table and, when the file had become unreadable (or an
exception escaped the parser), returned without rolling back: reload() reported failure and configuration.neighbors
was left empty.
Run: /venv/bin/python findings/F15_failed_reload_loses_neighbors.py   (exit 1 = defect present)"""
import os, sys, tempfile
sys.path.insert(0, '/repo/src')
from exabgp.configuration.configuration import Configuration
conf = '''neighbor 192.0.2.2 {
    router-id 192.0.2.1;
    local-address 192.0.2.1;
    local-as 65001;
    peer-as 65002;
    static { route 10.0.0.0/24 next-hop 192.0.2.1; }
}
'''
d = tempfile.mkdtemp()
path = os.path.join(d, 'exabgp.conf')
open(path, 'w').write(conf)
c = Configuration([path])
assert c.reload() is True, c.error
before = sorted(c.neighbors)
os.unlink(path)                                  # the file is gone when the operator asks for a reload
ok = c.reload()
after = sorted(c.neighbors)
print('reload() ->', ok, '; neighbors before', len(before), 'after', len(after))
# an exception inside the parser
open(path, 'w').write(conf)
assert c.reload() is True
c.parser.set_file = lambda target: (_ for _ in ()).throw(OSError('disk error'))
ok2 = c.reload()
print('reload() with an exception ->', ok2, '; neighbors', len(c.neighbors))
sys.exit(0 if (not ok and after == before and not ok2 and sorted(c.neighbors) == before) else 1)
