#!/usr/bin/env python3
"""F47 (C14): ASYNC._run_async drops an API command callback popped on the last step of a turn.

The generator branch runs LIMIT (50) steps; when the running generator ends it pops the next entry.  When that happens on
the 50th step the popped entry is not run, and after the loop only generators were put back: a command callback (a
coroutine) popped there is discarded - the command is never executed and never answered.

    cd /repo && PYTHONPATH=/repo/src /venv/bin/python /verif/findings/F47_scheduler_drops_command.py
exit 1 when a scheduled command is lost."""
import asyncio
import sys
import warnings

from exabgp.reactor.asynchronous import ASYNC

warnings.simplefilter('ignore', RuntimeWarning)


async def main(n):
    a, ran = ASYNC(), []

    def gen():
        for _ in range(n):
            yield

    async def coro():
        ran.append('command')

    a.schedule('listener', 'new connections', gen())
    a.schedule('api', 'announce route ...', coro())
    for _ in range(5):
        await a._run_async()
    return ran, len(a._async)


bad = 0
for n in (3, 48, 49, 50, 51, 99):
    ran, left = asyncio.run(main(n))
    ok = ran == ['command'] and left == 0
    print('generator of %d steps ahead of a command: ran=%s left=%d %s' % (n, ran, left, 'ok' if ok else 'COMMAND LOST'))
    bad += not ok
sys.exit(1 if bad else 0)
