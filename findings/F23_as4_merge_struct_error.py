"""F23 (C02, C03): merge_attributes packed the merged AS_PATH 2 bytes wide; a valid AS_PATH (23456 2) + AS4_PATH
(70000 2) from a 2-byte peer raised struct.error, which the reactor launders into NOTIFICATION 1/0.
Run: /venv/bin/python findings/F23_as4_merge_struct_error.py   (exit 1 = defect present)"""
import struct, sys
sys.path.insert(0, '/repo/src')
from exabgp.bgp.message.open.asn import ASN
from exabgp.bgp.message.update.attribute import Attribute
from exabgp.bgp.message.update.attribute.aspath import ASPath, AS4Path, SEQUENCE
from exabgp.bgp.message.update.attribute.collection import AttributeCollection
a = AttributeCollection()
a.add(ASPath.make_aspath([SEQUENCE([ASN(23456), ASN(2)])], asn4=False))
a.add(AS4Path.make_aspath([SEQUENCE([ASN(70000), ASN(2)])]))
try:
    a.merge_attributes()
except struct.error as e:
    print('struct.error:', e); sys.exit(1)
merged = str(a[Attribute.CODE.AS_PATH])
print('merged AS_PATH:', merged)
sys.exit(0 if '70000' in merged else 1)
