#!/usr/bin/env python3
"""F67 (C01): in the first batch of a session the withdraws are held back (messages(..., include_withdraw=False)).  For a
family carried in MP_UNREACH_NLRI the per-family message was still yielded, with nothing in it: `0000 0000`, which IS the
IPv4 unicast End-of-RIB marker (RFC 4724).  The operator asked for the withdraw of an IPv6 route; the peer was told the
initial IPv4 table was complete.  Route from configuration text through the real parser and outgoing RIB.

    cd /repo && PYTHONPATH=/repo/src /venv/bin/python /verif/findings/F67_held_back_mp_withdraw_sends_end_of_rib.py
exit 1 when an UPDATE without any route is emitted."""
import sys

from exabgp.environment import getenv
from exabgp.logger import log

log.init(getenv())
log.silence()

from exabgp.configuration.check import _negotiated  # noqa: E402
from exabgp.configuration.setup import create_configuration_with_routes  # noqa: E402
from exabgp.rib import RIB  # noqa: E402

bad = 0
for text, families in (
    ('route 2001:db8:1::/48 next-hop 2001:db8::1', 'ipv4 unicast ipv6 unicast'),
    ('route 10.0.0.0/24 next-hop 192.0.2.1', 'ipv4 unicast ipv6 unicast'),
):
    for include_withdraw in (True, False):
        RIB._cache.clear()
        configuration = create_configuration_with_routes(route_text=text, families=families, action='withdraw')
        neighbor = next(iter(configuration.neighbors.values()))
        _, negotiated = _negotiated(neighbor)
        bodies = []
        for update in neighbor.rib.outgoing.updates(False):
            bodies.extend(bytes(m[19:]) for m in update.messages(negotiated, include_withdraw=include_withdraw))
        empty = [b for b in bodies if b == b'\x00\x00\x00\x00']
        bad += bool(empty)
        print('%-4s withdraw %-45s include_withdraw=%-5s UPDATE bodies %s' % ('BAD' if empty else 'ok', text, include_withdraw, [b.hex() for b in bodies]))
sys.exit(1 if bad else 0)
