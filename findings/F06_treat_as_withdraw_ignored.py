"""F6 (C08): the INTERNAL_TREAT_AS_WITHDRAW marker was produced but never consumed: an UPDATE with a malformed
ORIGIN still reported its NLRI as announced.
Run: /venv/bin/python findings/F06_treat_as_withdraw_ignored.py   (exit 1 = defect present)"""
import sys
sys.path.insert(0, '/repo/src')
from exabgp.bgp.message.open.capability.negotiated import Negotiated
from exabgp.bgp.message.direction import Direction
from exabgp.bgp.message.update.collection import UpdateCollection
from exabgp.protocol.family import AFI, SAFI
import exabgp.bgp.message.update.attribute  # noqa
import exabgp.bgp.message.update.nlri  # noqa
from unittest.mock import MagicMock
neg = MagicMock()
neg.required.return_value = False
neg.asn4 = True
neg.families = [(AFI.ipv4, SAFI.unicast)]
neg.neighbor = None
origin = bytes([0x40, 0x01, 0x01, 0x09])                       # ORIGIN = 9 (invalid)
aspath = bytes([0x40, 0x02, 0x00])
nexthop = bytes([0x40, 0x03, 0x04, 10, 0, 0, 1])
attrs = origin + aspath + nexthop
payload = b'\x00\x00' + len(attrs).to_bytes(2, 'big') + attrs + bytes([8, 10])   # announces 10.0.0.0/8
u = UpdateCollection._parse_payload(payload, neg)
print('announces:', [str(r.nlri) for r in u.announces], 'withdraws:', [str(n) for n in u.withdraws])
sys.exit(0 if not u.announces and len(u.withdraws) == 1 else 1)
