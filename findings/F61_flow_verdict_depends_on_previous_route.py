#!/usr/bin/env python3
"""F61 (C18): whether a flow route is accepted depended on the static route parsed before it.

The family check of the flow components reads tokeniser.afi, which only the static prefix parser writes and nothing
reset: after `announce route 2001:db8::/32 next-hop 2001::1` the command
`announce flow route { match { protocol tcp; } then { discard; } }` (accepted a moment before) was refused with
"'FlowIPProtocol' is not valid for IPv6 flow routes".

    cd /repo && PYTHONPATH=/repo/src /venv/bin/python /verif/findings/F61_flow_verdict_depends_on_previous_route.py
exit 1 when the verdict on the same flow text changes."""
import sys
from unittest.mock import Mock

from exabgp.reactor.api import API

api = API(Mock())
FLOW4 = 'announce flow route { match { protocol tcp; } then { discard; } }'
FLOW6 = 'announce flow route { match { source 2001:db8::/32; next-header tcp; } then { discard; } }'


def verdict(text):
    try:
        return bool(api.api_flow(text))
    except Exception:  # noqa: BLE001
        return False


bad = 0
first4, first6 = verdict(FLOW4), verdict(FLOW6)
api.api_route('announce route 2001:db8::/32 next-hop 2001::1')
after6 = verdict(FLOW4)
api.api_route('announce route 10.0.0.0/24 next-hop 1.2.3.4')
after4 = verdict(FLOW6)
print('protocol tcp flow   : accepted at first: %s, after an IPv6 static route: %s' % (first4, after6))
print('next-header tcp flow: accepted at first: %s, after an IPv4 static route: %s' % (first6, after4))
bad = (first4 != after6) + (first6 != after4)
sys.exit(1 if bad else 0)
