#!/usr/bin/env python3
"""F40 / F41 (C03): a valid message crashed the session outside the decoding barrier (fixed by 3f23adc and c774f31).

Found by a seeding agent while building a demonstration on the pinned tree.

Drives a real Peer / Protocol / Negotiated over a fake TCP connection.  For each input it prints
what came out of the session.  exit 1 when at least one defect reproduces, 0 when none does.

    cd /repo && PYTHONPATH=/repo/src /venv/bin/python /verif/findings/F40_F41_message_outside_barrier_crashes_session.py
"""

import asyncio
import os
import struct
import sys

os.environ['exabgp_log_enable'] = 'false'
os.environ['exabgp_tcp_attempts'] = '1'

from unittest.mock import MagicMock  # noqa: E402

import exabgp  # noqa: E402

print('exabgp imported from', exabgp.__file__)

import exabgp.reactor.peer.peer as peer_module  # noqa: E402
from exabgp.configuration.configuration import Configuration  # noqa: E402
from exabgp.reactor.peer import Peer  # noqa: E402
from exabgp.reactor.protocol import Protocol  # noqa: E402

MARKER = b'\xff' * 16


def message(kind: int, body: bytes = b'') -> bytes:
    return MARKER + struct.pack('!HB', 19 + len(body), kind) + body


CAPABILITIES = bytes([2, 6, 1, 4, 0, 1, 0, 1]) + bytes([2, 6, 65, 4]) + struct.pack('!L', 65001)
OPEN = message(1, bytes([4]) + struct.pack('!HH', 65001, 180) + bytes([10, 0, 0, 2]) + bytes([len(CAPABILITIES)]) + CAPABILITIES)
KEEPALIVE = message(4)


def neighbor(extra: str = '') -> object:
    text = """
neighbor 127.0.0.2 {
    router-id 10.0.0.1;
    local-address 127.0.0.1;
    local-as 65000;
    peer-as 65001;
    hold-time 180;
    %s
    family { ipv4 unicast; }
}
""" % extra
    configuration = Configuration([text], text=True)
    assert configuration.reload(), configuration.error
    (found,) = configuration.neighbors.values()
    return found


class FakeConnection:
    def __init__(self, incoming: list[bytes]) -> None:
        self.incoming = list(incoming)
        self.written: list[bytes] = []
        self.msg_size = 4096
        self.local = '127.0.0.1'
        self.closed = False

    def fd(self) -> int:
        return 7

    def session(self) -> str:
        return 'fake-session'

    def name(self) -> str:
        return 'fake-connection'

    def close(self) -> None:
        self.closed = True

    async def writer_async(self, data: bytes) -> None:
        self.written.append(bytes(data))

    async def reader_async(self):  # type: ignore[no-untyped-def]
        from exabgp.reactor.network.error import LostConnection

        if not self.incoming:
            await asyncio.sleep(0.05)
            raise LostConnection('the peer closed the TCP session')
        raw = self.incoming.pop(0)
        return int.from_bytes(raw[16:18], 'big'), raw[18], memoryview(raw[:19]), memoryview(raw[19:]), None


reproduced = 0


def present(label: str, incoming: list[bytes], extra: str = '') -> None:
    global reproduced
    unhandled: list[str] = []
    real_error = peer_module.log.error

    def error(text, source='', *args, **kwargs):  # type: ignore[no-untyped-def]
        rendered = text() if callable(text) else str(text)
        if 'peer.exception.unhandled' in rendered:
            unhandled.append(rendered.strip().splitlines()[-6].strip())

    peer_module.log.error = error  # type: ignore[method-assign]
    try:
        peer = Peer(neighbor(extra), MagicMock())  # type: ignore[arg-type]
        proto = Protocol(peer)
        connection = FakeConnection(incoming)
        proto.connection = connection  # type: ignore[assignment]
        peer.proto = proto
        escaped = None
        try:
            asyncio.run(asyncio.wait_for(peer._run(), 10))
        except BaseException as exc:  # noqa: BLE001
            escaped = exc
    finally:
        peer_module.log.error = real_error  # type: ignore[method-assign]
    notifications = [(raw[19], raw[20]) for raw in connection.written if raw[18] == 3]
    bad = bool(unhandled) or escaped is not None
    reproduced += bad
    print(f'{"DEFECT" if bad else "fine  "} {label}: written types {[raw[18] for raw in connection.written]} notifications {notifications} escaped {escaped!r}')
    for line in unhandled:
        print('         Peer._run "UNHANDLED PROBLEMS" branch, session dropped without a NOTIFICATION:', line)


EOR_IPV4 = message(2, b'\x00\x00\x00\x00')
WITHDRAW = message(2, b'\x00\x04\x18\x0a\x00\x00' + b'\x00\x00')  # withdraw 10.0.0.0/24, a plain valid UPDATE
OPERATIONAL = message(6, b'\x00\x01\x00\x03\x00\x01\x01')

present('1a. End-of-RIB in Established (adj-rib-in on, the default)', [OPEN, KEEPALIVE, EOR_IPV4])
present('1b. any UPDATE in Established with adj-rib-in off', [OPEN, KEEPALIVE, WITHDRAW], 'adj-rib-in false;')
present('1c. control: the same UPDATE with adj-rib-in on', [OPEN, KEEPALIVE, WITHDRAW])
present('2a. OPERATIONAL (type 6) in OpenSent', [OPERATIONAL])
present('2b. OPERATIONAL (type 6) in Established', [OPEN, KEEPALIVE, OPERATIONAL])
present('2c. message type 252 in OpenSent', [message(252, b'\x00')])
present('2d. message type 252 in Established', [OPEN, KEEPALIVE, message(252, b'\x00')])
present('2e. control: message type 200 in Established', [OPEN, KEEPALIVE, message(200, b'\x00')])

print(f'\n{reproduced} input(s) ended in the unhandled-exception branch')
sys.exit(1 if reproduced else 0)
