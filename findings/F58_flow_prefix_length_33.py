#!/usr/bin/env python3
"""F58 (C18): a flow `source 10.0.0.0/33` (or an IPv6 prefix above /128) was accepted, encoded and sent.

    cd /repo && PYTHONPATH=/repo/src /venv/bin/python /verif/findings/F58_flow_prefix_length_33.py
exit 1 when a flow prefix longer than its address is accepted."""
import sys
from unittest.mock import Mock

from exabgp.reactor.api import API

api = API(Mock())
bad = 0
for text, valid in (
    ('announce flow route { match { source 10.0.0.0/33; } then { discard; } }', False),
    ('announce flow route { match { destination 10.0.0.0/33; } then { discard; } }', False),
    ('announce flow route { match { source 2001:db8::/129; } then { discard; } }', False),
    ('announce flow route { match { source 10.0.0.0/32; } then { discard; } }', True),
    ('announce flow route { match { destination 2001:db8::/128; } then { discard; } }', True),
):
    try:
        routes = api.api_flow(text)
    except Exception as exc:  # noqa: BLE001
        routes = []
    ok = bool(routes) == valid
    print('%-85s %s %s' % (text, 'accepted' if routes else 'refused', 'ok' if ok else 'WRONG'))
    bad += not ok
sys.exit(1 if bad else 0)
