"""F7 (C08): an attribute whose declared length overruns the attribute block was cut by slicing and accepted as a
shorter valid attribute: COMMUNITY declaring 8 bytes with 4 left decoded as one community.
Run: /venv/bin/python findings/F07_attribute_overrun.py   (exit 1 = defect present)"""
import sys
sys.path.insert(0, '/repo/src')
from unittest.mock import MagicMock
from exabgp.bgp.message.update.attribute import Attribute
from exabgp.bgp.message.update.attribute.collection import AttributeCollection
import exabgp.bgp.message.update.attribute  # noqa: registers attributes
data = bytes([0xC0, 0x08, 0x08]) + bytes([0xFF, 0xFF, 0xFF, 0x01])   # COMMUNITY, length 8, only 4 bytes follow
attrs = AttributeCollection().parse(data, MagicMock())
taw = Attribute.CODE.INTERNAL_TREAT_AS_WITHDRAW in attrs
print('attributes:', {k: str(v) for k, v in attrs.items()}, 'treat-as-withdraw:', taw)
sys.exit(0 if taw and Attribute.CODE.COMMUNITY not in attrs else 1)
