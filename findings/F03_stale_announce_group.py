"""F3 (C04): OutgoingRIB._update_rib left the previous queued announce of a route in its old attribute group. Announce
x with med 1, med 2, med 1 inside one flush window: updates() emitted the med-1 group first and the stale med-2 group
last, so the peer ended on med 2 while the cache (reported Adj-RIB-Out) said med 1.
Run: /venv/bin/python findings/F03_stale_announce_group.py   (exit 1 = defect present)"""
import sys
sys.path.insert(0, '/repo/src')
from exabgp.rib.outgoing import OutgoingRIB
from exabgp.rib.route import Route
from exabgp.protocol.family import AFI, SAFI
from exabgp.protocol.ip import IP
from exabgp.bgp.message.update.nlri.inet import INET
from exabgp.bgp.message.update.nlri.cidr import CIDR
from exabgp.bgp.message.update.attribute.collection import AttributeCollection
from exabgp.bgp.message.update.attribute.med import MED
from exabgp.bgp.message.update.attribute.origin import Origin

def route(med):
    nlri = INET.from_cidr(CIDR.create_cidr(IP.pton('10.0.0.0'), 8), AFI.ipv4, SAFI.unicast)
    a = AttributeCollection(); a.add(Origin.from_int(Origin.IGP)); a.add(MED.from_int(med))
    return Route(nlri, a, nexthop=IP.from_string('192.0.2.1'))
rib = OutgoingRIB(True, {(AFI.ipv4, SAFI.unicast)})
for m in (1, 2, 1):
    rib.add_to_rib(route(m))
peer = {}
for upd in rib.updates(False):
    for r in upd.announces:
        peer[str(r.nlri)] = str(upd.attributes)
    for n in upd.withdraws:
        peer.pop(str(n), None)
cache = {str(r.nlri): str(r.attributes) for r in rib.cached_routes()}
print('peer table :', peer); print('cache      :', cache)
sys.exit(0 if peer == cache else 1)
