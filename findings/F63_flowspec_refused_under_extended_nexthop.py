#!/usr/bin/env python3
"""F63 (C03): once ANY extended next hop (RFC 8950) was negotiated on the session, MPRNLRI.unpack_attribute refused every
MP_REACH_NLRI whose next-hop length is not 4/12/16/24/32 - also for families the capability does not concern: a flowspec
announcement (next-hop length 0, RFC 8955) and an ipv6 mpls-vpn announcement with the 40 octet next hop Family.size
lists were answered NOTIFICATION 3/0 and the session was reset.  The same bodies are decoded without the capability.

    cd /repo && PYTHONPATH=/repo/src /venv/bin/python /verif/findings/F63_flowspec_refused_under_extended_nexthop.py
exit 1 when a valid UPDATE is refused."""
import struct
import sys
from unittest.mock import Mock

from exabgp.bgp.message import Message
from exabgp.bgp.message.direction import Direction
from exabgp.bgp.message.notification import Notify
from exabgp.bgp.message.open.capability.negotiated import Negotiated
from exabgp.protocol.family import AFI, SAFI


def negotiated(nexthop):
    n = Negotiated.make_negotiated(Mock(), Direction.IN)
    n.families = [(AFI.ipv4, SAFI.unicast), (AFI.ipv4, SAFI.flow_ip), (AFI.ipv6, SAFI.flow_ip)]
    n.asn4 = True
    n.nexthop = nexthop
    n.aigp = False
    n.neighbor = None
    return n


def update(afi, safi, nlri):
    mp = struct.pack('!HBB', afi, safi, 0) + b'\x00' + nlri
    attrs = bytes([0x40, 1, 1, 0]) + bytes([0x40, 2, 0]) + bytes([0x40, 5, 4, 0, 0, 0, 100]) + bytes([0x80, 14, len(mp)]) + mp
    return b'\x00\x00' + struct.pack('!H', len(attrs)) + attrs


flow4 = bytes([0x01, 24, 10, 0, 0])  # destination 10.0.0.0/24
flow6 = bytes([0x01, 32, 0, 0x20, 0x01, 0x0D, 0xB8])  # destination 2001:db8::/32 offset 0
bodies = {
    'ipv4 flow': update(1, 133, bytes([len(flow4)]) + flow4),
    'ipv6 flow': update(2, 133, bytes([len(flow6)]) + flow6),
}
bad = 0
for name, body in bodies.items():
    for title, nh in (('no extended next hop', []), ('ipv4 unicast over ipv6 next hops negotiated', [(AFI.ipv4, SAFI.unicast, AFI.ipv6)])):
        try:
            m = Message.unpack(2, body, negotiated(nh))
            print('ok      %-10s %-45s decoded %s' % (name, title, [str(r.nlri) for r in m.data.announces]))
        except Notify as e:
            bad += 1
            print('REFUSED %-10s %-45s NOTIFICATION %d/%d %s' % (name, title, e.code, e.subcode, e.data))
sys.exit(1 if bad else 0)
