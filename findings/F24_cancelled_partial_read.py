"""F24 (C06): Peer._main wrapped read_message() in asyncio.wait_for(timeout=0.1); a message whose body arrived more
than 100 ms after its header was cancelled half read, the consumed header was lost and the body bytes were then
taken for a header ("does not contain a BGP marker", NOTIFICATION 1/1).
Run: /venv/bin/python findings/F24_cancelled_partial_read.py   (exit 1 = defect present)"""
import asyncio, socket, sys
from unittest.mock import MagicMock
sys.path.insert(0, '/repo/src')
from exabgp.bgp.message import Notify, KeepAlive, Update
from exabgp.protocol.family import AFI
from exabgp.reactor.network.connection import Connection
from exabgp.reactor.peer.peer import Peer
from exabgp.reactor.protocol import Protocol

async def scenario():
    a, b = socket.socketpair(); a.setblocking(False); b.setblocking(False)
    import collections
    neighbor = MagicMock(); neighbor.api = collections.defaultdict(bool); neighbor.uid = '1'; neighbor.manual_eor = True; neighbor.rate_limit = 0
    neighbor.asm = {}; neighbor.previous = None; neighbor.routes = []; neighbor.messages = []; neighbor.eor = []; neighbor.refresh = []
    neighbor.capability.operational.is_enabled.return_value = False; neighbor.capability.route_refresh = False
    neighbor.rib.outgoing.pending.return_value = False; neighbor.adj_rib_in = False
    peer = Peer(neighbor, MagicMock())
    proto = Protocol.__new__(Protocol)
    proto.peer = peer; proto.neighbor = neighbor; proto.negotiated = MagicMock(); proto.log_routes = False
    proto.connection = Connection(AFI.ipv4, 'peer', 'local'); proto.connection.io = a
    proto.negotiated.holdtime.keepalive.return_value = 0
    peer.proto = proto; peer.recv_timer = MagicMock()
    seen = []
    orig = peer.recv_timer.check_ka
    def check(message):
        if not message.SCHEDULING or message.TYPE == Update.TYPE:
            seen.append(type(message).__name__)
            peer._teardown = 2
    peer.recv_timer.check_ka = check
    body = bytes(4)                                     # UPDATE: no withdrawn, no attributes = IPv4 EOR
    header = b'\xff' * 16 + (19 + len(body)).to_bytes(2, 'big') + bytes([2])
    async def sender():
        loop = asyncio.get_event_loop()
        await loop.sock_sendall(b, header)
        await asyncio.sleep(0.3)                        # body arrives 300 ms after the header
        await loop.sock_sendall(b, body)
    asyncio.ensure_future(sender())
    try:
        await asyncio.wait_for(peer._main(), timeout=3)
    except Notify as n:
        if (n.code, n.subcode) == (6, 2):
            return 'framed correctly (%s)' % seen
        return 'Notify(%d,%d) %s' % (n.code, n.subcode, n.data[:60])
    except asyncio.TimeoutError:
        return 'message lost: the header was consumed by a cancelled read, the 4 body bytes are waiting to become a header'
    except Exception as e:
        return 'framed correctly (%s), left by %s' % (seen, type(e).__name__) if seen else 'error %r' % e
    return 'no message'

res = asyncio.run(scenario())
print(res)
sys.exit(0 if res.startswith('framed correctly') else 1)
