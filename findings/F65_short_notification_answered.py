#!/usr/bin/env python3
"""F65 (C10): a NOTIFICATION whose header Length is 19 or 20 (no code, or a code without subcode), or larger than the
negotiated message size, was refused by the framing check of Connection.reader_async; Protocol.read_message turned that
into Notify(1, 2) and Peer._run WROTE a NOTIFICATION 1/2 to the peer that was closing the session with a NOTIFICATION.
RFC 4271 6.5 and the repository's own Notification.unpack_message ("must not be answered with a NOTIFICATION") say the
session just closes.  The real Peer._run is driven over a loopback TCP connection; what ExaBGP wrote is read back.

    cd /repo && PYTHONPATH=/repo/src /venv/bin/python /verif/findings/F65_short_notification_answered.py
exit 1 when a NOTIFICATION is written in answer to a NOTIFICATION."""
import asyncio, os, socket, struct, sys
os.environ['exabgp_log_enable'] = 'false'
from unittest.mock import MagicMock
import exabgp
from exabgp.configuration.configuration import Configuration
from exabgp.protocol.family import AFI
from exabgp.reactor.network.incoming import Incoming
from exabgp.reactor.peer import Peer

MARKER = b'\xff' * 16
def bgp(kind, body=b'', length=None):
    return MARKER + struct.pack('!HB', 19 + len(body) if length is None else length, kind) + body
def open_message(version=4, asn=65500, hold=180, rid='10.0.0.9', params=b''):
    return bgp(1, struct.pack('!BHH', version, asn, hold) + socket.inet_aton(rid) + bytes([len(params)]) + params)
KEEPALIVE = bgp(4)
CONFIG = """neighbor 127.0.0.1 {
    router-id 10.0.0.2;
    local-address 127.0.0.1;
    local-as 65000;
    peer-as 65500;
    hold-time %d;
    %s
    family { ipv4 unicast; }
}"""
def make_peer(hold=180, extra=''):
    configuration = Configuration([CONFIG % (hold, extra)], text=True)
    assert configuration.reload(), configuration.error
    neighbor = next(iter(configuration.neighbors.values()))
    return Peer(neighbor, MagicMock())
def tcp_pair():
    server = socket.socket(); server.bind(('127.0.0.1', 0)); server.listen(1)
    remote = socket.socket(); remote.connect(server.getsockname())
    local, _ = server.accept(); server.close()
    local.setblocking(False); remote.setblocking(False)
    return local, remote
def split(stream):
    messages = []
    while len(stream) >= 19:
        length = struct.unpack('!H', stream[16:18])[0]
        messages.append((stream[18], bytes(stream[19:length])))
        stream = stream[length:]
    return messages
async def session(script, hold=180, extra='', timeout=15):
    peer = make_peer(hold, extra)
    local, remote = tcp_pair()
    peer.handle_connection(Incoming(AFI.ipv4, '127.0.0.1', '127.0.0.1', local))
    loop = asyncio.get_running_loop()
    written = bytearray()
    async def drain():
        while True:
            try: data = await loop.sock_recv(remote, 65536)
            except OSError: return
            if not data: return
            written.extend(data)
    drainer = asyncio.ensure_future(drain())
    runner = asyncio.ensure_future(peer._run())
    for step in script:
        if isinstance(step, (int, float)): await asyncio.sleep(step)
        else: await loop.sock_sendall(remote, step)
    await asyncio.wait_for(runner, timeout)
    await asyncio.wait_for(drainer, timeout)
    remote.close()
    return split(bytes(written))


if __name__ == '__main__':
    est = [open_message(), KEEPALIVE, 0.3]
    bad = 0
    for name, last in (
        ('NOTIFICATION with Length 19', bgp(3)),
        ('NOTIFICATION with Length 20', bgp(3, b'\x06')),
        ('NOTIFICATION 6/2 (control)', bgp(3, b'\x06\x02')),
        ('NOTIFICATION with Length 5000', bgp(3, b'\x06\x02' + bytes(4979))),
        ('UPDATE with Length 19 (control: answered 1/2)', bgp(2)),
    ):
        msgs = asyncio.run(session(est + [last]))
        notifs = [(b[0], b[1]) for k, b in msgs if k == 3]
        answered = bool(notifs)
        wrong = answered if 'UPDATE' not in name else notifs != [(1, 2)]
        bad += wrong
        print('%-4s %-50s wrote types %s notifications %s' % ('BAD' if wrong else 'ok', name, [k for k, _ in msgs], notifs))
    sys.exit(1 if bad else 0)
