"""F34 (C03): a valid L2VPN VPLS MP_REACH_NLRI raises KeyError when any extended next hop (RFC 8950) was negotiated.

MPRNLRI.unpack_attribute indexed Family.size with (next hop AFI, SAFI of the NLRI); the table has no (ipv4, vpls) entry.
exit 0: decoded on both sessions; exit 1: a raw exception escapes the decoder (defect present).  Reproducer written by the
C03 round-2 seeding agent, kept as found."""
import struct
import sys
from unittest.mock import MagicMock

import exabgp

print(exabgp.__file__)
from exabgp.bgp.message import Message, Notify
from exabgp.bgp.message.direction import Direction
from exabgp.bgp.message.open.capability.negotiated import Negotiated
from exabgp.protocol.family import AFI, SAFI


def negotiated(extended_nexthop: bool) -> Negotiated:
    neighbor = MagicMock()
    neighbor.session.local_address = None
    neg = Negotiated.make_negotiated(neighbor, Direction.IN)
    neg.families = [(AFI.ipv4, SAFI.unicast), (AFI.l2vpn, SAFI.vpls)]
    neg.asn4 = True
    if extended_nexthop:
        # RFC 8950 extended next hop negotiated for ipv4 unicast over ipv6 only
        neg.nexthop = [(AFI.ipv4, SAFI.unicast, AFI.ipv6)]
    return neg


# a valid L2VPN/VPLS announcement (RFC 4761) with an IPv4 next hop
vpls = struct.pack('!H', 17) + b'\x00\x01' + bytes([192, 0, 2, 1]) + b'\x00\x01' + struct.pack('!HHH', 1, 0, 8) + b'\x00\x10\x01'
reach = struct.pack('!HB', 25, 65) + bytes([4, 192, 0, 2, 1]) + b'\x00' + vpls
attributes = (
    bytes([0x40, 1, 1, 0])
    + bytes([0x40, 2, 6, 2, 1]) + struct.pack('!L', 65001)
    + bytes([0x40, 5, 4, 0, 0, 0, 100])
    + bytes([0x80, 14, len(reach)]) + reach
)
body = b'\x00\x00' + struct.pack('!H', len(attributes)) + attributes

BAD = 0
for enh in (False, True):
    try:
        message = Message.unpack(Message.CODE.UPDATE, body, negotiated(enh))
        print(f'extended-nexthop negotiated={enh}: decoded', [str(r.nlri) for r in message.data.announces])
    except Notify as exc:
        print(f'extended-nexthop negotiated={enh}: Notify {exc.code}/{exc.subcode} {exc}')
    except Exception as exc:
        print(f'extended-nexthop negotiated={enh}: RAW {type(exc).__name__}: {exc}')
        BAD += 1
sys.exit(1 if BAD else 0)
