#!/usr/bin/env python3
"""F69 (C13): the async write queue of an API process survived its respawn.

The first child never reads its stdin, so the pipe fills and flush_write_queue() leaves the
unwritten tail of a record at the head of the queue.  The child then dies and is respawned
(Processes._handle_problem -> _terminate + _start, what the reader callbacks do when the pipe
closes).  _terminate drops _buffer and the group buffer but not _write_queue[process], so the
new child is sent the tail of a record whose head went to the dead one: a torn first record.

The respawned process must read whole records only, and the events emitted after its start must reach it.

    cd /repo && PYTHONPATH=/repo/src /venv/bin/python /verif/findings/F69_torn_record_after_respawn.py
exit 1 = a torn record was sent to the respawned process (or fresh events were lost), exit 0 = not.
"""
import asyncio
import json
import os
import sys
import tempfile
import time

os.environ['exabgp_log_enable'] = 'false'
from exabgp.reactor.api.processes import Processes

out = os.path.join(tempfile.mkdtemp(prefix='c13q_'), 'second.out')
marker = out + '.first'
# first incarnation: sleeps without reading; later incarnations: record what they are sent
script = f'if [ ! -e {marker} ]; then touch {marker}; exec sleep 30; else exec cat > {out}; fi'

processes = Processes()
processes.respawn_number = 5
processes._async_mode = True
processes.start({'api': {'run': ['/bin/sh', '-c', script], 'encoder': 'json', 'respawn': True}})
time.sleep(0.3)

record = json.dumps({'exabgp': '6.0.0', 'type': 'update', 'filler': 'x' * 9000})
for _ in range(20):  # ~180 kB, more than a pipe holds
    processes.write('api', record)


async def flush(times):
    for _ in range(times):
        await processes.flush_write_queue()


asyncio.run(flush(20))
head = processes._write_queue['api'][0]
print('queue head is a partial record:', not head.startswith(b'{'), 'items left:', len(processes._write_queue['api']))

first = processes._process['api']
first.kill()
first.wait()
processes._handle_problem('api')  # what the reactor does when it notices the child died
time.sleep(0.3)
for number in range(3):  # events emitted once the new process runs
    processes.write('api', json.dumps({'exabgp': '6.0.0', 'type': 'fresh', 'number': number}))
for _ in range(200):  # until everything queued has been handed to the new child
    asyncio.run(flush(5))
    if not processes._write_queue.get('api'):
        break
    time.sleep(0.02)
second = processes._process['api']
second.stdin.close()
second.wait(timeout=5)
processes._process.clear()

with open(out) as handle:
    lines = [line for line in handle.read().split('\n') if line]
bad = 0
for number, line in enumerate(lines):
    try:
        json.loads(line)
    except ValueError:
        bad += 1
        print(f'record {number} sent to the respawned process does not parse: {line[:40]!r}... ({len(line)} chars)')
fresh = [line for line in lines if '"fresh"' in line]
print(f'{len(lines)} records read by the respawned process, {bad} torn, {len(fresh)} of 3 fresh events delivered')
sys.exit(1 if bad or len(fresh) != 3 else 0)
