#!/usr/bin/env python3
"""F57 (C18): `attribute [ 0x100 0x40 0x00 ]` / `attribute [ 0x20 0x140 0x00 ]` were accepted and could not be encoded.

    cd /repo && PYTHONPATH=/repo/src /venv/bin/python /verif/findings/F57_generic_attribute_code_above_255.py
exit 1 when a generic attribute whose code or flag does not fit one octet is accepted."""
import sys
from unittest.mock import Mock

from exabgp.reactor.api import API

api = API(Mock())
bad = 0
for text, valid in (
    ('announce route 10.0.0.0/24 next-hop 1.2.3.4 attribute [ 0x100 0x40 0x00 ]', False),
    ('announce route 10.0.0.0/24 next-hop 1.2.3.4 attribute [ 0x20 0x140 0x00 ]', False),
    ('announce route 10.0.0.0/24 next-hop 1.2.3.4 attribute [ 0xff 0xc0 0x00 ]', True),
):
    routes = api.api_route(text)
    ok = bool(routes) == valid
    print('%-80s %s %s' % (text, 'accepted' if routes else 'refused', 'ok' if ok else 'WRONG'))
    bad += not ok
sys.exit(1 if bad else 0)
