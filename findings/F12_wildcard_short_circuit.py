"""F12 (C14): match_neighbor returned True as soon as it met the wildcard term, so the remaining terms of the selector
were never tested: `neighbor * peer-as 3` matched every peer.
Run: /venv/bin/python findings/F12_wildcard_short_circuit.py   (exit 1 = defect present)"""
import sys
sys.path.insert(0, '/repo/src')
from exabgp.reactor.api.command.limit import match_neighbors, extract_neighbors
peers = ['neighbor 10.0.0.1 local-ip 10.0.0.2 local-as 1 peer-as 2 router-id 1.1.1.1 family-allowed in-open',
         'neighbor 10.0.0.3 local-ip 10.0.0.2 local-as 1 peer-as 3 router-id 1.1.1.1 family-allowed in-open']
desc, rest = extract_neighbors('neighbor * peer-as 3 announce route 192.0.2.0/24 next-hop self')
got = list(match_neighbors(peers, desc))
print('selector', desc, '->', [p.split()[1] for p in got])
allp = list(match_neighbors(peers, extract_neighbors('neighbor * announce route 192.0.2.0/24 next-hop self')[0]))
sys.exit(0 if [p.split()[1] for p in got] == ['10.0.0.3'] and len(allp) == 2 else 1)
