#!/usr/bin/env python3
"""F49 / F50 (C17): a reload that FAILS still queues the routes parsed so far on the running session (F50, known), and left the
parser state behind so that every later reload failed with "duplicate peer definition" (F49, fixed).

    cd /repo && PYTHONPATH=/repo/src /venv/bin/python /verif/findings/F49_F50_failed_reload_side_effects.py [routes|again]
exit 1 when the selected defect shows (default: both).
"""
import sys
from unittest.mock import Mock

from exabgp.bgp.fsm import FSM
from exabgp.configuration.configuration import Configuration
from exabgp.reactor.loop import Reactor

CONF = """
neighbor 127.0.0.1 {
    router-id 1.2.3.4;
    local-address 127.0.0.1;
    local-as 65000;
    peer-as 65001;
    static {
%s
    }
}
%s
"""


def conf(routes, extra=''):
    return CONF % ('\n'.join('        route %s;' % r for r in routes), extra)


def drain(out):
    res = []
    for u in out.updates(False):
        res.append(([f'{a.nlri} nh {a.nexthop}' for a in u.announces], [str(w) for w in u.withdraws], str(u.attributes)))
    return res


c = Configuration([conf(['10.0.0.0/24 next-hop 1.1.1.1', '10.0.1.0/24 next-hop 1.1.1.1'])], text=True)
r = Reactor(c)
r.listener = Mock()
assert r.reload()
peer = list(r._peers.values())[0]
out = peer.neighbor.rib.outgoing
print('initial announcements      :', drain(out))
peer.fsm.change(FSM.ESTABLISHED)  # the session is up, everything was sent

# the first neighbor is fine (with other routes), the second one has a syntax error
c._configurations[:] = [
    conf(['10.0.0.0/24 next-hop 2.2.2.2', '10.0.2.0/24 next-hop 1.1.1.1 med 5'], 'neighbor 127.0.0.2 { bogus; }')
]
ok = r.reload()
print('reload of a broken file    :', ok)
queued = drain(out)
print('queued for the live session:', queued)
print('adj-rib-out                :', [str(x) for x in out.cached_routes()])
print('configured routes          :', [str(x) for x in peer.neighbor.routes])

c._configurations[:] = [conf(['10.0.0.0/24 next-hop 1.1.1.1', '10.0.1.0/24 next-hop 1.1.1.1'])]
again = r.reload()
print('reload of the good file    :', again, str(c.error).strip().splitlines()[-1:] if not again else '')

which = sys.argv[1] if len(sys.argv) > 1 else 'both'
bad = (bool(queued) if which in ('routes', 'both') else False) or ((not again) if which in ('again', 'both') else False)
sys.exit(1 if bad else 0)
