#!/usr/bin/env python3
"""F45 (C01): `as-path [ ]` (explicitly empty) and no as-path at all share one AttributeCollection.index().

The outgoing RIB keeps one attribute collection per index and packs every route filed under it with that collection, so on
an eBGP session one of the two routes below always goes out with the other one's AS_PATH:

    route 10.0.0.0/24 next-hop 192.0.2.9 as-path [ ];      wants  40 02 00
    route 10.0.1.0/24 next-hop 192.0.2.9;                  wants  40 02 06 02 01 00 00 fd e9   (the eBGP default, [65001])

    cd /repo && PYTHONPATH=/repo/src /venv/bin/python /verif/findings/F45_empty_aspath_shares_index_with_no_aspath.py
exit 1 when a route is sent with the wrong AS_PATH (each order runs in its own process)."""
import os
import subprocess
import sys
import tempfile

CHILD = r'''
import os, sys, tempfile
from exabgp.environment import getenv
from exabgp.logger import log
env = getenv(); log.silence(); log.init(env)
from exabgp.configuration.configuration import Configuration
from exabgp.configuration.check import _negotiated
T = """
neighbor 192.0.2.2 {
    router-id 192.0.2.1;
    local-address 192.0.2.1;
    local-as 65001;
    peer-as 65002;
    family { ipv4 unicast; }
    static {
%s
    }
}
"""
A = "route 10.0.0.0/24 next-hop 192.0.2.9 as-path [ ];"
B = "route 10.0.1.0/24 next-hop 192.0.2.9;"
routes = (A + "\n" + B) if sys.argv[1] == 'AB' else (B + "\n" + A)
fd, path = tempfile.mkstemp(suffix='.conf'); os.write(fd, (T % routes).encode()); os.close(fd)
c = Configuration([path]); assert c.reload(), c.error
for n in c.neighbors.values():
    _, nout = _negotiated(n)
    for upd in n.rib.outgoing.updates(False):
        for m in upd.messages(nout):
            print(m[19:].hex())
os.unlink(path)
'''

bad = 0
for order in ('AB', 'BA'):
    r = subprocess.run([sys.executable, '-c', CHILD, order], capture_output=True, text=True, env=dict(os.environ))
    if r.returncode:
        print(order, 'child failed', r.stderr[-300:])
        bad += 1
        continue
    for line in r.stdout.split():
        empty_path = '400200' in line
        default_path = '40020602010000fde9' in line
        prefixes = [p for p, tail in (('10.0.0.0/24', '180a0000'), ('10.0.1.0/24', '180a0001')) if tail in line]
        for p in prefixes:
            want_empty = p == '10.0.0.0/24'
            ok = empty_path if want_empty else default_path
            print(order, p, 'AS_PATH', 'empty' if empty_path else ('[65001]' if default_path else '?'), 'ok' if ok else 'WRONG')
            bad += not ok
sys.exit(1 if bad else 0)
