#!/usr/bin/env python3
"""F44 (C15): SRv6 LAN End.X SID TLV, OSPFv3 flavour (BGP-LS TLV 1108): the decoder read the SID at offset 6, on top
of the 4 octet neighbor Router-ID at 6..10 (RFC 9514 4.2: the SID follows the Router-ID, offset 10).

Decoding what ExaBGP encoded did not give the same object: sid fc00::3 came back as c000:201:fc00::, and the last 4
octets of the SID were taken for a sub-TLV header.

    cd /repo && PYTHONPATH=/repo/src /venv/bin/python /verif/findings/F44_srv6_lan_endx_ospf_sid_offset.py
exit 1 when the round trip changes the SID."""
import json
import sys

from exabgp.bgp.message.update.attribute.bgpls.link.srv6lanendx import Srv6LanEndXOSPF

attr = Srv6LanEndXOSPF.make_srv6_lan_endx_ospf(
    behavior=48, flags={'B': 0, 'S': 0, 'P': 0}, algorithm=0, weight=10, neighbor_id='192.0.2.1', sid='fc00::3'
)
back = Srv6LanEndXOSPF.unpack_bgpls(attr.pack_tlv()[4:] if hasattr(attr, 'pack_tlv') else attr._packed)
text = '{' + back.json() + '}'
got = json.loads(text)['srv6-lan-endx-ospf']
got = got[0] if isinstance(got, list) else got
print('encoded sid fc00::3 neighbor 192.0.2.1 -> decoded', got.get('sid'), got.get('neighbor-id'), {k: v for k, v in got.items() if k.startswith('unknown')})
sys.exit(0 if got.get('sid') == 'fc00::3' and got.get('neighbor-id') == '192.0.2.1' and not any(k.startswith('unknown') for k in got) else 1)
