"""F19 (C02): AttributeCollection.merge_attributes sliced with [:-len4]; when AS4_PATH has no segment of a kind
(len4 == 0) the slice is empty and the ASNs of AS_PATH are dropped: AS_PATH (1 2) {9} + AS4_PATH (1 2) merged to
( 1 2 ), the AS_SET {9} is gone.
Run: /venv/bin/python findings/F19_as4_merge_drops_asns.py   (exit 1 = defect present)"""
import sys
sys.path.insert(0, '/repo/src')
from exabgp.bgp.message.open.asn import ASN
from exabgp.bgp.message.update.attribute import Attribute
from exabgp.bgp.message.update.attribute.aspath import ASPath, AS4Path, SEQUENCE, SET
from exabgp.bgp.message.update.attribute.collection import AttributeCollection
a = AttributeCollection()
a.add(ASPath.make_aspath([SEQUENCE([ASN(1), ASN(2)]), SET([ASN(9)])], asn4=False))
a.add(AS4Path.make_aspath([SEQUENCE([ASN(1), ASN(2)])]))
a.merge_attributes()
merged = str(a[Attribute.CODE.AS_PATH])
print('merged AS_PATH:', merged)
sys.exit(0 if '9' in merged and '1 2' in merged else 1)
