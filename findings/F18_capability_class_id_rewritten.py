"""F18 (C19): Capability.klass(code) assigns kls.ID = code on the registered CLASS; RouteRefresh and MultiSession are
registered under two codes each and read self.ID in json()/__str__: after any peer OPEN carrying the Cisco code 0x80,
every RouteRefresh object in the process (other sessions included) renders as variant "Cisco".
Run: /venv/bin/python findings/F18_capability_class_id_rewritten.py   (exit 1 = defect present)"""
import sys
sys.path.insert(0, '/repo/src')
from exabgp.bgp.message.open.capability.capability import Capability
from exabgp.bgp.message.open.capability.refresh import RouteRefresh
import exabgp.bgp.message.open.capability  # noqa
earlier = RouteRefresh()                       # decoded earlier, on another session, under the RFC code
before = earlier.json()
Capability.klass(Capability.CODE.ROUTE_REFRESH_CISCO)   # what decoding a peer OPEN with capability 0x80 does
after = earlier.json()
print('before:', before); print('after :', after)
sys.exit(0 if before == after else 1)
