#!/usr/bin/env python3
"""F62 (C03 / C07): with `capability { multi-session; }` configured, an OPEN carrying the multisession capability
but no multiprotocol capability raised KeyError out of Negotiated.received() (called from Peer._establish, outside
any decoder try): the session was dropped through the unhandled-exception arm, without a NOTIFICATION.  Both OPENs
announcing only the Cisco multisession code (0x83) raised KeyError too.

    cd /repo && PYTHONPATH=/repo/src /venv/bin/python /verif/findings/F62_multisession_open_without_multiprotocol.py
exit 1 when the negotiation raises instead of deciding."""
import sys
from unittest.mock import Mock

from exabgp.bgp.message.direction import Direction
from exabgp.bgp.message.open import HoldTime, Open, RouterID, Version
from exabgp.bgp.message.open.asn import ASN
from exabgp.bgp.message.open.capability import Capabilities, Capability
from exabgp.bgp.message.open.capability.mp import MultiProtocol
from exabgp.bgp.message.open.capability.ms import MultiSession
from exabgp.bgp.message.open.capability.negotiated import Negotiated
from exabgp.protocol.family import AFI, SAFI


def make_open(caps):
    c = Capabilities()
    for code, value in caps.items():
        c[code] = value
    return Open.make_open(Version(4), ASN(65000), HoldTime(180), RouterID('1.1.1.1'), c)


def mp():
    m = MultiProtocol()
    m.append((AFI.ipv4, SAFI.unicast))
    return m


bad = 0
cases = {
    'peer sends multisession without multiprotocol': (
        {Capability.CODE.MULTIPROTOCOL: mp(), Capability.CODE.MULTISESSION: MultiSession().set([Capability.CODE.MULTIPROTOCOL])},
        {Capability.CODE.MULTISESSION: MultiSession().set([Capability.CODE.MULTIPROTOCOL])},
    ),
    'both sides announce the Cisco multisession code only': (
        {Capability.CODE.MULTIPROTOCOL: mp(), Capability.CODE.MULTISESSION_CISCO: MultiSession().set([Capability.CODE.MULTIPROTOCOL])},
        {Capability.CODE.MULTIPROTOCOL: mp(), Capability.CODE.MULTISESSION_CISCO: MultiSession().set([Capability.CODE.MULTIPROTOCOL])},
    ),
}
for label, (ours, theirs) in cases.items():
    neighbor = Mock()
    neighbor.capability.aigp.is_enabled.return_value = False
    negotiated = Negotiated(neighbor, Direction.IN)
    try:
        negotiated.sent(make_open(ours))
        negotiated.received(make_open(theirs))
        print('%-55s negotiated, multisession = %r' % (label, negotiated.multisession))
    except Exception as exc:  # noqa: BLE001
        print('%-55s RAISED %s: %s' % (label, type(exc).__name__, exc))
        bad += 1
sys.exit(1 if bad else 0)
