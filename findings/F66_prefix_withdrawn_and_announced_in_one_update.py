#!/usr/bin/env python3
"""F66 (C02): an UPDATE that lists the same prefix in WITHDRAWN ROUTES and in NLRI must be processed "as though the
WITHDRAWN ROUTES do not contain the address prefix" (RFC 4271 4.3): the route is in the Adj-RIB-In afterwards.
UpdateHandler.handle / handle_async stored the announces first and applied the withdraws second, so the route the peer
had just announced was missing from the Adj-RIB-In (the JSON report shows it under both announce and withdraw).
Real Neighbor, Negotiated from two real OPENs, Message.unpack and both handlers.

    cd /repo && PYTHONPATH=/repo/src /venv/bin/python /verif/findings/F66_prefix_withdrawn_and_announced_in_one_update.py
exit 1 when the announced route is not stored."""
import asyncio
import struct
import sys

from exabgp.bgp.message import Message
from exabgp.bgp.message.direction import Direction
from exabgp.bgp.message.open import ASN, HoldTime, Open, RouterID, Version
from exabgp.bgp.message.open.capability import Capabilities
from exabgp.bgp.message.open.capability.negotiated import Negotiated
from exabgp.bgp.neighbor import Neighbor
from exabgp.protocol.family import AFI, SAFI
from exabgp.protocol.ip import IPv4
from exabgp.reactor.peer.context import PeerContext
from exabgp.reactor.peer.handlers.update import UpdateHandler
from exabgp.util.enumeration import TriState


def session():
    neighbor = Neighbor()
    neighbor.session.router_id = RouterID('10.0.0.2')
    neighbor.session.local_address = IPv4.from_string('10.0.0.2')
    neighbor.session.peer_address = IPv4.from_string('10.0.7.1')
    neighbor.session.peer_as = ASN(65001)
    neighbor.session.local_as = ASN(65002)
    neighbor.hold_time = HoldTime(180)
    neighbor.capability.asn4 = TriState.TRUE
    neighbor.add_family((AFI.ipv4, SAFI.unicast))
    neighbor.make_rib()
    neighbor.rib.incoming.clear()
    capa = Capabilities().new(neighbor, False)
    ours = Open.make_open(Version(4), ASN(65002), HoldTime(180), RouterID('10.0.0.2'), capa)
    theirs = Open.make_open(Version(4), ASN(65001), HoldTime(180), RouterID('10.0.0.1'), capa)
    neg = Negotiated.make_negotiated(neighbor, Direction.IN)
    neg.sent(ours)
    neg.received(theirs)
    ctx = PeerContext(proto=None, neighbor=neighbor, negotiated=neg, refresh_enhanced=False, routes_per_iteration=25, peer_id='x', stats={'receive-prefixes': 0, 'receive-withdraws': 0})
    return neighbor, neg, ctx


def att(f, c, v):
    return bytes([f, c, len(v)]) + v


attrs = att(0x40, 1, b'\x00') + att(0x40, 2, b'\x02\x01' + struct.pack('!L', 65001)) + att(0x40, 3, bytes([192, 0, 2, 1]))
pfx = b'\x18\x0a\x01\x00'  # 10.1.0.0/24
other = b'\x18\x0a\x02\x00'  # 10.2.0.0/24
body = struct.pack('!H', len(pfx + other)) + pfx + other + struct.pack('!H', len(attrs)) + attrs + pfx
bad = 0
for name in ('handle_async', 'handle'):
    neighbor, neg, ctx = session()
    m = Message.unpack(Message.CODE.UPDATE, body, neg)
    if name == 'handle_async':
        asyncio.run(UpdateHandler().handle_async(ctx, m))
    else:
        list(UpdateHandler().handle(ctx, m))
    held = sorted(str(r.nlri) for r in neighbor.rib.incoming.cached_routes())
    ok = held == ['10.1.0.0/24']
    bad += not ok
    print('%-4s %-13s UPDATE withdraws 10.1.0.0/24 10.2.0.0/24 and announces 10.1.0.0/24 -> Adj-RIB-In %s' % ('ok' if ok else 'BAD', name, held))
sys.exit(1 if bad else 0)
