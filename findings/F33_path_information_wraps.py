#!/usr/bin/env python3
"""F33 (C18): `path-information 4294967296` is accepted and sent as 0.0.0.0.

path_information() hands int(token) to PathInfo.make_from_integer, which keeps the low 32 bits.

exit 0: refused; exit 1: accepted as another identifier (defect present)."""
import sys

from exabgp.configuration.static.parser import path_information

bad = 0
for text in ('4294967296', '4294967301'):
    try:
        p = path_information(lambda text=text: text)
        print('%s accepted as %s' % (text, p))
        bad += 1
    except ValueError as e:
        print('%s refused (%s)' % (text, str(e)[:50]))
print('FAIL' if bad else 'PASS')
sys.exit(1 if bad else 0)
