#!/usr/bin/env python3
"""F70-F72 (C18): route / flow text that was accepted although the value can not be sent, or was silently left out.

F70  a FlowSpec value beyond the octets of its component (`protocol 256`, `icmp-type 256`, `traffic-class 300`,
     `tcp-flags 0xFFFF+0xFFFF`) was accepted and raised in the encoder (ValueError / struct.error) when the UPDATE was built
F71  a flow `source 10.0.0/24` (no known form), an empty list `protocol [ ]` and `bgp-prefix-sid [ 4294967296 ]` were
     accepted and the component / label index silently left out: the rule sent is broader than the one written
F72  `extended-community 0x...` of 9 octets was cut to 8, of 2 octets sent as a 2 octet attribute

Text goes through the real API parser (API.api_flow / api_route), the accepted route through UpdateCollection.messages().

    cd /repo && PYTHONPATH=/repo/src /venv/bin/python /verif/findings/F70_F72_route_text_values_dropped_or_unsendable.py
exit 1 when a definition is accepted and can not be sent as written."""
import sys
from unittest.mock import Mock

from exabgp.bgp.message.direction import Direction
from exabgp.bgp.message.open.asn import ASN
from exabgp.bgp.message.open.capability.negotiated import Negotiated
from exabgp.bgp.message.update.collection import RoutedNLRI, UpdateCollection
from exabgp.configuration.setup import create_minimal_configuration
from exabgp.protocol.family import AFI, SAFI
from exabgp.reactor.api import API

cfg = create_minimal_configuration(peer_address='127.0.0.9', families='ipv4 unicast ipv6 unicast')
neighbor = list(cfg.neighbors.values())[0]
neg = Negotiated.make_negotiated(neighbor, Direction.OUT)
neg.asn4, neg.local_as, neg.peer_as = True, ASN(65000), ASN(65001)
neg.families = [(a, s) for a in (AFI.ipv4, AFI.ipv6) for s in (SAFI.unicast, SAFI.flow_ip)]


def flow(text):
    return API(Mock()).api_flow('flow ' + text, 'announce')


def route(text):
    return API(Mock()).api_route('route ' + text, 'announce')


def wire(r):
    return [bytes(m).hex() for m in UpdateCollection([RoutedNLRI(r.nlri, r.nexthop)], [], r.attributes).messages(neg)]


CASES = [
    # (finding, parser, text, what must be in the text of the accepted route - None: must be refused)
    ('F70', flow, 'route { match { destination 10.0.0.0/24; protocol 256; } then { discard; } }', None),
    ('F70', flow, 'route { match { destination 10.0.0.0/24; icmp-type 256; } then { discard; } }', None),
    ('F70', flow, 'route { match { destination 2001:db8::/32; traffic-class 300; } then { discard; } }', None),
    ('F70', flow, 'route { match { destination 10.0.0.0/24; tcp-flags 0xFFFF+0xFFFF; } then { discard; } }', None),
    ('F70', flow, 'route { match { destination 10.0.0.0/24; protocol 255; icmp-type 255; } then { discard; } }', 'protocol =255'),
    ('F70', flow, 'route { match { destination 10.0.0.0/24; destination-port =65535; } then { discard; } }', 'destination-port =65535'),
    ('F71', flow, 'route { match { source 10.0.0/24; destination-port =80; } then { discard; } }', None),
    ('F71', flow, 'route { match { destination 10.0.0.0/24; protocol [ ]; } then { discard; } }', None),
    ('F71', route, '10.0.0.0/24 next-hop 1.2.3.4 bgp-prefix-sid [ 4294967296 ]', None),
    ('F71', route, '10.0.0.0/24 next-hop 1.2.3.4 bgp-prefix-sid [ 4294967295 ]', '4294967295'),
    ('F72', route, '10.0.0.0/24 next-hop 1.2.3.4 extended-community 0x0002fde80000000100', None),
    ('F72', route, '10.0.0.0/24 next-hop 1.2.3.4 extended-community 0x0002', None),
    ('F72', route, '10.0.0.0/24 next-hop 1.2.3.4 extended-community 0x0002fde800000001', 'target:65000:1'),
]
bad = 0
for finding, parser, text, want in CASES:
    try:
        routes = parser(text)
    except Exception as exc:  # an unhandled exception is not a refusal
        routes, verdict = None, 'EXCEPTION %r' % exc
    if routes is not None:
        if not routes:
            verdict = 'refused'
        else:
            r = routes[0]
            try:
                sent = wire(r)
                verdict = 'accepted, sent as: %s%s' % (r.nlri, r.attributes)
            except Exception as exc:
                verdict = 'accepted, but encoding / printing it raises %r' % exc
    ok = (verdict == 'refused') if want is None else (verdict.startswith('accepted, sent') and want in verdict)
    bad += not ok
    print('%-4s %s %-95s %s' % ('ok' if ok else 'BAD', finding, text[:95], verdict[:110]))
sys.exit(1 if bad else 0)
