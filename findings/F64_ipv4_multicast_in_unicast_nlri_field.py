#!/usr/bin/env python3
"""F64 (C01): an IPv4 *multicast* route (SAFI 2) was written into the NLRI / withdrawn-routes fields of the UPDATE, which
RFC 4271 / RFC 4760 define as IPv4 unicast: the peer installs (or withdraws) a unicast route nobody asked for, and never
sees the multicast one.  Routes come from configuration text through the real parser, the real outgoing RIB and
UpdateCollection.messages() on a session negotiated from two real OPENs; the bytes are read by a small independent decoder.

    cd /repo && PYTHONPATH=/repo/src /venv/bin/python /verif/findings/F64_ipv4_multicast_in_unicast_nlri_field.py
exit 1 when an UPDATE does not decode to the requested family."""
import ipaddress
import struct
import sys

from exabgp.environment import getenv
from exabgp.logger import log

log.init(getenv())
log.silence()

from exabgp.bgp.message.open.capability.negotiated import Negotiated  # noqa: E402
from exabgp.configuration.check import _negotiated  # noqa: E402
from exabgp.configuration.setup import add_route_to_config, create_configuration_with_routes  # noqa: E402
from exabgp.protocol.family import AFI, SAFI  # noqa: E402

# ---------------------------------------------------------------- independent decoder


def _prefixes(data: bytes, afi: int) -> list[str]:
    size = 4 if afi == 1 else 16
    out = []
    while data:
        mask = data[0]
        nbytes = (mask + 7) // 8
        raw = data[1 : 1 + nbytes]
        if len(raw) != nbytes:
            raise ValueError('truncated prefix')
        data = data[1 + nbytes :]
        addr = raw + bytes(size - nbytes)
        ip = ipaddress.IPv4Address(addr) if afi == 1 else ipaddress.IPv6Address(addr)
        out.append('%s/%d' % (ip, mask))
    return out


def _ip(raw: bytes) -> str:
    if len(raw) == 4:
        return str(ipaddress.IPv4Address(raw))
    if len(raw) == 16:
        return str(ipaddress.IPv6Address(raw))
    raise ValueError('next hop of %d bytes' % len(raw))


def decode_update(msg: bytes, asn4: bool) -> dict:
    """Decode one UPDATE (with its 19 byte header) into plain python values."""
    assert msg[:16] == b'\xff' * 16, 'marker'
    length, kind = struct.unpack('!HB', msg[16:19])
    assert length == len(msg), 'length'
    assert kind == 2, 'not an UPDATE'
    body = msg[19:]
    wlen = struct.unpack('!H', body[:2])[0]
    withdrawn = body[2 : 2 + wlen]
    alen = struct.unpack('!H', body[2 + wlen : 4 + wlen])[0]
    attrs = body[4 + wlen : 4 + wlen + alen]
    nlri = body[4 + wlen + alen :]

    result: dict = {
        'withdrawn': _prefixes(withdrawn, 1),
        'attributes': {},
        'reach': [],  # (afi, safi, prefix, nexthop)
    }

    nexthop_attr = None
    seen: set = set()
    while attrs:
        flag, code = attrs[0], attrs[1]
        if flag & 0x10:
            size = struct.unpack('!H', attrs[2:4])[0]
            value, attrs = attrs[4 : 4 + size], attrs[4 + size :]
        else:
            size = attrs[2]
            value, attrs = attrs[3 : 3 + size], attrs[3 + size :]
        assert len(value) == size, 'truncated attribute'
        assert code not in seen, 'duplicate attribute %d' % code
        seen.add(code)

        if code == 1:
            result['attributes']['origin'] = {0: 'igp', 1: 'egp', 2: 'incomplete'}[value[0]]
        elif code == 2:
            width = 4 if asn4 else 2
            path = []
            while value:
                stype, count = value[0], value[1]
                asns = struct.unpack('!%d%s' % (count, 'L' if asn4 else 'H'), value[2 : 2 + count * width])
                path.append((stype, list(asns)))
                value = value[2 + count * width :]
            result['attributes']['as-path'] = path
        elif code == 3:
            nexthop_attr = _ip(value)
            result['attributes']['next-hop'] = nexthop_attr
        elif code == 5:
            result['attributes']['local-preference'] = struct.unpack('!L', value)[0]
        elif code == 14:
            afi, safi, nhlen = struct.unpack('!HBB', value[:4])
            nh = value[4 : 4 + nhlen]
            assert value[4 + nhlen] == 0, 'reserved byte'
            assert safi in (1, 2), 'this decoder only knows unicast and multicast'
            for prefix in _prefixes(value[5 + nhlen :], afi):
                result['reach'].append((afi, safi, prefix, _ip(nh)))
            result['attributes']['mp-reach'] = True
        else:
            result['attributes'][code] = value

    # RFC 4271: the NLRI field is IPv4 unicast and its next hop is the NEXT_HOP attribute
    for prefix in _prefixes(nlri, 1):
        result['reach'].append((1, 1, prefix, nexthop_attr))

    return result


# ---------------------------------------------------------------- driving the real code


def emit(route_text: str, families: str, local_as: int, peer_as: int, grouped: bool) -> tuple[Negotiated, list[bytes]]:
    # every case is a fresh daemon: the RIB of a neighbor is kept by name across reloads, and
    # a route an earlier case already sent would (rightly) not be sent a second time
    from exabgp.rib import RIB

    RIB._cache.clear()

    # one route per line of text: the first builds the configuration, the others are added to it
    first, *others = [line.strip() for line in route_text.split('\n') if line.strip()]
    configuration = create_configuration_with_routes(
        route_text=first,
        local_as=local_as,
        peer_as=peer_as,
        families=families,
    )
    for other in others:
        assert add_route_to_config(configuration, other), 'could not add %s' % other
    assert len(configuration.neighbors) == 1
    neighbor = next(iter(configuration.neighbors.values()))
    _, negotiated = _negotiated(neighbor)
    messages: list[bytes] = []
    for update in neighbor.rib.outgoing.updates(grouped):
        messages.extend(update.messages(negotiated))
    return negotiated, messages


FAILURES: list[str] = []


def check(
    name: str,
    route_text: str,
    families: str,
    local_as: int,
    peer_as: int,
    expected_reach: set,
    grouped: bool = False,
    need_extended_nexthop: bool = False,
) -> None:
    negotiated, messages = emit(route_text, families, local_as, peer_as, grouped)
    if need_extended_nexthop:
        # this has to be a session where RFC 8950 was really negotiated
        assert (AFI.ipv4, SAFI.unicast, AFI.ipv6) in negotiated.nexthop, 'extended next hop was not negotiated'

    ibgp = local_as == peer_as
    reach: set = set()
    problems: list[str] = []
    for message in messages:
        try:
            decoded = decode_update(message, negotiated.asn4)
        except Exception as exc:  # the decoder could not make sense of the bytes
            problems.append('undecodable UPDATE %s: %r' % (message.hex(), exc))
            continue
        for entry in decoded['reach']:
            if entry in reach:
                problems.append('announced twice: %s' % (entry,))
            reach.add(entry)
        attributes = decoded['attributes']
        if attributes.get('origin') != 'igp':
            problems.append('ORIGIN is %r, expected the IGP default' % attributes.get('origin'))
        want_path = [] if ibgp else [(2, [local_as])]
        if attributes.get('as-path') != want_path:
            problems.append('AS_PATH is %r, expected %r' % (attributes.get('as-path'), want_path))
        want_lp = 100 if ibgp else None
        if attributes.get('local-preference') != want_lp:
            problems.append('LOCAL_PREF is %r, expected %r' % (attributes.get('local-preference'), want_lp))
        if decoded['withdrawn']:
            problems.append('unexpected withdraw %r' % decoded['withdrawn'])

    if reach != expected_reach:
        problems.append('the UPDATEs announce %r, the operator asked for %r' % (sorted(reach), sorted(expected_reach)))

    if problems:
        FAILURES.append(name)
        print('FAIL %s' % name)
        for problem in problems:
            print('     %s' % problem)
        for message in messages:
            print('     wire: %s' % message[19:].hex())
    else:
        print('ok   %s' % name)



def main() -> int:
    check(
        'ipv4 unicast control',
        'route 10.0.0.0/24 next-hop 192.168.1.1',
        'ipv4 unicast ipv4 multicast',
        65533,
        65533,
        {(1, 1, '10.0.0.0/24', '192.168.1.1')},
    )
    check(
        'ipv4 multicast (a group range prefix is given SAFI 2 by the parser), iBGP',
        'route 224.1.1.0/24 next-hop 192.168.1.1',
        'ipv4 unicast ipv4 multicast',
        65533,
        65533,
        {(1, 2, '224.1.1.0/24', '192.168.1.1')},
    )
    check(
        'ipv4 multicast, eBGP',
        'route 232.0.0.0/8 next-hop 192.168.1.1',
        'ipv4 unicast ipv4 multicast',
        65533,
        65010,
        {(1, 2, '232.0.0.0/8', '192.168.1.1')},
    )
    return 1 if FAILURES else 0


if __name__ == '__main__':
    sys.exit(main())
