#!/usr/bin/env python3
"""F75, F76 (C18): `announce attributes <attributes> nlri <prefix> <prefix> ...` took the address family of EVERY prefix from the LAST
token of the command: `... nlri 10.0.0.0/24 2001:db8::/32` built an `ipv6 unicast` NLRI that carries the three octets of
10.0.0/24 - the value written is not the value carried (the two sibling parsers, `route` and `announce ipv4 unicast`, set the
family from the prefix they have just read).

    cd /repo && PYTHONPATH=/repo/src /venv/bin/python /verif/findings/F75_attributes_nlri_family_of_last_prefix.py
F76: `announce ipv4 unicast 2001:db8::/32 next-hop 1.2.3.4` was accepted and announced 32.1.13.184/32 (the first octets of the
IPv6 prefix as an IPv4 route).
exit 1 when a prefix gets the family of another one."""
import sys
from unittest.mock import Mock

from exabgp.protocol.family import AFI
from exabgp.reactor.api import API

bad = 0
for text, want in (
    ('attributes next-hop 1.2.3.4 med 5 nlri 10.0.0.0/24 10.0.1.0/24', [AFI.ipv4, AFI.ipv4]),
    ('attributes next-hop 1.2.3.4 med 5 nlri 10.0.0.0/24 2001:db8::/32', [AFI.ipv4, AFI.ipv6]),
    ('attributes next-hop 1.2.3.4 med 5 nlri 2001:db8::/32 10.0.0.0/24', [AFI.ipv6, AFI.ipv4]),
):
    routes = API(Mock()).api_attributes(text, [], 'announce')
    got = [r.nlri.afi for r in routes]
    ok = got == want
    bad += not ok
    print('%-4s %-70s -> %s' % ('ok' if ok else 'BAD', text, ['%s (%s, %d octets)' % (r.nlri.cidr.prefix() if hasattr(r.nlri, 'cidr') else r.nlri, r.nlri.afi, len(r.nlri.cidr.pack_nlri()) - 1) for r in routes]))
# F76: the family named by the command and the family of the prefix
for text in ('announce ipv4 unicast 2001:db8::/32 next-hop 1.2.3.4',):
    routes = API(Mock()).api_announce_v4(text)
    ok = all(r.nlri.afi == AFI.ipv6 for r in routes)  # refused (no route), or carried as the IPv6 prefix it is
    bad += not ok
    print('%-4s %-70s -> %s' % ('ok' if ok else 'BAD', text, [(str(r.nlri), str(r.nlri.afi)) for r in routes] or 'refused'))
sys.exit(1 if bad else 0)
