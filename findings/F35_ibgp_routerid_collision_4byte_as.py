#!/usr/bin/env python3
"""F35 (C07): on an iBGP session between 4-byte ASes an OPEN carrying OUR router-id is accepted.

Negotiated.validate() decides "internal peer" with received_open.asn, the 2-octet My-AS field, which is AS_TRANS (23456)
for an AS above 65535: it never equals the local AS, so the BGP Identifier collision test (RFC 6286, NOTIFICATION 2/3) is
skipped.  With 2-byte ASes the same OPEN is refused.

exit 0: refused with (2, 3) in both cases; exit 1: accepted for the 4-byte AS (defect present)."""
import sys

from exabgp.bgp.message import Open
from exabgp.bgp.message.direction import Direction
from exabgp.bgp.message.open import ASN, HoldTime, RouterID, Version
from exabgp.bgp.message.open.capability import Capabilities, Negotiated
from exabgp.bgp.neighbor import Neighbor
from exabgp.protocol.family import AFI, SAFI
from exabgp.protocol.ip import IPv4
from exabgp.util.enumeration import TriState


def attempt(asn: int):
    n = Neighbor()
    n.session.router_id = RouterID('10.0.0.1')
    n.session.local_address = IPv4.from_string('127.0.0.1')
    n.session.peer_address = IPv4.from_string('127.0.0.2')
    n.session.peer_as = ASN(asn)
    n.session.local_as = ASN(asn)
    n.hold_time = HoldTime(180)
    n.add_family((AFI.ipv4, SAFI.unicast))
    n.capability.asn4 = TriState.TRUE
    capa = Capabilities().new(n, False)
    sent = Open.make_open(Version(4), ASN(asn), HoldTime(180), RouterID('10.0.0.1'), capa)
    # the peer is in the same AS and claims the same BGP identifier
    received = Open.make_open(Version(4), ASN(asn), HoldTime(180), RouterID('10.0.0.1'), capa)
    neg = Negotiated.make_negotiated(n, Direction.IN)
    neg.sent(sent)
    neg.received(received)
    return neg.validate(n)


bad = 0
for asn in (65000, 200000):
    r = attempt(asn)
    print('AS %-7d same router-id on both sides ->' % asn, r[:2] if r else 'ACCEPTED')
    bad += r is None or tuple(r[:2]) != (2, 3)
print('FAIL' if bad else 'PASS')
sys.exit(1 if bad else 0)
