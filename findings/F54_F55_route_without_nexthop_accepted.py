#!/usr/bin/env python3
"""F54 / F55 (C18): labelled, VPN and VPLS routes without a next hop were accepted and could not be encoded.

validate_announce_nlri asked for a next hop for unicast / multicast only (F54), and only `announce route` ran it at all:
the vpls / flow / attributes / ipv4 / ipv6 announce commands installed whatever parsed (F55).  The route then raised
ValueError('unexpected nlri definition') when the UPDATE was built.

    cd /repo && PYTHONPATH=/repo/src /venv/bin/python /verif/findings/F54_F55_route_without_nexthop_accepted.py
exit 1 when a definition passes the parse-time check and can not be encoded, or when a handler installs without checking."""
import ast
import inspect
import sys
from unittest.mock import Mock

from exabgp.bgp.message.direction import Direction
from exabgp.bgp.message.open.asn import ASN
from exabgp.bgp.message.open.capability.negotiated import Negotiated
from exabgp.bgp.message.update.collection import RoutedNLRI, UpdateCollection
from exabgp.protocol.family import AFI, SAFI
from exabgp.reactor.api import API
from exabgp.reactor.api.command import announce as announce_module
from exabgp.reactor.api.command.announce import validate_announce


def session():
    neighbor = Mock()
    neighbor.__getitem__ = Mock(return_value={'aigp': False})
    negotiated = Negotiated.make_negotiated(neighbor, Direction.OUT)
    negotiated.asn4 = True
    negotiated.local_as, negotiated.peer_as = ASN(65000), ASN(65001)
    negotiated.families = [(afi, safi) for afi in (AFI.ipv4, AFI.ipv6, AFI.l2vpn) for safi in (SAFI.unicast, SAFI.nlri_mpls, SAFI.mpls_vpn, SAFI.vpls)]
    return negotiated


api = API(Mock())
bad = 0
for kind, text in (
    ('route', 'announce route 10.0.0.0/24 label 3'),
    ('route', 'announce route 10.0.0.0/24 label 3 rd 1:1'),
    ('vpls', 'announce vpls endpoint 5 base 1 offset 1 size 8 rd 1:1'),
    ('route', 'announce route 10.0.0.0/24 next-hop 1.2.3.4 label 3'),
):
    routes = {'route': api.api_route, 'vpls': api.api_vpls}[kind](text)
    for route in routes:
        verdict = validate_announce(route)
        try:
            list(UpdateCollection([RoutedNLRI(route.nlri, route.nexthop)], [], route.attributes).messages(session()))
            encodes = True
        except ValueError:
            encodes = False
        ok = (verdict is None) == encodes
        print('%-62s parse-time check: %-8s encodes: %-5s %s' % (text, 'accepted' if verdict is None else 'refused', encodes, 'ok' if ok else 'ACCEPTED BUT CAN NOT BE SENT'))
        bad += not ok

# every announce handler runs the check (read from the source: the handlers are scheduled callbacks)
src = ast.parse(inspect.getsource(announce_module))
for fn in src.body:
    if isinstance(fn, ast.FunctionDef) and fn.name.startswith('announce_'):
        text = ast.unparse(fn)
        if 'configuration.announce_route(' in text:
            checked = 'validate_announce(' in text
            print('%-22s installs routes, validates them first: %s' % (fn.name, checked))
            bad += not checked
sys.exit(1 if bad else 0)
