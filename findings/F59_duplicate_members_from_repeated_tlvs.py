"""F9 / F59 (C13): JSON objects assembled from one member per TLV repeat a key when the peer repeats a TLV type.

Known findings (the repair is a change of the documented JSON layout): AGGREGATOR + AS4_AGGREGATOR (F9), Tunnel
Encapsulation TLVs of one type, SR Policy sub-TLVs, Prefix-SID TLVs (F59a-d).

    cd /repo && PYTHONPATH=/repo/src /venv/bin/python /verif/findings/F59_duplicate_members_from_repeated_tlvs.py
exits 1 when a duplicate key is emitted."""

import json
import os
import struct
import sys
from unittest.mock import Mock

from exabgp.bgp.message import Message
from exabgp.bgp.message.direction import Direction
from exabgp.bgp.message.open import HoldTime, Open, RouterID, Version
from exabgp.bgp.message.open.capability import Capabilities
from exabgp.bgp.message.open.capability.negotiated import Negotiated
from exabgp.configuration.setup import create_minimal_configuration
from exabgp.reactor.api.processes import Processes
from exabgp.reactor.api.response import Response
from exabgp.version import json as json_version

configuration = create_minimal_configuration(families='ipv4 unicast', add_path=False)
configuration.reload()
neighbor = list(configuration.neighbors.values())[0]
negotiated = Negotiated(neighbor, Direction.IN)
sent = Open.make_open(Version(4), neighbor.session.local_as, HoldTime(180), RouterID('1.1.1.1'), Capabilities().new(neighbor, False))
negotiated.sent(sent)
negotiated.received(sent)
neighbor.api = {'receive-update': ['api']}
peer = Mock()
peer.neighbor = neighbor


def attribute(code: int, flag: int, data: bytes) -> bytes:
    return bytes([flag, code, len(data)]) + data


BASE = (
    attribute(1, 0x40, b'\x00')
    + attribute(2, 0x40, b'')
    + attribute(3, 0x40, bytes([10, 0, 0, 1]))
    + attribute(5, 0x40, struct.pack('!I', 100))
)

duplicates: list[str] = []


def no_duplicates(pairs):
    keys = [key for key, _ in pairs]
    duplicates.extend(sorted({key for key in keys if keys.count(key) > 1}))
    return dict(pairs)


def render(label: str, extra: bytes) -> bool:
    attributes = BASE + extra
    body = struct.pack('!H', 0) + struct.pack('!H', len(attributes)) + attributes + bytes([24, 10, 1, 1])
    message = Message.unpack(Message.CODE.UPDATE, body, negotiated)
    processes = Processes()
    reader, writer = os.pipe()
    process = Mock()
    process.stdin = os.fdopen(writer, 'wb', 0)
    processes._process['api'] = process
    processes._encoder['api'] = Response.JSON(json_version)
    processes.message(Message.CODE.UPDATE, peer, 'receive', message, b'', b'', negotiated)
    line = os.read(reader, 1 << 20)
    duplicates.clear()
    event = json.loads(line, object_pairs_hook=no_duplicates)
    print(label, '-> duplicate keys', list(duplicates), json.dumps(event['neighbor']['message']['update']['attribute']))
    return bool(duplicates)


tunnel = struct.pack('!HH', 99, 2) + b'\xaa\xbb'
name = bytes([130]) + struct.pack('!H', 3) + b'\x00ab'
name2 = bytes([130]) + struct.pack('!H', 3) + b'\x00zz'
broken = [
    # AGGREGATOR (7) and AS4_AGGREGATOR (18) are both rendered as "aggregator"
    render(
        'AGGREGATOR + AS4_AGGREGATOR',
        attribute(7, 0xC0, struct.pack('!I', 65000) + bytes([1, 1, 1, 1]))
        + attribute(18, 0xC0, struct.pack('!I', 70000) + bytes([2, 2, 2, 2])),
    ),
    # two Tunnel Encapsulation TLVs of the same (unknown) tunnel type
    render('TUNNEL_ENCAP, tunnel type 99 twice', attribute(23, 0xC0, tunnel + tunnel)),
    # an SR Policy tunnel holding the Policy Name sub-TLV twice: the peer picks which name the consumer sees
    render(
        'TUNNEL_ENCAP, SR Policy with two policy names',
        attribute(23, 0xC0, struct.pack('!HH', 15, len(name) + len(name2)) + name + name2),
    ),
    # a Prefix-SID attribute (40) with the Label-Index TLV twice
    render(
        'PREFIX_SID, Label-Index TLV twice',
        attribute(40, 0xC0, (bytes([1]) + struct.pack('!H', 7) + bytes([0, 0, 0]) + struct.pack('!I', 5)) + (bytes([1]) + struct.pack('!H', 7) + bytes([0, 0, 0]) + struct.pack('!I', 9))),
    ),
    # SRv6 L3 Service TLV (5) > SID Information sub-TLV (1) with the SID Structure sub-sub-TLV (1) twice
    render(
        'PREFIX_SID, SRv6 SID information with two SID structures',
        attribute(
            40,
            0xC0,
            (lambda subsub: (lambda sub: bytes([5]) + struct.pack('!H', 1 + len(sub)) + bytes([0]) + sub)(
                bytes([1]) + struct.pack('!H', 21 + len(subsub)) + bytes([0]) + bytes(16) + bytes([0]) + struct.pack('!H', 17) + bytes([0]) + subsub
            ))((bytes([1]) + struct.pack('!H', 6) + bytes([40, 24, 16, 0, 16, 64])) * 2),
        ),
    ),
]
sys.exit(1 if any(broken) else 0)
