#!/usr/bin/env python3
"""F36 (C10): the Cease 6/7 that refuses a second connection of an established peer is never written.

Peer.handle_connection() answers an incoming connection it refuses (session already ESTABLISHED, or a collision lost in
OPENCONFIRM) with `return connection.notification(6, 7, ...)`.  Incoming.notification is a generator function: nothing is
written until somebody iterates it.  Listener.new_connections only tests the returned object for truth (`if denied:`) and
drops it: no NOTIFICATION goes out and the refused socket is never closed.  The two other refusals of the same function
(6/3, 6/5) hand the generator to reactor.asynchronous.schedule().

exit 0: the refusal is written (or scheduled) and the socket closed; exit 1: nothing is written (defect present)."""
import sys
from unittest.mock import MagicMock

from exabgp.environment import getenv
from exabgp.logger import log
from exabgp.protocol.ip import IP
from exabgp.reactor.listener import Listener

log.init(getenv())

written = []
closed = []


class FakeConnection:
    local = '127.0.0.2'
    peer = '127.0.0.1'

    def name(self):
        return 'incoming-1'

    def notification(self, code, subcode, message):
        # same shape as Incoming.notification: a generator, lazy
        written.append((code, subcode))
        yield False
        closed.append(True)


neighbor = MagicMock()
neighbor.session.peer_address = IP.from_string('127.0.0.2')
neighbor.session.local_address = IP.from_string('127.0.0.1')
neighbor.session.auto_discovery = False
neighbor.range_size = 1

scheduled = []
reactor = MagicMock()
reactor.peers.return_value = ['peer-1']
reactor.neighbor.return_value = neighbor
# what Reactor.handle_connection returns for an ESTABLISHED peer: Peer.handle_connection's refusal
reactor.handle_connection.side_effect = lambda key, connection: connection.notification(6, 7, b'already established')
reactor.asynchronous.schedule.side_effect = lambda uid, cmd, cb: scheduled.append(cb)

listener = Listener(reactor)
listener.serving = True
listener._connected = lambda: iter([FakeConnection()])
for _ in listener.new_connections():
    pass
# the reactor runs what was scheduled
for cb in scheduled:
    for _ in cb:
        pass
print('NOTIFICATION written:', written, '| socket closed:', bool(closed))
if written != [(6, 7)] or not closed:
    print('FAIL: the refused connection gets no Cease 6/7 and stays open')
    sys.exit(1)
print('PASS')
