"""F14 (C16, C15): the FlowSpec decoder rebuilt the two-byte NLRI length with a shift of 16 where the encoder uses 8:
every FlowSpec NLRI of 240 to 4095 bytes was refused ("need 65581 bytes").
Run: /venv/bin/python findings/F14_flowspec_long_length.py   (exit 1 = defect present)"""
import sys
sys.path.insert(0, '/repo/src')
from unittest.mock import MagicMock
from exabgp.bgp.message.action import Action
from exabgp.bgp.message.update.nlri.flow import Flow, FlowDestinationPort, NumericOperator
from exabgp.bgp.message.update.nlri.nlri import NLRI
from exabgp.bgp.message.update.nlri.flow import NumericValue
from exabgp.protocol.family import AFI, SAFI
from exabgp.bgp.message.notification import Notify
flow = Flow.make_flow(AFI.ipv4, SAFI.flow_ip)
for port in range(1000, 1100):                       # 100 terms of 3 bytes: a 301 byte rule
    flow.add(FlowDestinationPort(NumericOperator.EQ, NumericValue(port)))
wire = bytes(flow.pack_nlri(MagicMock()))
print('encoded %d bytes, length prefix %s' % (len(wire), wire[:2].hex()))
try:
    back, rest = Flow.unpack_nlri(AFI.ipv4, SAFI.flow_ip, wire, Action.ANNOUNCE, None, MagicMock())
except Notify as n:
    print('refused:', n); sys.exit(1)
ok = back is not NLRI.INVALID and bytes(back.pack_nlri(MagicMock())) == wire
print('round trip', ok)
sys.exit(0 if ok else 1)
