"""F11 (C14): dispatch_v6 replaced an EMPTY selector match by all peers: `peer 10.9.9.9 announce route ...` with no
such neighbor was applied to every neighbor (v4 `neighbor 10.9.9.9 announce ...` raises NoMatchingPeers).
Run: /venv/bin/python findings/F11_empty_selector_widened.py   (exit 1 = defect present)"""
import sys
sys.path.insert(0, '/repo/src')
from unittest.mock import MagicMock
from exabgp.reactor.api.dispatch.v6 import dispatch_v6
from exabgp.reactor.api.dispatch.common import NoMatchingPeers
reactor = MagicMock()
reactor.peers.return_value = ['neighbor 10.0.0.1 local-ip 10.0.0.2 local-as 1 peer-as 2 router-id 1.1.1.1 family-allowed in-open',
                              'neighbor 10.0.0.3 local-ip 10.0.0.2 local-as 1 peer-as 3 router-id 1.1.1.1 family-allowed in-open']
try:
    handler, peers, rest = dispatch_v6('peer 10.9.9.9 announce route 192.0.2.0/24 next-hop 10.0.0.9', reactor, 'svc')
    print('applied to', len(peers), 'peers:', peers); sys.exit(1 if peers else 0)
except NoMatchingPeers:
    print('NoMatchingPeers'); 
# control: no selector at all still means every peer
h, peers, _ = dispatch_v6('rib flush out', reactor, 'svc')
print('rib flush out ->', len(peers), 'peers')
h, peers2, _ = dispatch_v6('peer * announce route 192.0.2.0/24 next-hop 10.0.0.9', reactor, 'svc')
sys.exit(0 if len(peers) == 2 and len(peers2) == 2 else 1)
