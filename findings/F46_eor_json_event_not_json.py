#!/usr/bin/env python3
"""F46 (C13): the JSON event for a received End-of-RIB marker is not JSON.

JSON._update put the End-of-RIB pseudo route in the announce list, and EOR_NLRI.json() is the member `"eor": {...}`:

    { "update": { "announce": { "ipv4 unicast": { "null": [ "eor": { "afi" : "ipv4", "safi" : "unicast" } ] } } } }

    cd /repo && PYTHONPATH=/repo/src /venv/bin/python /verif/findings/F46_eor_json_event_not_json.py
exit 1 when an End-of-RIB event does not parse."""
import json
import sys

from exabgp.bgp.message.update.eor import EOR
from exabgp.protocol.family import AFI, SAFI
from exabgp.reactor.api.response.json import JSON

bad = 0
for version in ('6.0.0',):
    for afi, safi in ((AFI.ipv4, SAFI.unicast), (AFI.ipv6, SAFI.unicast), (AFI.l2vpn, SAFI.evpn)):
        text = JSON(version)._update(EOR(afi, safi))['message']
        try:
            parsed = json.loads(text)
            print(afi, safi, 'ok', parsed)
        except ValueError as exc:
            print(afi, safi, 'NOT JSON:', text, '->', exc)
            bad += 1
sys.exit(1 if bad else 0)
