"""F8 (C10): an OPEN received while ESTABLISHED matched no handler of Peer._main and was silently ignored; RFC 4271
8.2.2 / RFC 6608 want NOTIFICATION 5/3.
Run: /venv/bin/python findings/F08_open_in_established.py   (exit 1 = defect present)"""
import asyncio, sys
from unittest.mock import MagicMock, AsyncMock
sys.path.insert(0, '/repo/src')
from exabgp.bgp.message import Open, Notify
from exabgp.reactor.peer.peer import Peer
neighbor = MagicMock(); neighbor.api = None; neighbor.uid = '1'; neighbor.manual_eor = True; neighbor.rate_limit = 0
neighbor.asm = {}; neighbor.previous = None; neighbor.routes = []; neighbor.messages = []; neighbor.eor = []; neighbor.refresh = []
neighbor.capability.operational.is_enabled.return_value = False; neighbor.capability.route_refresh = False
neighbor.rib.outgoing.pending.return_value = False
peer = Peer(neighbor, MagicMock())
peer.proto = MagicMock(); peer.recv_timer = MagicMock()
peer.proto.negotiated.holdtime.keepalive.return_value = 0
got_open = MagicMock(); got_open.TYPE = Open.TYPE; got_open.SCHEDULING = 0
calls = {'n': 0}
async def read_message():
    calls['n'] += 1
    if calls['n'] == 1:
        return got_open
    peer._teardown = 2          # end the loop if the OPEN was swallowed
    await asyncio.sleep(1)
peer.proto.read_message = read_message
try:
    asyncio.run(peer._main())
except Notify as n:
    print('Notify(%d, %d)' % (n.code, n.subcode)); sys.exit(0 if (n.code, n.subcode) == (5, 3) else 1)
except Exception as e:
    print('OPEN ignored, loop left by teardown (%s)' % type(e).__name__); sys.exit(1)
print('OPEN ignored'); sys.exit(1)
