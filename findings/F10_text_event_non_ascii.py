"""F10 (C13): oneline() kept any printable character, ASCII or not, and Processes.write encodes every event with the
strict ascii codec: a peer host name 'café' in an OPEN made the text `open` event raise UnicodeEncodeError (the event
can not be written).
Run: /venv/bin/python findings/F10_text_event_non_ascii.py   (exit 1 = defect present)"""
import sys
sys.path.insert(0, '/repo/src')
from exabgp.reactor.api.response.text import oneline
out = oneline('café\nneighbor 1.2.3.4 down')
print(repr(out))
try:
    bytes(out + '\n', 'ascii')
except UnicodeEncodeError as e:
    print('UnicodeEncodeError when written to the pipe:', e); sys.exit(1)
sys.exit(0 if '\n' not in out else 1)
