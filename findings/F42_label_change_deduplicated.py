#!/usr/bin/env python3
"""F42 (C04): a labelled / VPN route announced again with another label was de-duplicated (fixed by 94a5c36).

Label.index() / IPVPN.index() leave the label stack out; Cache.in_cache compared index, attribute index and next hop
only, so `announce route 10.0.0.0/24 next-hop 1.2.3.4 label 100 rd 1:1` followed (after the first was sent) by the same
route with `label 200` queued nothing: the peer kept label 100 for ever.

    cd /repo && PYTHONPATH=/repo/src /venv/bin/python /verif/findings/F42_label_change_deduplicated.py
exit 1 when the stale label survives."""
import sys
from exabgp.environment import getenv
from exabgp.logger import log
log.silence(); log.init(getenv())
from exabgp.bgp.message import UpdateCollection
from exabgp.configuration.setup import create_minimal_configuration


def drain(rib, table):
    for m in rib.updates(True):
        if not isinstance(m, UpdateCollection):
            continue
        for nlri in m.withdraws:
            table.pop(nlri.index(), None)
        for r in m.announces:
            table[r.nlri.index()] = (str(r.nlri), m.attributes.index(), str(r.nexthop))


def ann(cfg, name, text):
    for r in cfg.parse_route_text(text, 'announce'):
        cfg.announce_route([name], r)


bad = 0
for fam, extra in (('ipv4 mpls-vpn', ' rd 1:1'), ('ipv4 nlri-mpls', '')):
    cfg = create_minimal_configuration(peer_address='127.0.2.9', families=fam)
    name = next(iter(cfg.neighbors))
    rib = cfg.neighbors[name].rib.outgoing
    t = {}
    ann(cfg, name, 'route 10.0.0.0/24 next-hop 1.2.3.4 label 100' + extra)
    drain(rib, t)
    ann(cfg, name, 'route 10.0.0.0/24 next-hop 1.2.3.4 label 200' + extra)
    pending = rib.pending()
    drain(rib, t)
    stale = any('label 100' in v[0] for v in t.values())
    bad += stale
    print(fam, 'pending=%s' % pending, 'STALE label 100 still at the peer' if stale else 'ok', list(t.values()))
sys.exit(1 if bad else 0)
