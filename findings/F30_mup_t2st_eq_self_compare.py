"""F30 (C15): Type2SessionTransformedRoute.__eq__ compared self.endpoint_len with itself, so two MUP T2ST routes that
differ only in the endpoint length (how many TEID bits belong to the route) compared equal although their wire bytes,
index and hash differ.
Run: /venv/bin/python findings/F30_mup_t2st_eq_self_compare.py   (exit 1 = defect present)"""
import sys
sys.path.insert(0, '/repo/src')
from exabgp.bgp.message.update.nlri.mup.t2st import Type2SessionTransformedRoute as T2
from exabgp.bgp.message.update.nlri.qualifier.rd import RouteDistinguisher
from exabgp.protocol.family import AFI
from exabgp.protocol.ip import IP
rd = RouteDistinguisher.make_from_elements('100', 1) if hasattr(RouteDistinguisher, 'make_from_elements') else RouteDistinguisher.fromElements('100', 1)
a = T2.make_t2st(rd, 32, IP.from_string('10.0.0.1'), 0, AFI.ipv4) if hasattr(T2, 'make_t2st') else None
b = T2.make_t2st(rd, 33, IP.from_string('10.0.0.1'), 0, AFI.ipv4) if hasattr(T2, 'make_t2st') else None
if a is None:
    print('factory not found'); sys.exit(2)
print('endpoint_len', a.endpoint_len, b.endpoint_len, 'packed equal', a._packed == b._packed, 'eq', a == b)
sys.exit(1 if (a == b and a._packed != b._packed) else 0)
