#!/usr/bin/env python3
"""F39 (C09): the IPv4 routes of the last classic UPDATE are sent a second time with the first MP message, and can make
generation fail.

UpdateCollection.messages() yields the last message of the IPv4 unicast section (`if announced or withdraws: yield ...`)
without emptying `announced` / `withdraws`.  The MP section writes them again into its first message and gives the
MP_REACH generator only msg_size - len(withdraws + announced): with 1006..1013 IPv4 /24 plus two IPv6 /48 on a 4096 byte
session not even one IPv6 prefix fits and messages() dies with RuntimeError('NLRI too large ...') - the IPv6 routes are lost.

exit 0: every route is sent exactly once; exit 1: routes sent twice or generation fails (defect present)."""
import sys
from unittest.mock import Mock

from exabgp.bgp.message.direction import Direction
from exabgp.bgp.message.open.asn import ASN
from exabgp.bgp.message.update import UpdateCollection
from exabgp.bgp.message.update.attribute import Attribute, AttributeCollection
from exabgp.bgp.message.update.attribute.aspath import AS2Path, SEQUENCE
from exabgp.bgp.message.update.attribute.nexthop import NextHop
from exabgp.bgp.message.update.attribute.origin import Origin
from exabgp.bgp.message.update.collection import RoutedNLRI
from exabgp.bgp.message.update.nlri.cidr import CIDR
from exabgp.bgp.message.update.nlri.inet import INET
from exabgp.protocol.family import AFI, SAFI
from exabgp.protocol.ip import IP, IPv6


def negotiated(families, msg_size=4096):
    neg = Mock()
    neg.direction = Direction.IN
    neg.asn4 = True
    neg.addpath = Mock()
    neg.addpath.receive = Mock(return_value=False)
    neg.addpath.send = Mock(return_value=False)
    neg.required = Mock(return_value=False)
    neg.families = families
    neg.msg_size = msg_size
    neg.local_as = ASN(65000)
    neg.peer_as = ASN(65001)
    neg.nexthop = []
    neg.linklocal_nexthop = False
    neg.link_local_address = Mock(return_value=None)
    neg.link_local_prefer = Mock(return_value=False)
    neg.is_multihop = Mock(return_value=False)
    neg.aigp = False
    neg.neighbor = None
    return neg


def v4(i):
    return INET.from_cidr(CIDR.create_cidr(IP.pton('10.%d.%d.0' % (i // 256, i % 256)), 24), AFI.ipv4, SAFI.unicast)


def v6(i):
    return INET.from_cidr(CIDR.create_cidr(IPv6.from_string('2001:db8:%x::' % i).pack_ip(), 48), AFI.ipv6, SAFI.unicast)


a = AttributeCollection()
a[Attribute.CODE.ORIGIN] = Origin.from_int(Origin.IGP)
a[Attribute.CODE.AS_PATH] = AS2Path.make_aspath([SEQUENCE([ASN(65001)])])
a[Attribute.CODE.NEXT_HOP] = NextHop.from_string('192.0.2.1')
neg = negotiated([(AFI.ipv4, SAFI.unicast), (AFI.ipv6, SAFI.unicast)])
nh4, nh6 = IP.from_string('192.0.2.1'), IP.from_string('2001:db8::1')
bad = 0
for n4 in (10, 1010):
    routes = [RoutedNLRI(v4(i), nh4) for i in range(n4)] + [RoutedNLRI(v6(i), nh6) for i in range(2)]
    try:
        msgs = list(UpdateCollection(routes, [], a).messages(neg))
    except Exception as exc:
        print('%4d IPv4 + 2 IPv6: messages() raised %s: %s' % (n4, type(exc).__name__, exc))
        bad += 1
        continue
    # count how often the first IPv4 prefix (10.0.0.0/24 = 18 0a 00 00) is on the wire
    first = bytes([24, 10, 0, 0])
    seen = sum(m.count(first) for m in msgs)
    print('%4d IPv4 + 2 IPv6: %d messages, 10.0.0.0/24 written %d time(s)' % (n4, len(msgs), seen))
    bad += seen != 1
print('FAIL' if bad else 'PASS')
sys.exit(1 if bad else 0)
