#!/usr/bin/env python3
"""F31 (C17): Neighbor.__eq__ ignores the add-path and extended-next-hop family lists.

Reactor.reload() compares the running neighbor with the reloaded one: equal -> Peer.reconfigure() (the session is
kept, only routes are diffed), different -> Peer.reestablish() (a new OPEN is sent).  The OPEN is built from
neighbor.addpaths() and neighbor.nexthops() (Capabilities._addpath / _nexthop), but __eq__ does not look at them: a
reload that only adds `add-path { ipv4 unicast; }` (or a `nexthop { ... }` entry) keeps the session negotiated WITHOUT
the new family, so the routes of the new configuration that need it (two paths of one prefix, IPv4 routes with an IPv6
next hop) cannot be delivered as configured.

exit 0: the two neighbors compare different (the reload re-establishes the session)
exit 1: they compare equal (defect present)
"""
import sys

from exabgp.bgp.neighbor import Neighbor
from exabgp.bgp.message.open import ASN, HoldTime, RouterID
from exabgp.protocol.family import AFI, SAFI
from exabgp.protocol.ip import IPv4


def make() -> Neighbor:
    n = Neighbor()
    n.session.router_id = RouterID('1.1.1.1')
    n.session.local_address = IPv4.from_string('127.0.0.1')
    n.session.peer_address = IPv4.from_string('127.0.0.2')
    n.session.peer_as = ASN(65000)
    n.session.local_as = ASN(65000)
    n.hold_time = HoldTime(180)
    n.add_family((AFI.ipv4, SAFI.unicast))
    n.add_family((AFI.ipv6, SAFI.unicast))
    return n


bad = 0
a, b = make(), make()
b.add_addpath((AFI.ipv4, SAFI.unicast))
print('add-path families      :', a.addpaths(), 'vs', b.addpaths(), '-> equal:', a == b)
bad += a == b
a, b = make(), make()
b.add_nexthop(AFI.ipv4, SAFI.unicast, AFI.ipv6)
print('extended next-hop list :', a.nexthops(), 'vs', b.nexthops(), '-> equal:', a == b)
bad += a == b
if bad:
    print('FAIL: a reload changing only these lists keeps the old session (reconfigure instead of reestablish)')
    sys.exit(1)
print('PASS')
