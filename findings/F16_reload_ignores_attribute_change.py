"""F16 (C17): OutgoingRIB.replace_reload compared the previous and the new configuration by route index (family +
prefix) only: a route kept with a changed MED was not re-announced after the reload.
Run: /venv/bin/python findings/F16_reload_ignores_attribute_change.py   (exit 1 = defect present)"""
import sys
sys.path.insert(0, '/repo/src')
from exabgp.rib.outgoing import OutgoingRIB
from exabgp.rib.route import Route
from exabgp.protocol.family import AFI, SAFI
from exabgp.protocol.ip import IP
from exabgp.bgp.message.update.nlri.inet import INET
from exabgp.bgp.message.update.nlri.cidr import CIDR
from exabgp.bgp.message.update.attribute.collection import AttributeCollection
from exabgp.bgp.message.update.attribute.med import MED
from exabgp.bgp.message.update.attribute.origin import Origin

def route(med, nh='192.0.2.1'):
    nlri = INET.from_cidr(CIDR.create_cidr(IP.pton('10.0.0.0'), 8), AFI.ipv4, SAFI.unicast)
    a = AttributeCollection(); a.add(Origin.from_int(Origin.IGP)); a.add(MED.from_int(med))
    return Route(nlri, a, nexthop=IP.from_string(nh))
rib = OutgoingRIB(True, {(AFI.ipv4, SAFI.unicast)})
old = [route(1)]
for r in old:
    rib.add_to_rib(r)
list(rib.updates(False))                         # session up, route sent with med 1
rib.replace_reload(old, [route(2)])              # reload: same prefix, med 2
sent = [str(u.attributes) for u in rib.updates(False) if u.announces]
print('re-announced after reload:', sent)
rib.replace_reload([route(2)], [route(2)])       # control: unchanged route is not re-sent
same = [u for u in rib.updates(False) if u.announces]
sys.exit(0 if sent and 'med 2' in sent[0] and not same else 1)
