"""F27 (C01): the default AS_PATH added on eBGP was built 2 bytes wide from the local AS; with a 4-byte local AS
(200000) encoding any route without an explicit as-path raised struct.error (before the F1 repair it silently sent 23456
to ASN4 peers).
Run: /venv/bin/python findings/F27_default_aspath_4byte_local_as.py   (exit 1 = defect present)"""
import sys
sys.path.insert(0, '/repo/src')
from exabgp.configuration.setup import create_minimal_configuration
from exabgp.configuration.check import _negotiated
from exabgp.bgp.message.update.collection import UpdateCollection, RoutedNLRI
cfg = create_minimal_configuration(peer_address='192.0.2.2', local_address='192.0.2.1', local_as=200000, peer_as=65002)
n = list(cfg.neighbors.values())[0]
_, out = _negotiated(n)
routes = cfg.parse_route_text('route 10.0.0.0/24 next-hop 192.0.2.1')
r = routes[0]
try:
    msgs = list(UpdateCollection([RoutedNLRI(r.nlri, r.nexthop)], [], r.attributes).messages(out))
except Exception as e:
    print('EXC', repr(e)); sys.exit(1)
wire = msgs[0].hex()
print('asn4 session', out.asn4, 'local_as', int(out.local_as), 'update', wire)
# AS_PATH: flag 40 type 02 len 06: segment type 2, 1 ASN, 00030d40 = 200000
sys.exit(0 if '4002060201' + '%08x' % 200000 in wire else 1)
