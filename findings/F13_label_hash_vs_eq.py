"""F13 (C15): Label and IPVPN compare by index(), which leaves the label stack out, but hashed the complete packed bytes,
labels included: the same prefix with labels 100 and 200 gave a == b and hash(a) != hash(b).
Run: /venv/bin/python findings/F13_label_hash_vs_eq.py   (exit 1 = defect present)"""
import sys
sys.path.insert(0, '/repo/src')
from exabgp.bgp.message.update.nlri.label import Label
from exabgp.bgp.message.update.nlri.cidr import CIDR
from exabgp.bgp.message.update.nlri.qualifier.labels import Labels
from exabgp.protocol.family import AFI, SAFI
from exabgp.protocol.ip import IP
def mk(lbl):
    return Label.from_cidr(CIDR.create_cidr(IP.pton('10.0.0.0'), 24), AFI.ipv4, SAFI.nlri_mpls, labels=Labels.make_labels([lbl]))
a, b = mk(100), mk(200)
print('a == b:', a == b, ' hash equal:', hash(a) == hash(b), ' in set:', len({a, b}))
sys.exit(0 if (a != b or hash(a) == hash(b)) else 1)
