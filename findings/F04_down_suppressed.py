"""F4 (C05): when the connection-attempt limit is reached, Peer._run called stop() (FSM -> IDLE) before
_reset(), so _close() saw IDLE and never told the API the neighbor went down after an "up".
Run: /venv/bin/python findings/F04_down_suppressed.py   (exit 1 = defect present)"""
import asyncio, sys
from unittest.mock import MagicMock
sys.path.insert(0, '/repo/src')
from exabgp.bgp.fsm import FSM
from exabgp.reactor.peer.peer import Peer
from exabgp.reactor.network.error import NetworkError

neighbor = MagicMock()
neighbor.api = {'neighbor-changes': True, 'fsm': False}
neighbor.ephemeral = False
neighbor.uid = '1'
reactor = MagicMock()
peer = Peer(neighbor, reactor)
peer.max_connection_attempts = 1
peer.connection_attempts = 1            # limit reached

async def establish():
    peer.fsm.change(FSM.ESTABLISHED)     # the session came up ("up" was sent by _main) ...
async def main():
    raise NetworkError('connection lost')  # ... and then the transport failed
peer._establish = establish
peer._main = main
asyncio.run(peer._run())
down = reactor.processes.down.call_count
print('processes.down calls after an established session was lost at the attempt limit:', down)
sys.exit(0 if down == 1 else 1)
