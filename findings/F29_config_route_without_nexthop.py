"""F29 (C18): a configuration-file route without next-hop is accepted by Configuration.reload() and only fails when the
UPDATE is encoded for the session (ValueError 'announce requires nexthop'); the API refuses the same text at parse time.
Run: /venv/bin/python findings/F29_config_route_without_nexthop.py   (exit 1 = defect present)"""
import os, sys, tempfile
sys.path.insert(0, '/repo/src')
from exabgp.configuration.configuration import Configuration
from exabgp.configuration.check import _negotiated
from exabgp.bgp.message.update.collection import UpdateCollection, RoutedNLRI
conf = '''neighbor 192.0.2.2 { router-id 192.0.2.1; local-address 192.0.2.1; local-as 65001; peer-as 65002;
 static { route 10.0.0.0/24 med 5; } }
'''
p = os.path.join(tempfile.mkdtemp(), 'c.conf'); open(p, 'w').write(conf)
c = Configuration([p])
accepted = c.reload()
print('reload() ->', accepted)
if not accepted:
    print('refused at parse time:', str(c.error)[:80]); sys.exit(0)
n = list(c.neighbors.values())[0]
_, out = _negotiated(n)
try:
    for r in n.routes:
        list(UpdateCollection([RoutedNLRI(r.nlri, r.nexthop)], [], r.attributes).messages(out))
except Exception as e:
    print('accepted, then fails at encode time:', repr(e)); sys.exit(1)
sys.exit(0)
