#!/usr/bin/env python3
"""F56 (C18): `route 10.0.0.1/abc next-hop 1.2.3.4` was accepted and announced as 10.0.0.1/32.

    cd /repo && PYTHONPATH=/repo/src /venv/bin/python /verif/findings/F56_prefix_mask_not_a_number.py
exit 1 when a prefix with a mask that is not a number is accepted."""
import sys
from unittest.mock import Mock

from exabgp.reactor.api import API

api = API(Mock())
bad = 0
for text in ('announce route 10.0.0.1/abc next-hop 1.2.3.4', 'announce route 2001:db8::1/x next-hop 2001:db8::2', 'announce route 10.0.0.1 next-hop 1.2.3.4', 'announce route 10.0.0.0/24 next-hop 1.2.3.4'):
    try:
        routes = api.api_route(text)
    except Exception as exc:  # noqa: BLE001
        routes = []
        print('%-55s raised %s' % (text, type(exc).__name__))
    valid = '/abc' not in text and '/x' not in text
    got = [str(r.nlri) for r in routes]
    ok = bool(routes) == valid
    print('%-55s -> %s %s' % (text, got or 'refused', 'ok' if ok else 'WRONG'))
    bad += not ok
sys.exit(1 if bad else 0)
