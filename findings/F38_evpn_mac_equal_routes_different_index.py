#!/usr/bin/env python3
"""F38 (C15, known): two EVPN MAC/IP routes that compare equal have different indexes.

MAC.__eq__ / __hash__ follow RFC 7432 7.2 (the key is RD, Ethernet tag, MAC, IP: ESI and label are not part of it), index()
returns the family plus the COMPLETE packed bytes (the class says so itself in a comment).  The same holds for EthernetAD,
EthernetSegment (ESI / label) and MVPN SharedJoin / SourceJoin (source-as).  Equal routes with different indexes are filed
under two keys of the Adj-RIB tables: re-announcing a MAC with a new label leaves the old entry in place.

exit 0: equal routes, equal indexes; exit 1: equal routes, different indexes (finding present)."""
import sys

from exabgp.bgp.message.update.nlri.evpn.mac import MAC
from exabgp.bgp.message.update.nlri.qualifier import ESI, EthernetTag, Labels, RouteDistinguisher
from exabgp.bgp.message.update.nlri.qualifier import MAC as MACQUAL
from exabgp.protocol.ip import IP

rd = RouteDistinguisher.make_from_elements('65000', 1)


def route(label: int) -> MAC:
    return MAC.make_mac(rd, ESI.make_default(), EthernetTag.make_etag(0), MACQUAL('00:11:22:33:44:55'), 48, Labels.make_labels([label]), IP.from_string('10.0.0.1'))


a, b = route(100), route(200)
print('a == b:', a == b, '| hash equal:', hash(a) == hash(b), '| index equal:', a.index() == b.index())
if a == b and a.index() != b.index():
    print('FAIL: equal routes, different indexes')
    sys.exit(1)
print('PASS')
