"""Reproducer for defects which exist on the clean tree (see existing_defect.md)."""
import asyncio
import fcntl
import os
import sys
from types import SimpleNamespace

import exabgp
from exabgp.environment import getenv
from exabgp.configuration.configuration import Configuration
from exabgp.reactor.loop import Reactor
from exabgp.reactor.api.processes import Processes
from exabgp.bgp.fsm import FSM

SERVICE = 'helper'


class Daemon:
    """The real Reactor, API, ASYNC scheduler and Processes; only the helper program is
    replaced, by two pipes (its stdout carries the commands, its stdin gets the replies)."""

    def __init__(self, api_version=4):
        getenv().api.version = api_version
        self.reactor = Reactor(Configuration([]))
        self.reactor.processes = Processes()
        # exactly what Reactor.run_async() registers
        self.reactor.asynchronous.set_error_handler(self.reactor.processes.answer_error_sync)
        cmd_r, self.cmd_w = os.pipe()
        self.ans_r, ans_w = os.pipe()
        for fd in (cmd_r, ans_w, self.ans_r):
            fcntl.fcntl(fd, fcntl.F_SETFL, os.O_NONBLOCK)
        helper = SimpleNamespace(
            stdout=os.fdopen(cmd_r, 'rb', buffering=0),
            stdin=os.fdopen(ans_w, 'wb', buffering=0),
            poll=lambda: None,  # still running
        )
        processes = self.reactor.processes
        processes._process[SERVICE] = helper
        processes._ack[SERVICE] = True  # acknowledgements enabled
        processes._ackjson[SERVICE] = False
        processes._update_fds()

    async def start(self):
        # the real reader: loop.add_reader(fd, Processes._async_reader_callback, name)
        self.reactor.processes.setup_async_readers(asyncio.get_running_loop())

    async def turn(self, n=1):
        """n iterations of the API part of Reactor._async_main_loop (loop.py, 'Process API commands'
        down to 'Yield control to peer tasks'), statement for statement."""
        r = self.reactor
        for _ in range(n):
            for service, command in r.processes.received_async():
                r.api.process(r, service, command)
            if r.asynchronous._async:
                await r.asynchronous._run_async()
            await r.processes.flush_write_queue()
            await asyncio.sleep(0)

    async def send(self, *chunks):
        """The helper writes; every chunk is delivered to the daemon by a read of its own."""
        for chunk in chunks:
            os.write(self.cmd_w, chunk.encode())
            await asyncio.sleep(0.02)  # lets the event loop call _async_reader_callback

    def replies(self):
        data = b''
        while True:
            try:
                got = os.read(self.ans_r, 65536)
            except BlockingIOError:
                break
            if not got:
                break
            data += got
        return data.decode().splitlines()

    def establish(self, ip):
        for name, peer in self.reactor._peers.items():
            if name.startswith(f'neighbor {ip} '):
                for state in (FSM.CONNECT, FSM.OPENSENT, FSM.OPENCONFIRM, FSM.ESTABLISHED):
                    peer.fsm.change(state)

    def rib(self, ip):
        for name, neighbor in self.reactor.configuration.neighbors.items():
            if name.startswith(f'neighbor {ip} '):
                return sorted(str(route.nlri) for route in neighbor.rib.outgoing.cached_routes())
        raise KeyError(ip)


def terminal(lines):
    """the terminal replies (the text API marks: 'done' / 'error'), in order"""
    return [line for line in lines if line in ('done', 'error')]


async def main():
    print('exabgp imported from', exabgp.__file__)
    d = Daemon(api_version=4)
    await d.start()
    for ip, asn in (('10.0.0.1', 65001), ('10.0.0.2', 65002)):
        await d.send(f'create neighbor {ip} local-address 10.0.0.254 local-as 65000 peer-as {asn} api {SERVICE}\n')
        await d.turn(3)
    d.replies()
    found = 0

    # 1. second route has no next-hop: the first one is installed, then the command is answered 'error'
    line = 'neighbor 10.0.0.1 announce route 10.5.0.0/24 next-hop 1.1.1.1 ; route 10.6.0.0/24'
    await d.send(line + '\n')
    await d.turn(4)
    got = d.replies()
    print(f'{line}\n  replies: {got}\n  rib 10.0.0.1: {d.rib("10.0.0.1")}')
    if terminal(got) == ['error'] and d.rib('10.0.0.1') != []:
        print('  DEFECT 1: answered error, yet the RIB changed')
        found += 1

    # 2. 'rib clear <anything>' is read as 'rib clear out'
    await d.send('announce route 10.9.0.0/24 next-hop 1.1.1.1\n')
    await d.turn(4)
    d.replies()
    before = d.rib('10.0.0.2')
    await d.send('rib clear bogus\n')
    await d.turn(4)
    got = d.replies()
    print(f'rib clear bogus\n  replies: {got}\n  rib 10.0.0.2: {before} -> {d.rib("10.0.0.2")}')
    if d.rib('10.0.0.2') != before:
        print('  DEFECT 2: a direction which is neither in nor out withdrew the whole Adj-RIB-Out')
        found += 1

    # 3. 'peer * routes list' never sends a terminal reply
    await d.send('peer * routes list\n')
    await d.turn(4)
    got = d.replies()
    print(f'peer * routes list\n  replies: {got}')
    if terminal(got) == []:
        print('  DEFECT 3: no terminal done/error for the command')
        found += 1
    return 1 if found else 0


if __name__ == '__main__':
    sys.exit(asyncio.run(main()))
