#!/usr/bin/env python3
"""F32 (C18): `community 1:65536` is accepted and sent as 2:0.

configuration/static/parser.py _community() compares each half of <high>:<low> with Community.MAX (the 32 bit maximum of
the whole community) and then packs (high << 16) + low: a low half above 65535 carries into the high half.

exit 0: the text is refused; exit 1: it is accepted as another community (defect present)."""
import sys

from exabgp.configuration.static.parser import _community

bad = 0
for text in ('1:65536', '65536:1', '1:4294967295'):
    try:
        c = _community(text)
        print('%-14s accepted as %s' % (text, c))
        bad += 1
    except ValueError as e:
        print('%-14s refused (%s)' % (text, str(e)[:50]))
    except Exception as e:  # struct.error is not a refusal the configuration reports with a line number
        print('%-14s raised %s' % (text, type(e).__name__))
        bad += 1
print('FAIL' if bad else 'PASS')
sys.exit(1 if bad else 0)
