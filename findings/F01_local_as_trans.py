"""F1 (C01, C07): Negotiated.local_as was taken from the 2-octet My-AS field of the OPEN we sent, so a local AS
above 65535 became 23456 (AS_TRANS): the default AS_PATH on eBGP carried 23456 and an iBGP session between 4-byte
ASes was treated as eBGP.
Run: /venv/bin/python findings/F01_local_as_trans.py   (exit 1 = defect present)"""
import sys
sys.path.insert(0, '/repo/src')
from unittest.mock import MagicMock
from exabgp.bgp.message.open import Open
from exabgp.bgp.message.open.asn import ASN
from exabgp.bgp.message.open.version import Version
from exabgp.bgp.message.open.holdtime import HoldTime
from exabgp.bgp.message.open.routerid import RouterID
from exabgp.bgp.message.open.capability.capabilities import Capabilities
from exabgp.bgp.message.open.capability.capability import Capability
from exabgp.bgp.message.open.capability.asn4 import ASN4
from exabgp.bgp.message.open.capability.negotiated import Negotiated
from exabgp.bgp.message.direction import Direction

def mk(asn, rid):
    caps = Capabilities(); caps[Capability.CODE.FOUR_BYTES_ASN] = ASN4(asn)
    return Open.make_open(Version(4), ASN(asn), HoldTime(180), RouterID(rid), caps)
neg = Negotiated(MagicMock(), Direction.OUT)
neg.sent(mk(200000, '1.1.1.1'))
neg.received(mk(200000, '2.2.2.2'))
print('local_as', int(neg.local_as), 'peer_as', int(neg.peer_as), 'is_ibgp', neg.is_ibgp)
sys.exit(0 if int(neg.local_as) == 200000 and neg.is_ibgp else 1)
