#!/usr/bin/env python3
"""F37 (C15): two BGP-LS VPN routes that differ only in their route distinguisher share an index.

BGPLS.unpack_nlri strips the RD out of the bytes it keeps (_packed) and stores it in route_d.  __eq__ and __hash__ of
NODE / LINK / PREFIX look at route_d, index() (inherited from BGPLS) only at the family and _packed: the Adj-RIB tables,
keyed by index(), file the two routes under one key - the second replaces the first.

exit 0: different routes, different indexes; exit 1: same index (defect present)."""
import sys
from struct import pack

from exabgp.bgp.message import Action
from exabgp.bgp.message.update.nlri.bgpls.nlri import BGPLS
from exabgp.bgp.message.update.nlri import NLRI  # noqa: F401  (registers the families)
from exabgp.protocol.family import AFI, SAFI

# Node NLRI (type 1): protocol-id 2 (IS-IS L2), identifier 0, local node descriptors TLV 256 { AS 65000 (TLV 512) }
desc = pack('!HH', 512, 4) + pack('!L', 65000)
node = bytes([2]) + bytes(8) + pack('!HH', 256, len(desc)) + desc


def vpn(rd: bytes) -> bytes:
    body = rd + node
    return pack('!HH', 1, len(body)) + body


rd1 = bytes([0, 0]) + pack('!HL', 65000, 1)
rd2 = bytes([0, 0]) + pack('!HL', 65000, 2)
a, _ = BGPLS.unpack_nlri(AFI.bgpls, SAFI.bgp_ls_vpn, vpn(rd1), Action.ANNOUNCE, None, None)
b, _ = BGPLS.unpack_nlri(AFI.bgpls, SAFI.bgp_ls_vpn, vpn(rd2), Action.ANNOUNCE, None, None)
print('a:', a.json()[:110])
print('b:', b.json()[:110])
print('a == b:', a == b, '| same index:', a.index() == b.index())
if not (a == b) and a.index() == b.index():
    print('FAIL: routes with different route distinguishers share an index')
    sys.exit(1)
print('PASS')
