"""Path-sensitive abstract propagation over a CFG with correlated guards.

A state is (value, facts): `value` is any hashable abstract value a rule defines, `facts` is a frozenset of
(test text, truth) for tests that occur at least twice in the function (syntactically identical up to a leading
`not`).  When a test whose text is already in `facts` is met, only the consistent edge is followed, which is what
makes `if a: x()` ... `if not a: x()` count as "x on every path".  Facts are dropped when a statement assigns a
name or attribute chain that the test reads.
"""

from __future__ import annotations

import ast
from typing import Any, Callable, Hashable, Iterable

from .cfg import CFG, Node
from .flow import assigned_targets, dotted_reads
from .model import dotted, norm


def _norm_test(test: ast.expr) -> tuple[str, bool]:
    pol = True
    while isinstance(test, ast.UnaryOp) and isinstance(test.op, ast.Not):
        test = test.operand
        pol = not pol
    return norm(test), pol


class Result:
    def __init__(self) -> None:
        self.at: dict[int, set] = {}  # node id -> set of values on entry
        self.exit_values: set = set()
        self.raise_values: set = set()
        self.states = 0
        self.truncated = False


def propagate(
    cfg: CFG,
    init: Hashable,
    transfer: Callable[[Node, Any], Iterable[Any] | None],
    edge_filter: Callable[[Node, str, Any], bool] | None = None,
    max_states: int = 200000,
    correlate: bool = True,
    exc_transfer: Callable[[Node, Any], Any] | None = None,
) -> Result:
    """transfer(node, value) -> new values after the node (None = unchanged).
    exc_transfer(node, value) -> the value carried along the node's exception edge (default: value before the node)."""
    # tests occurring at least twice
    counts: dict[str, int] = {}
    reads: dict[str, set[str]] = {}
    for n in cfg.nodes:
        if n.kind == 'test' and isinstance(n.ast, (ast.If, ast.While)) and n.copy == 0:
            t, _ = _norm_test(n.ast.test)
            counts[t] = counts.get(t, 0) + 1
            reads[t] = dotted_reads(n.ast.test)
    tracked = {t for t, c in counts.items() if c >= 2} if correlate else set()

    res = Result()
    start = (cfg.entry.id, init, frozenset())
    seen = {start}
    work = [start]
    while work:
        nid, val, facts = work.pop()
        res.states += 1
        if res.states > max_states:
            res.truncated = True
            break
        node = cfg.nodes[nid]
        res.at.setdefault(nid, set()).add(val)
        if nid == cfg.exit.id:
            res.exit_values.add(val)
            continue
        if nid == cfg.raise_exit.id:
            res.raise_values.add(val)
            continue
        outs = transfer(node, val)
        new_vals = [val] if outs is None else list(outs)
        # facts invalidation by assignment
        new_facts = facts
        if node.kind == 'stmt' and node.ast is not None and facts:
            written = set()
            for t in assigned_targets(node.ast):
                d = dotted(t)
                if d:
                    written.add(d)
            if written:
                keep = set()
                for ft, fv in facts:
                    rd = reads.get(ft, set())
                    if any(w == r or r.startswith(w + '.') or w.startswith(r + '.') for w in written for r in rd):
                        continue
                    keep.add((ft, fv))
                new_facts = frozenset(keep)
        test_txt = None
        test_pol = True
        if node.kind == 'test' and isinstance(node.ast, (ast.If, ast.While)):
            test_txt, test_pol = _norm_test(node.ast.test)
        for succ, label in node.succ:
            if label == 'exc':
                ev = exc_transfer(node, val) if exc_transfer is not None else val
                vals_for_edge = [ev]
            else:
                vals_for_edge = new_vals
            for v in vals_for_edge:
                if edge_filter is not None and not edge_filter(node, label, v):
                    continue
                f2 = new_facts
                if test_txt is not None and label in ('true', 'false') and test_txt in tracked:
                    truth = (label == 'true') == test_pol
                    known = dict(new_facts).get(test_txt)
                    if known is not None and known != truth:
                        continue
                    f2 = frozenset(set(new_facts) | {(test_txt, truth)})
                st = (succ, v, f2)
                if st not in seen:
                    seen.add(st)
                    work.append(st)
    return res
