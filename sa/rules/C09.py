"""C09 — generated UPDATEs fit the negotiated size and lose nothing.  DESIGN.md 3/C09."""

from __future__ import annotations

import ast

from ..alpha import Loc, afind, amatch
from ..cfg import CFG
from ..const import UNKNOWN, Folder
from ..flow import Slicer, block_of, flat_guards, parent_map
from ..labels import LabelFlow
from ..model import FuncInfo, Model, dotted, norm, walk_no_nested
from ..report import Run

UC = 'exabgp.bgp.message.update.collection.UpdateCollection'
MPC = 'exabgp.bgp.message.update.nlri.collection.MPNLRICollection'
ATTR = 'exabgp.bgp.message.update.attribute.attribute.Attribute'


def linear(expr: ast.AST, folder: Folder, fi: FuncInfo) -> tuple[int, dict[str, int]] | None:
    """expr as constant + sum(coef * term text)"""
    v = folder.fold(expr, fi.module, fi.cls)
    if isinstance(v, int) and not isinstance(v, bool):
        return v, {}
    if isinstance(expr, ast.BinOp) and isinstance(expr.op, (ast.Add, ast.Sub)):
        l = linear(expr.left, folder, fi)
        r = linear(expr.right, folder, fi)
        if l is None or r is None:
            return None
        sign = 1 if isinstance(expr.op, ast.Add) else -1
        terms = dict(l[1])
        for k, c in r[1].items():
            terms[k] = terms.get(k, 0) + sign * c
        return l[0] + sign * r[0], {k: c for k, c in terms.items() if c}
    return 0, {norm(expr): 1}



class Roles:
    """Who is who in a packing loop, found by what the variables hold (never by their names):

    packed  : locals bound to the bytes of ONE route - the result of pack_nlri(...), or the loop variable over a list of
              such results
    sizes   : locals bound to len(<packed>)
    bufs    : locals that accumulate packed routes (`b += p`, `b = b + p`, `b = header + p`) and reach a yield
    grows   : the accumulating statements (statement, buffer, added expression)
    """

    def __init__(self, model: Model, fi: FuncInfo) -> None:
        self.fi = fi
        self.loc = Loc(model, fi)

        def seed(e: ast.AST) -> tuple[str, ...]:
            if isinstance(e, ast.Call) and isinstance(e.func, ast.Attribute) and e.func.attr == 'pack_nlri':
                return ('P',)
            return ()

        self.lf = LabelFlow(fi.node, seed)
        self.grows: list[tuple[ast.stmt, str, ast.AST]] = []
        self.restarts: list[tuple[ast.stmt, str, ast.AST]] = []
        for n in walk_no_nested(fi.node):
            if isinstance(n, ast.AugAssign) and isinstance(n.op, ast.Add) and isinstance(n.target, ast.Name) and 'P' in self.lf.of(n.value) and not self._is_len(n.value):
                self.grows.append((n, n.target.id, n.value))
            elif isinstance(n, ast.Assign) and isinstance(n.targets[0], ast.Name) and isinstance(n.value, ast.BinOp) and isinstance(n.value.op, ast.Add) and 'P' in self.lf.of(n.value.right) and not self._is_len(n.value.right):
                if dotted(n.value.left) == n.targets[0].id:
                    self.grows.append((n, n.targets[0].id, n.value.right))
                else:
                    self.restarts.append((n, n.targets[0].id, n.value.right))
            elif isinstance(n, ast.Assign) and isinstance(n.targets[0], ast.Name) and isinstance(n.value, ast.Call) and dotted(n.value.func) == 'bytes' and n.value.args and isinstance(n.value.args[0], ast.Name) and 'P' in self.lf.of(n.value):
                self.restarts.append((n, n.targets[0].id, n.value.args[0]))
        self.bufs = {b for _, b, _ in self.grows}
        self.packed = {x.id for _, _, v in self.grows + self.restarts for x in ast.walk(v) if isinstance(x, ast.Name)} - self.bufs
        self.sizes = set(self.loc.from_value(lambda v: isinstance(v, ast.Call) and dotted(v.func) == 'len' and len(v.args) == 1 and isinstance(v.args[0], ast.Name) and v.args[0].id in self.packed))

    def _is_len(self, v: ast.AST) -> bool:
        # `size += len(p)` style counters are not byte buffers
        vals = self.loc.values(v.id) if isinstance(v, ast.Name) else [v]
        return bool(vals) and all((isinstance(x, ast.Call) and dotted(x.func) == 'len') or isinstance(x, ast.Constant) for x in vals)


def names_in_concat(expr: ast.AST) -> set[str]:
    return {n.id for n in ast.walk(expr) if isinstance(n, ast.Name)}


def check(model: Model, run: Run) -> None:
    folder = Folder(model)
    msgs = model.func(UC + '.messages')
    run.analysed(msgs)
    mod = msgs.module

    # ------------------------------------------------------------------ R1 budget accounting
    run.rule(
        'C09.R1',
        'budget accounting in UpdateCollection.messages: room = negotiated.msg_size - (19 header + 2 + 2 length fields) - '
        'len(attributes); the MP generators receive room minus every buffer already concatenated into the same message',
        floor=3,
    )
    ml = Loc(model, msgs)
    roles = Roles(model, msgs)
    attr_names = set(ml.from_value(lambda v: isinstance(v, ast.Call) and isinstance(v.func, ast.Attribute) and v.func.attr == 'pack_attribute'))
    budget = None
    lf = None
    for n in walk_no_nested(msgs.node):
        if isinstance(n, ast.Assign) and isinstance(n.targets[0], ast.Name):
            l = linear(n.value, folder, msgs)
            if l is not None and l[1].get('negotiated.msg_size') == 1:
                budget, lf = n, l
    if budget is None or lf is None:
        run.cannot('budget assignment (room = negotiated.msg_size - ...) not found in messages()')
        return
    room = budget.targets[0].id
    lens = [k for k, c in lf[1].items() if k.startswith('len(') and c == -1]
    ok = lf[0] == -23 and len(lf[1]) == 2 and len(lens) == 1 and lens[0][4:-1] in attr_names
    run.check(ok, msgs.qualname, 'room = negotiated.msg_size - 23 - len(<packed attributes>)  %s' % (lf,), msgs.loc(budget), 'RFC 4271 4.3: 19 octets of header, 2 of withdrawn length, 2 of attribute length, the attributes, then the prefixes')
    # the attributes measured are the ones written
    attr_def = [v for nm in attr_names for v, _, st in ml.defs.get(nm, []) if v is not None and st.lineno < budget.lineno]
    run.check(bool(attr_def) and all(isinstance(v, ast.Call) and v.args and dotted(v.args[0]) == msgs.node.args.args[1].arg for v in attr_def), msgs.qualname, 'attributes packed for this session (pack_attribute(negotiated, ...))', msgs.loc(), 'the measured attributes must be the ones written')
    # MP generators
    for meth, produced in (('packed_reach_attributes', 'mp_reach'), ('packed_unreach_attributes', 'mp_unreach')):
        calls = [c for c in walk_no_nested(msgs.node) if isinstance(c, ast.Call) and isinstance(c.func, ast.Attribute) and c.func.attr == meth]
        if len(calls) != 1 or len(calls[0].args) < 2:
            run.cannot('%s call not understood' % meth)
            continue
        c = calls[0]
        barg = c.args[1]
        barg = ml.resolve(barg)  # a hoisted local is followed
        lfb = linear(barg, folder, msgs)
        counted = set()
        if lfb is not None:
            for term, coef in lfb[1].items():
                if term.startswith('len(') and coef == -1:
                    counted |= {x for x in names_in_concat(ast.parse(term).body[0].value)} - {'len'}
        # the yields inside the for loop of this generator
        pm = parent_map(msgs.node)
        loop = pm.get(id(c))
        while loop is not None and not isinstance(loop, ast.For):
            loop = pm.get(id(loop))
        in_msg: set[str] = set()
        ys = []
        if loop is not None:
            for y in walk_no_nested(loop):
                if isinstance(y, ast.Yield):
                    ys.append(y)
                    in_msg |= names_in_concat(y.value)
        produced_v = {dotted(loop.target)} if loop is not None else set()
        if loop is not None:
            # the attribute this generator yields, and the local it is kept in until the message goes out
            produced_v |= {n.targets[0].id for n in walk_no_nested(loop) if isinstance(n, ast.Assign) and isinstance(n.targets[0], ast.Name) and isinstance(n.value, ast.Name) and n.value.id in produced_v}
        in_msg = {x for x in in_msg if x in ml.defs and x not in attr_names and x not in produced_v}
        ok = lfb is not None and lfb[1].get(room) == 1 and lfb[0] == 0 and counted == in_msg and bool(ys)
        run.check(ok, msgs.qualname, '%s budget = msg_size - len(%s); message also holds %s' % (meth, '+'.join(sorted(counted)), sorted(in_msg)), msgs.loc(c), 'every buffer written into the same UPDATE (%s) must be subtracted from the room given to %s' % (sorted(in_msg), meth))

    # ------------------------------------------------------------------ R6 the classic NLRI field only for routes its NEXT_HOP can describe
    run.rule('C09.R6', 'an announced route is packed into the NLRI field of the UPDATE itself (next hop = the NEXT_HOP attribute, an IPv4 address) only when its own next hop is IPv4: the branch that moves a bare NLRI into that list looks at the next hop of the route', floor=1)
    n6 = 0
    for lp in walk_no_nested(msgs.node):
        if not (isinstance(lp, ast.For) and isinstance(lp.target, ast.Name) and any(isinstance(x, ast.Attribute) and dotted(x) == 'self._announces' for x in ast.walk(lp.iter))):
            continue
        rv = lp.target.id
        nl = [nm for nm in ml.defs if any(isinstance(v, ast.Attribute) and dotted(v) == rv + '.nlri' for v in ml.values(nm))]
        nh = [nm for nm in ml.defs if any(isinstance(v, ast.Attribute) and dotted(v) == rv + '.nexthop' for v in ml.values(nm))]
        for c in walk_no_nested(lp):
            if isinstance(c, ast.Call) and isinstance(c.func, ast.Attribute) and c.func.attr == 'append' and isinstance(c.func.value, ast.Name) and c.args and isinstance(c.args[0], ast.Name) and c.args[0].id in nl:
                n6 += 1
                g6 = [t for t, pol in flat_guards(msgs.node, c) if pol]
                looks = any(ml.depends_on(t, nh + [rv + '.nexthop']) or (rv + '.nexthop') in norm(t) for t in g6)
                run.check(looks, msgs.qualname, 'bare NLRI moved to the NLRI-field list only after looking at the route next hop', msgs.loc(c), 'an IPv4 route whose next hop is IPv6 (RFC 8950 extended next hop) must travel in MP_REACH_NLRI with its own next hop; in the NLRI field it is announced with the NEXT_HOP attribute, which cannot hold it: the route goes out with no usable next hop')
    if n6 == 0:
        run.cannot('messages(): the branch moving announced NLRIs into the NLRI-field list was not found')

    # ------------------------------------------------------------------ R7 nothing is sent twice
    run.rule('C09.R7', 'a buffer that went out in one message is emptied (or restarted with the pending prefix) before the next message that includes it: no route is sent twice and no stale bytes eat the room of the next message', floor=4)
    cfg7 = CFG(msgs.node)
    ynodes = [(y, cfg7.stmt_node_containing(y)) for y in walk_no_nested(msgs.node) if isinstance(y, ast.Yield)]
    n7 = 0
    for y, yn in ynodes:
        if yn is None or y.value is None:
            continue
        inc = {x.id for x in ast.walk(y.value) if isinstance(x, ast.Name)} & roles.bufs
        for b_ in sorted(inc):
            n7 += 1
            resets = {cfg7.node_of(a).id for a in walk_no_nested(msgs.node) if isinstance(a, ast.Assign) and any(isinstance(t, ast.Name) and t.id == b_ for t in a.targets) and cfg7.node_of(a) is not None}
            again = {n2.id for y2, n2 in ynodes if n2 is not None and y2.value is not None and b_ in {x.id for x in ast.walk(y2.value) if isinstance(x, ast.Name)}}
            bad = None
            for succ, lab in yn.succ:
                if lab == 'exc' or succ in resets:
                    continue
                passed, wit = cfg7.all_paths_pass(succ, resets, again)
                if not passed:
                    bad = wit
            run.check(bad is None, msgs.qualname, 'buffer emptied after the message it went out in', msgs.loc(y), 'after this message the buffer `%s` still holds what was just sent and is written again into a later message (%s): those prefixes go out twice and shrink the room handed to the next attribute, which can end in "NLRI too large" with the remaining routes lost' % (b_, ' -> '.join(cfg7.describe_path(bad)[-4:]) if bad else ''))
    if n7 < 4:
        run.cannot('only %d (message, buffer) pairs found in messages()' % n7)

    # ------------------------------------------------------------------ R2 predictor = writer
    run.rule('C09.R2', 'length predictors agree with the writers on the extended-length switch: payload > 255 means a 4-byte attribute header in _attr_len, _attribute_header, Attribute._attribute and Attribute._len', floor=3)
    al = model.func(MPC + '._attr_len')
    ah = model.func(MPC + '._attribute_header')
    run.analysed(al)
    run.analysed(ah)
    def is_length(fi: FuncInfo, name: str) -> bool:
        """the value being measured: the last parameter, or a local holding len(<last parameter>)"""
        p = fi.node.args.args[-1].arg
        if name == p:
            return True
        v = Loc(model, fi).single(name)
        return v is not None and norm(v) == 'len(%s)' % p

    def switch(fi: FuncInfo, e: ast.AST) -> tuple | None:
        """`n + (4 if n > K else 3)` and its spellings -> (K, short, long) with n the function's length parameter"""
        for pat, flip in (('V_n + (E_a if V_n > E_k else E_b)', False), ('V_n + (E_a if V_n <= E_k else E_b)', True), ('V_n + E_a if V_n > E_k else V_n + E_b', False), ('V_n + E_a if V_n <= E_k else V_n + E_b', True)):
            b = amatch(pat, e)
            if b is not None and is_length(fi, str(b['V_n'])):
                k = folder.fold(ast.parse(str(b['E_k']), mode='eval').body, fi.module, fi.cls)
                a = folder.fold(ast.parse(str(b['E_a']), mode='eval').body, fi.module, fi.cls)
                c = folder.fold(ast.parse(str(b['E_b']), mode='eval').body, fi.module, fi.cls)
                return (k, a, c) if flip else (k, c, a)
        return None

    def ret_switch(fi: FuncInfo) -> tuple | None:
        rets = [r for r in walk_no_nested(fi.node) if isinstance(r, ast.Return) and r.value is not None]
        if len(rets) == 1:
            return switch(fi, rets[0].value)
        # if n <= K: return n + 3 ; return n + 4
        for st in fi.node.body:
            if isinstance(st, ast.If) and len(st.body) == 1 and isinstance(st.body[0], ast.Return) and len(rets) == 2:
                other = [r for r in rets if r is not st.body[0]][0]
                for pat, flip in (('V_n <= E_k', True), ('V_n > E_k', False)):
                    b = amatch(pat, st.test)
                    if b is None or not is_length(fi, str(b['V_n'])):
                        continue
                    k = folder.fold(ast.parse(str(b['E_k']), mode='eval').body, fi.module, fi.cls)
                    inc = []
                    for r in (st.body[0], other):
                        bb = amatch('V_n + E_c', r.value, {'V_n': b['V_n']})
                        inc.append(folder.fold(ast.parse(str(bb['E_c']), mode='eval').body, fi.module, fi.cls) if bb else None)
                    return (k, inc[0], inc[1]) if flip else (k, inc[1], inc[0])
        return None

    sw = ret_switch(al)
    run.check(sw == (255, 3, 4), al.qualname, 'predicted size = payload + 3 up to 255, + 4 above (%s)' % (sw,), al.loc(), 'attribute = flag, code, 1 or 2 length octets, payload')

    def writer_switch(fi: FuncInfo) -> tuple | None:
        """the writer: (threshold K, two-octet length used above K, one-octet length used up to K)"""
        p = fi.node.args.args[-1].arg if fi.name == '_attribute_header' else None
        for n in walk_no_nested(fi.node):
            tests = []
            if isinstance(n, ast.If):
                tests = [(n.test, n.body, n.orelse)]
            elif isinstance(n, ast.IfExp):
                tests = [(n.test, [n.body], [n.orelse])]
            for t, yes, no in tests:
                for pat, flip in (('V_n > E_k', False), ('V_n <= E_k', True)):
                    b = amatch(pat, t, ({'V_n': p} if p else None))
                    if b is None:
                        continue
                    k = folder.fold(ast.parse(str(b['E_k']), mode='eval').body, fi.module, fi.cls)
                    big, small = (no, yes) if flip else (yes, no)
                    two = any("pack('!H', %s)" % b['V_n'] in norm(x) for x in big)
                    rest = small if small else [r for r in walk_no_nested(fi.node) if isinstance(r, ast.Return) and all(r is not x and not any(r is y for y in ast.walk(x)) for x in big)]
                    one = any(('bytes([%s])' % b['V_n']) in norm(x) or (', %s])' % b['V_n']) in norm(x) for x in rest)
                    return (k, two, one)
        return None

    ws = writer_switch(ah)
    run.check(ws == (255, True, True), ah.qualname, 'extended header iff length > 255 (%s)' % (ws,), ah.loc(), 'the writer must switch at the same point as _attr_len')
    at = model.func(ATTR + '._attribute')
    ln = model.func(ATTR + '._len')
    run.analysed(at)
    run.analysed(ln)
    wa = writer_switch(at)
    ext_flag = any(isinstance(x, ast.Attribute) and x.attr == 'EXTENDED_LENGTH' for x in ast.walk(at.node))
    if wa is not None and wa[1:] == (False, False):
        # two steps: `if n > K: flag |= EXTENDED_LENGTH` then `if flag & EXTENDED_LENGTH: two octets else one octet`
        sets = [n for n in walk_no_nested(at.node) if isinstance(n, ast.If) and any(isinstance(x, ast.AugAssign) and isinstance(x.op, ast.BitOr) and 'EXTENDED_LENGTH' in norm(x.value) for x in n.body) and amatch('V_n > E_k', n.test) is not None]
        uses = [n for n in walk_no_nested(at.node) if isinstance(n, (ast.If, ast.IfExp)) and isinstance(n.test, ast.BinOp) and isinstance(n.test.op, ast.BitAnd) and 'EXTENDED_LENGTH' in norm(n.test)]
        if len(sets) == 1 and len(uses) == 1:
            nm = str(amatch('V_n > E_k', sets[0].test)['V_n'])  # type: ignore[index]
            u = uses[0]
            yes = u.body if isinstance(u, ast.If) else [u.body]
            no = u.orelse if isinstance(u, ast.If) else [u.orelse]
            wa = (wa[0], any("pack('!H', %s)" % nm in norm(x) for x in yes), any('bytes([%s])' % nm in norm(x) for x in no))
    run.check(wa == (255, True, True) and ext_flag, at.qualname, 'extended length iff length > 255 (%s)' % (wa,), at.loc(), 'RFC 4271 4.3: one length octet up to 255, two with the Extended Length bit')
    sl_ = ret_switch(ln)
    run.check(sl_ == (255, 3, 4), ln.qualname, 'predicted size = length + 3 up to 255, + 4 above (%s)' % (sl_,), ln.loc(), 'Attribute._len must predict what _attribute writes')
    pf = model.func(UC + '.prefix')
    run.check("pack('!H', len(data)) + data" in norm(pf.node), pf.qualname, '2-byte length prefix', pf.loc(), 'withdrawn and attribute sections carry a 2-octet length')

    # ------------------------------------------------------------------ R3 guarded growth
    run.rule('C09.R3', 'a buffer that flows into a yielded message grows only in the satisfied branch of a `current + new <= room` comparison (or the failing branch of `> maximum`)', floor=2)
    _r3_growth(model, run, msgs, room, roles)
    for nm in ('packed_reach_attributes', 'packed_unreach_attributes'):
        f = model.func(MPC + '.' + nm)
        run.analysed(f)
        _r3_growth(model, run, f, f.node.args.args[2].arg, Roles(model, f))

    # ------------------------------------------------------------------ R4 nothing dropped at a split
    run.rule('C09.R4', 'when a message is emitted because the next prefix does not fit, that prefix starts the next buffer (announced = bytes(packed) / payload = header + packed_nlri): nothing is dropped at a split', floor=3)
    _r4_split(model, run, msgs, roles)
    for nm in ('packed_reach_attributes', 'packed_unreach_attributes'):
        f = model.func(MPC + '.' + nm)
        _r4_split(model, run, f, Roles(model, f))

    # ------------------------------------------------------------------ R5 no room => no message
    run.rule('C09.R5', 'when the attributes leave no room nothing is yielded: the negative/zero-room tests return before the first yield, and a first prefix that does not fit returns (or raises) instead of yielding', floor=3)
    cfg = CFG(msgs.node)
    ys = sorted((y for y in walk_no_nested(msgs.node) if isinstance(y, ast.Yield)), key=lambda y: y.lineno)
    after_budget = [y for y in ys if y.lineno > budget.lineno]
    tests = [n for n in msgs.node.body if isinstance(n, ast.If) and n.lineno > budget.lineno and room in ml.reads(n.test) and after_budget and n.lineno < after_budget[0].lineno and isinstance(n.body[-1], ast.Return)]
    covered = set()
    for t in tests:
        for c in (t.test.values if isinstance(t.test, ast.BoolOp) and isinstance(t.test.op, ast.And) else [t.test]):
            for pat, what in (('V_r < 0', {'neg'}), ('V_r <= 0', {'neg', 'zero'}), ('V_r == 0', {'zero'}), ('V_r < 1', {'neg', 'zero'})):
                if amatch(pat, c, {'V_r': room}) is not None:
                    covered |= what
    run.check('neg' in covered, msgs.qualname, 'negative room returns before any message', msgs.loc(tests[0]) if tests else msgs.loc(), 'attributes larger than the message leave nothing to send')
    run.check('zero' in covered, msgs.qualname, 'zero room returns before any message', msgs.loc(tests[0]) if tests else msgs.loc(), 'no prefix can fit')
    # first prefix does not fit: inside each packing loop, an emptiness test on every buffer returns before the split yield
    firsts = []
    for n in walk_no_nested(msgs.node):
        if isinstance(n, ast.If):
            neg_names = set()
            t = n.test
            parts = t.values if isinstance(t, ast.BoolOp) and isinstance(t.op, ast.And) else [t]
            for c in parts:
                if isinstance(c, ast.UnaryOp) and isinstance(c.op, ast.Not):
                    if isinstance(c.operand, ast.Name):
                        neg_names.add(c.operand.id)
                    elif isinstance(c.operand, ast.BoolOp) and isinstance(c.operand.op, ast.Or):
                        neg_names |= {x.id for x in c.operand.values if isinstance(x, ast.Name)}
            if neg_names and neg_names == roles.bufs:
                firsts.append(n)
    run.check(len(firsts) >= 2 and all(isinstance(f.body[-1], ast.Return) for f in firsts), msgs.qualname, 'a first prefix that does not fit returns without a message (%d sites)' % len(firsts), msgs.loc(firsts[0]) if firsts else msgs.loc(), 'an oversized UPDATE must not be produced')
    for nm in ('packed_reach_attributes', 'packed_unreach_attributes'):
        f = model.func(MPC + '.' + nm)
        fr = Roles(model, f)
        g = []
        for n in walk_no_nested(f.node):
            if isinstance(n, ast.If):
                b = amatch('len(V_p) == E_h', n.test)
                if b is not None and b['V_p'] in fr.bufs:
                    g.append(n)
        run.check(len(g) == 1 and isinstance(g[0].body[-1], ast.Raise), f.qualname, 'a first NLRI that does not fit raises', f.loc(g[0]) if g else f.loc(), 'an oversized attribute must not be produced')


def _r3_growth(model: Model, run: Run, fi: FuncInfo, room: str, roles: Roles) -> None:
    if not roles.grows:
        run.cannot('%s: no buffer accumulating packed routes found' % fi.qualname)
    new_names = roles.packed | roles.sizes
    for grow, buf, added in roles.grows:
        g = flat_guards(fi.node, grow)
        ok = False
        for t, pol in g:
            if isinstance(t, ast.Compare) and len(t.ops) == 1:
                rhs = dotted(t.comparators[0]) or ''
                lhs_names = {x.id for x in ast.walk(t.left) if isinstance(x, ast.Name)}
                if rhs == room and (new_names & lhs_names):
                    if isinstance(t.ops[0], ast.LtE) and pol:
                        ok = True
                    if isinstance(t.ops[0], ast.Gt) and not pol:
                        ok = True
        run.check(ok, fi.qualname, 'buffer growth `%s` guarded by the room test' % norm(grow).replace(buf, '<buffer>'), fi.loc(grow), 'the buffer must only grow when current + new fits in the room; guards: %s' % ([(norm(t), p) for t, p in g],))


def _r4_split(model: Model, run: Run, fi: FuncInfo, roles: Roles) -> None:
    pm = parent_map(fi.node)
    n_sites = 0
    for loop in walk_no_nested(fi.node):
        if not isinstance(loop, ast.For):
            continue
        tgt = dotted(loop.target) or ''
        cur = None
        for st in loop.body:
            if isinstance(st, ast.Assign) and isinstance(st.targets[0], ast.Name) and st.targets[0].id in roles.packed:
                cur = st.targets[0].id
        if tgt in roles.packed:
            cur = tgt
        if cur is None:
            continue
        # yields directly in the loop body (after the fit test): the statements after them must restart the buffer with cur
        for y in walk_no_nested(loop):
            if not isinstance(y, ast.Yield):
                continue
            ystmt = pm.get(id(y))
            b = block_of(pm, ystmt) if ystmt is not None else None
            if b is None:
                continue
            owner = b[0]
            # find the enclosing statement list that belongs to the loop body or an if/else inside it
            # statements following (in loop body order) until the end of the iteration
            rest: list[ast.stmt] = []
            node: ast.AST | None = ystmt
            while node is not None and node is not loop:
                bb = block_of(pm, node)
                if bb is None:
                    break
                lst = bb[2]
                rest.extend(lst[lst.index(node) + 1 :])
                node = bb[0]
                if isinstance(node, ast.If):
                    continue
            n_sites += 1
            restart = [s for s in rest if isinstance(s, ast.Assign) and isinstance(s.targets[0], ast.Name) and s.targets[0].id in roles.bufs and cur in {x.id for x in ast.walk(s.value) if isinstance(x, ast.Name)}]
            run.check(
                bool(restart),
                fi.qualname,
                'after the split yield the pending route starts the next buffer',
                fi.loc(ystmt),
                'the prefix that triggered the split (%s) is not carried into the next message: it is lost' % cur,
            )
    if n_sites == 0:
        run.cannot('%s: no split site found' % fi.qualname)


def growth_rule(model: Model, run: Run) -> None:
    """C09.R3 for UpdateCollection.messages alone (shared with C01.R8): what is added to a buffer is measured, for the room
    test, by the bytes packed for THIS session"""
    folder = Folder(model)
    msgs = model.func(UC + '.messages')
    run.analysed(msgs)
    room = None
    for n in walk_no_nested(msgs.node):
        if isinstance(n, ast.Assign) and isinstance(n.targets[0], ast.Name):
            l = linear(n.value, folder, msgs)
            if l is not None and l[1].get('negotiated.msg_size') == 1:
                room = n.targets[0].id
    if room is None:
        run.cannot('budget assignment (room = negotiated.msg_size - ...) not found in messages()')
        return
    _r3_growth(model, run, msgs, room, Roles(model, msgs))
