"""C09 — generated UPDATEs fit the negotiated size and lose nothing.  DESIGN.md 3/C09."""

from __future__ import annotations

import ast

from ..cfg import CFG
from ..const import UNKNOWN, Folder
from ..flow import Slicer, block_of, flat_guards, parent_map
from ..model import FuncInfo, Model, dotted, norm, walk_no_nested
from ..report import Run

UC = 'exabgp.bgp.message.update.collection.UpdateCollection'
MPC = 'exabgp.bgp.message.update.nlri.collection.MPNLRICollection'
ATTR = 'exabgp.bgp.message.update.attribute.attribute.Attribute'


def linear(expr: ast.AST, folder: Folder, fi: FuncInfo) -> tuple[int, dict[str, int]] | None:
    """expr as constant + sum(coef * term text)"""
    v = folder.fold(expr, fi.module, fi.cls)
    if isinstance(v, int) and not isinstance(v, bool):
        return v, {}
    if isinstance(expr, ast.BinOp) and isinstance(expr.op, (ast.Add, ast.Sub)):
        l = linear(expr.left, folder, fi)
        r = linear(expr.right, folder, fi)
        if l is None or r is None:
            return None
        sign = 1 if isinstance(expr.op, ast.Add) else -1
        terms = dict(l[1])
        for k, c in r[1].items():
            terms[k] = terms.get(k, 0) + sign * c
        return l[0] + sign * r[0], {k: c for k, c in terms.items() if c}
    return 0, {norm(expr): 1}


def names_in_concat(expr: ast.AST) -> set[str]:
    return {n.id for n in ast.walk(expr) if isinstance(n, ast.Name)}


def check(model: Model, run: Run) -> None:
    folder = Folder(model)
    msgs = model.func(UC + '.messages')
    run.analysed(msgs)
    mod = msgs.module

    # ------------------------------------------------------------------ R1 budget accounting
    run.rule(
        'C09.R1',
        'budget accounting in UpdateCollection.messages: room = negotiated.msg_size - (19 header + 2 + 2 length fields) - '
        'len(attributes); the MP generators receive room minus every buffer already concatenated into the same message',
        floor=3,
    )
    budget = None
    for n in walk_no_nested(msgs.node):
        if isinstance(n, ast.Assign) and dotted(n.targets[0]) == 'msg_size':
            budget = n
    if budget is None:
        run.cannot('budget assignment (msg_size = ...) not found in messages()')
        return
    lf = linear(budget.value, folder, msgs)
    ok = lf is not None and lf[0] == -23 and lf[1] == {'negotiated.msg_size': 1, 'len(attr)': -1}
    run.check(ok, msgs.qualname, 'room = %s' % (lf,), msgs.loc(budget), 'RFC 4271 4.3: 19 octets of header, 2 of withdrawn length, 2 of attribute length, the attributes, then the prefixes')
    # attr is what goes on the wire
    attr_def = [n for n in walk_no_nested(msgs.node) if isinstance(n, ast.Assign) and dotted(n.targets[0]) == 'attr' and n.lineno < budget.lineno]
    run.check(bool(attr_def) and all('pack_attribute(negotiated' in norm(n.value) for n in attr_def), msgs.qualname, 'attr = self.attributes.pack_attribute(negotiated, ...)', msgs.loc(), 'the measured attributes must be the ones written')
    # MP generators
    for meth, produced in (('packed_reach_attributes', 'mp_reach'), ('packed_unreach_attributes', 'mp_unreach')):
        calls = [c for c in walk_no_nested(msgs.node) if isinstance(c, ast.Call) and isinstance(c.func, ast.Attribute) and c.func.attr == meth]
        if len(calls) != 1 or len(calls[0].args) < 2:
            run.cannot('%s call not understood' % meth)
            continue
        c = calls[0]
        barg = c.args[1]
        if isinstance(barg, ast.Name):
            # a hoisted local: follow it when it has exactly one definition
            ds = [n for n in walk_no_nested(msgs.node) if isinstance(n, ast.Assign) and dotted(n.targets[0]) == barg.id]
            if len(ds) == 1:
                barg = ds[0].value
        lfb = linear(barg, folder, msgs)
        counted = set()
        if lfb is not None:
            for term, coef in lfb[1].items():
                if term.startswith('len(') and coef == -1:
                    counted |= {x for x in names_in_concat(ast.parse(term).body[0].value)} - {'len'}
        # the yields inside the for loop of this generator
        pm = parent_map(msgs.node)
        loop = pm.get(id(c))
        while loop is not None and not isinstance(loop, ast.For):
            loop = pm.get(id(loop))
        in_msg: set[str] = set()
        ys = []
        if loop is not None:
            for y in walk_no_nested(loop):
                if isinstance(y, ast.Yield):
                    ys.append(y)
                    in_msg |= names_in_concat(y.value)
        in_msg -= {'self', 'UpdateCollection', 'attr', produced}
        ok = lfb is not None and lfb[1].get('msg_size') == 1 and lfb[0] == 0 and counted == in_msg and bool(ys)
        run.check(ok, msgs.qualname, '%s budget = msg_size - len(%s); message also holds %s' % (meth, '+'.join(sorted(counted)), sorted(in_msg)), msgs.loc(c), 'every buffer written into the same UPDATE (%s) must be subtracted from the room given to %s' % (sorted(in_msg), meth))

    # ------------------------------------------------------------------ R2 predictor = writer
    run.rule('C09.R2', 'length predictors agree with the writers on the extended-length switch: payload > 255 means a 4-byte attribute header in _attr_len, _attribute_header, Attribute._attribute and Attribute._len', floor=4)
    al = model.func(MPC + '._attr_len')
    ah = model.func(MPC + '._attribute_header')
    run.analysed(al)
    run.analysed(ah)
    ret = [r for r in walk_no_nested(al.node) if isinstance(r, ast.Return)]
    ok = len(ret) == 1 and norm(ret[0].value) in ('payload_len + (4 if payload_len > 255 else 3)', 'payload_len + (3 if payload_len <= 255 else 4)')
    run.check(ok, al.qualname, norm(ret[0]) if ret else 'no return', al.loc(), 'attribute = flag, code, 1 or 2 length octets, payload')
    ifs = [n for n in walk_no_nested(ah.node) if isinstance(n, ast.If)]
    body_txt = ' '.join(norm(s_) for s_ in ifs[0].body) if ifs else ''
    ok = len(ifs) == 1 and norm(ifs[0].test) == 'length > 255' and "pack('!H', length)" in body_txt and ('16' in body_txt or '0x10' in body_txt or 'EXTENDED' in body_txt)
    tail = [r for r in walk_no_nested(ah.node) if isinstance(r, ast.Return)]
    ok = ok and any(norm(r.value) == 'bytes([flag, code, length])' for r in tail)
    run.check(ok, ah.qualname, 'extended header iff length > 255', ah.loc(), 'the writer must switch at the same point as _attr_len')
    mx = folder.resolve_fullname('exabgp.bgp.message.update.attribute.attribute.ATTR_LENGTH_EXTENDED_MAX')
    at = model.func(ATTR + '._attribute')
    ln = model.func(ATTR + '._len')
    run.analysed(at)
    run.analysed(ln)
    ifs = [n for n in walk_no_nested(at.node) if isinstance(n, ast.If) and 'ATTR_LENGTH_EXTENDED_MAX' in norm(n.test)]
    ok = mx == 255 and len(ifs) == 1 and norm(ifs[0].test) == 'length > ATTR_LENGTH_EXTENDED_MAX' and 'EXTENDED_LENGTH' in norm(ifs[0].body[0])
    ok = ok and "pack('!H', length)" in norm(at.node) and 'bytes([length])' in norm(at.node)
    run.check(ok, at.qualname, 'extended length iff length > %s' % mx, at.loc(), 'RFC 4271 4.3: one length octet up to 255, two with the Extended Length bit')
    ret = [r for r in walk_no_nested(ln.node) if isinstance(r, ast.Return)]
    ok = len(ret) == 1 and norm(ret[0].value) in ('length + 3 if length <= ATTR_LENGTH_EXTENDED_MAX else length + 4', 'length + 4 if length > ATTR_LENGTH_EXTENDED_MAX else length + 3')
    run.check(ok, ln.qualname, norm(ret[0]) if ret else 'no return', ln.loc(), 'Attribute._len must predict what _attribute writes')
    pf = model.func(UC + '.prefix')
    run.check("pack('!H', len(data)) + data" in norm(pf.node), pf.qualname, '2-byte length prefix', pf.loc(), 'withdrawn and attribute sections carry a 2-octet length')

    # ------------------------------------------------------------------ R3 guarded growth
    run.rule('C09.R3', 'a buffer that flows into a yielded message grows only in the satisfied branch of a `current + new <= room` comparison (or the failing branch of `> maximum`)', floor=4)
    _r3_growth(model, run, msgs, 'msg_size', ['announced', 'withdraws'])
    for nm in ('packed_reach_attributes', 'packed_unreach_attributes'):
        f = model.func(MPC + '.' + nm)
        run.analysed(f)
        _r3_growth(model, run, f, 'maximum', ['payload'])

    # ------------------------------------------------------------------ R4 nothing dropped at a split
    run.rule('C09.R4', 'when a message is emitted because the next prefix does not fit, that prefix starts the next buffer (announced = bytes(packed) / payload = header + packed_nlri): nothing is dropped at a split', floor=4)
    _r4_split(model, run, msgs, {'announced': 'packed', 'withdraws': 'packed'})
    for nm in ('packed_reach_attributes', 'packed_unreach_attributes'):
        _r4_split(model, run, model.func(MPC + '.' + nm), {'payload': 'packed_nlri'})

    # ------------------------------------------------------------------ R5 no room => no message
    run.rule('C09.R5', 'when the attributes leave no room nothing is yielded: the negative/zero-room tests return before the first yield, and a first prefix that does not fit returns (or raises) instead of yielding', floor=4)
    cfg = CFG(msgs.node)
    ys = sorted((y for y in walk_no_nested(msgs.node) if isinstance(y, ast.Yield)), key=lambda y: y.lineno)
    after_budget = [y for y in ys if y.lineno > budget.lineno]
    tests = [n for n in msgs.node.body if isinstance(n, ast.If) and n.lineno > budget.lineno and 'msg_size' in norm(n.test) and after_budget and n.lineno < after_budget[0].lineno]
    neg = any(norm(t.test) in ('msg_size < 0', 'msg_size <= 0') and isinstance(t.body[-1], ast.Return) for t in tests)
    zero = any(('msg_size == 0' in norm(t.test) or norm(t.test) == 'msg_size <= 0') and isinstance(t.body[-1], ast.Return) for t in tests)
    run.check(neg, msgs.qualname, 'negative room returns before any message', msgs.loc(tests[0]) if tests else msgs.loc(), 'attributes larger than the message leave nothing to send')
    run.check(zero, msgs.qualname, 'zero room returns before any message', msgs.loc(tests[0]) if tests else msgs.loc(), 'no prefix can fit')
    # first prefix does not fit
    firsts = [n for n in walk_no_nested(msgs.node) if isinstance(n, ast.If) and norm(n.test) in ('not withdraws and (not announced)', 'not withdraws and not announced', 'not (withdraws or announced)')]
    run.check(len(firsts) >= 2 and all(isinstance(f.body[-1], ast.Return) for f in firsts), msgs.qualname, 'a first prefix that does not fit returns without a message (%d sites)' % len(firsts), msgs.loc(firsts[0]) if firsts else msgs.loc(), 'an oversized UPDATE must not be produced')
    for nm in ('packed_reach_attributes', 'packed_unreach_attributes'):
        f = model.func(MPC + '.' + nm)
        g = [n for n in walk_no_nested(f.node) if isinstance(n, ast.If) and norm(n.test) == 'len(payload) == header_length']
        run.check(len(g) == 1 and isinstance(g[0].body[-1], ast.Raise), f.qualname, 'a first NLRI that does not fit raises', f.loc(g[0]) if g else f.loc(), 'an oversized attribute must not be produced')


def _r3_growth(model: Model, run: Run, fi: FuncInfo, room: str, bufs: list[str]) -> None:
    for n in walk_no_nested(fi.node):
        grow = None
        if isinstance(n, ast.AugAssign) and isinstance(n.op, ast.Add) and isinstance(n.target, ast.Name) and n.target.id in bufs:
            grow = n
        if isinstance(n, ast.Assign) and isinstance(n.targets[0], ast.Name) and n.targets[0].id in bufs and isinstance(n.value, ast.BinOp) and isinstance(n.value.op, ast.Add) and dotted(n.value.left) == n.targets[0].id:
            grow = n
        if grow is None:
            continue
        g = flat_guards(fi.node, grow)
        ok = False
        for t, pol in g:
            if isinstance(t, ast.Compare) and len(t.ops) == 1:
                rhs = dotted(t.comparators[0]) or ''
                lhs_names = {x.id for x in ast.walk(t.left) if isinstance(x, ast.Name)}
                new = {'packed_size', 'packed', 'packed_nlri'} & lhs_names
                if rhs == room and new:
                    if isinstance(t.ops[0], ast.LtE) and pol:
                        ok = True
                    if isinstance(t.ops[0], ast.Gt) and not pol:
                        ok = True
        run.check(ok, fi.qualname, '%s guarded by the room test' % norm(grow), fi.loc(grow), 'the buffer must only grow when current + new fits in %s; guards: %s' % (room, [(norm(t), p) for t, p in g]))


def _r4_split(model: Model, run: Run, fi: FuncInfo, carry: dict[str, str]) -> None:
    pm = parent_map(fi.node)
    n_sites = 0
    for loop in walk_no_nested(fi.node):
        if not isinstance(loop, ast.For):
            continue
        tgt = dotted(loop.target) or ''
        cur = None
        for st in loop.body:
            if isinstance(st, ast.Assign) and isinstance(st.targets[0], ast.Name) and st.targets[0].id in carry.values():
                cur = st.targets[0].id
        if tgt in carry.values():
            cur = tgt
        if cur is None:
            continue
        # yields directly in the loop body (after the fit test): the statements after them must restart the buffer with cur
        for y in walk_no_nested(loop):
            if not isinstance(y, ast.Yield):
                continue
            ystmt = pm.get(id(y))
            b = block_of(pm, ystmt) if ystmt is not None else None
            if b is None:
                continue
            owner = b[0]
            # find the enclosing statement list that belongs to the loop body or an if/else inside it
            # statements following (in loop body order) until the end of the iteration
            rest: list[ast.stmt] = []
            node: ast.AST | None = ystmt
            while node is not None and node is not loop:
                bb = block_of(pm, node)
                if bb is None:
                    break
                lst = bb[2]
                rest.extend(lst[lst.index(node) + 1 :])
                node = bb[0]
                if isinstance(node, ast.If):
                    continue
            n_sites += 1
            restart = [s for s in rest if isinstance(s, ast.Assign) and isinstance(s.targets[0], ast.Name) and s.targets[0].id in carry and cur in {x.id for x in ast.walk(s.value) if isinstance(x, ast.Name)}]
            run.check(
                bool(restart),
                fi.qualname,
                'after the split yield at line %d the pending %s starts the next buffer' % (y.lineno, cur),
                fi.loc(ystmt),
                'the prefix that triggered the split (%s) is not carried into the next message: it is lost' % cur,
            )
    if n_sites == 0:
        run.cannot('%s: no split site found' % fi.qualname)
