"""C09 — generated UPDATEs fit the negotiated size and lose nothing.  DESIGN.md 3/C09."""

from __future__ import annotations

import ast

from ..alpha import Loc, afind, amatch
from ..cfg import CFG
from ..const import UNKNOWN, Folder
from ..flow import Slicer, block_of, flat_guards, parent_map
from ..labels import LabelFlow
from ..model import FuncInfo, Model, dotted, norm, walk_no_nested
from ..report import Run
from .common import short

UC = 'exabgp.bgp.message.update.collection.UpdateCollection'
MPC = 'exabgp.bgp.message.update.nlri.collection.MPNLRICollection'
ATTR = 'exabgp.bgp.message.update.attribute.attribute.Attribute'


def linear(expr: ast.AST, folder: Folder, fi: FuncInfo) -> tuple[int, dict[str, int]] | None:
    """expr as constant + sum(coef * term text)"""
    v = folder.fold(expr, fi.module, fi.cls)
    if isinstance(v, int) and not isinstance(v, bool):
        return v, {}
    if isinstance(expr, ast.BinOp) and isinstance(expr.op, (ast.Add, ast.Sub)):
        l = linear(expr.left, folder, fi)
        r = linear(expr.right, folder, fi)
        if l is None or r is None:
            return None
        sign = 1 if isinstance(expr.op, ast.Add) else -1
        terms = dict(l[1])
        for k, c in r[1].items():
            terms[k] = terms.get(k, 0) + sign * c
        return l[0] + sign * r[0], {k: c for k, c in terms.items() if c}
    return 0, {norm(expr): 1}



class Roles:
    """Who is who in a packing loop, found by what the variables hold (never by their names):

    packed  : locals bound to the bytes of ONE route - the result of pack_nlri(...), or the loop variable over a list of
              such results
    sizes   : locals bound to len(<packed>)
    bufs    : locals that accumulate packed routes (`b += p`, `b = b + p`, `b = header + p`) and reach a yield
    grows   : the accumulating statements (statement, buffer, added expression)
    """

    def __init__(self, model: Model, fi: FuncInfo) -> None:
        self.fi = fi
        self.loc = Loc(model, fi)

        def seed(e: ast.AST) -> tuple[str, ...]:
            if isinstance(e, ast.Call) and isinstance(e.func, ast.Attribute) and e.func.attr == 'pack_nlri':
                return ('P',)
            return ()

        self.lf = LabelFlow(fi.node, seed)
        self.grows: list[tuple[ast.stmt, str, ast.AST]] = []
        self.restarts: list[tuple[ast.stmt, str, ast.AST]] = []
        for n in walk_no_nested(fi.node):
            if isinstance(n, ast.AugAssign) and isinstance(n.op, ast.Add) and isinstance(n.target, ast.Name) and 'P' in self.lf.of(n.value) and not self._is_len(n.value):
                self.grows.append((n, n.target.id, n.value))
            elif isinstance(n, ast.Assign) and isinstance(n.targets[0], ast.Name) and isinstance(n.value, ast.BinOp) and isinstance(n.value.op, ast.Add) and 'P' in self.lf.of(n.value.right) and not self._is_len(n.value.right):
                if dotted(n.value.left) == n.targets[0].id:
                    self.grows.append((n, n.targets[0].id, n.value.right))
                else:
                    self.restarts.append((n, n.targets[0].id, n.value.right))
            elif isinstance(n, ast.Assign) and isinstance(n.targets[0], ast.Name) and isinstance(n.value, ast.Call) and dotted(n.value.func) == 'bytes' and n.value.args and isinstance(n.value.args[0], ast.Name) and 'P' in self.lf.of(n.value):
                self.restarts.append((n, n.targets[0].id, n.value.args[0]))
        self.bufs = {b for _, b, _ in self.grows}
        self.packed = {x.id for _, _, v in self.grows + self.restarts for x in ast.walk(v) if isinstance(x, ast.Name)} - self.bufs
        self.sizes = set(self.loc.from_value(lambda v: isinstance(v, ast.Call) and dotted(v.func) == 'len' and len(v.args) == 1 and isinstance(v.args[0], ast.Name) and v.args[0].id in self.packed))

    def _is_len(self, v: ast.AST) -> bool:
        # `size += len(p)` style counters are not byte buffers
        vals = self.loc.values(v.id) if isinstance(v, ast.Name) else [v]
        return bool(vals) and all((isinstance(x, ast.Call) and dotted(x.func) == 'len') or isinstance(x, ast.Constant) for x in vals)


def names_in_concat(expr: ast.AST) -> set[str]:
    return {n.id for n in ast.walk(expr) if isinstance(n, ast.Name)}


def check(model: Model, run: Run) -> None:
    folder = Folder(model)
    msgs = model.func(UC + '.messages')
    run.analysed(msgs)
    mod = msgs.module

    # ------------------------------------------------------------------ R1 budget accounting
    run.rule(
        'C09.R1',
        'budget accounting in UpdateCollection.messages: room = negotiated.msg_size - (19 header + 2 + 2 length fields) - '
        'len(attributes); the MP generators receive room minus every buffer already concatenated into the same message',
        floor=3,
    )
    ml = Loc(model, msgs)
    roles = Roles(model, msgs)
    attr_names = set(ml.from_value(lambda v: isinstance(v, ast.Call) and isinstance(v.func, ast.Attribute) and v.func.attr == 'pack_attribute'))
    budget = None
    lf = None
    for n in walk_no_nested(msgs.node):
        if isinstance(n, ast.Assign) and isinstance(n.targets[0], ast.Name):
            l = linear(n.value, folder, msgs)
            if l is not None and l[1].get('negotiated.msg_size') == 1:
                budget, lf = n, l
    if budget is None or lf is None:
        run.cannot('budget assignment (room = negotiated.msg_size - ...) not found in messages()')
        return
    room = budget.targets[0].id
    lens = [k for k, c in lf[1].items() if k.startswith('len(') and c == -1]
    ok = lf[0] == -23 and len(lf[1]) == 2 and len(lens) == 1 and lens[0][4:-1] in attr_names
    run.check(ok, msgs.qualname, 'room = negotiated.msg_size - 23 - len(<packed attributes>)  %s' % (lf,), msgs.loc(budget), 'RFC 4271 4.3: 19 octets of header, 2 of withdrawn length, 2 of attribute length, the attributes, then the prefixes')
    # the attributes measured are the ones written
    attr_def = [v for nm in attr_names for v, _, st in ml.defs.get(nm, []) if v is not None and st.lineno < budget.lineno]
    run.check(bool(attr_def) and all(isinstance(v, ast.Call) and v.args and dotted(v.args[0]) == msgs.node.args.args[1].arg for v in attr_def), msgs.qualname, 'attributes packed for this session (pack_attribute(negotiated, ...))', msgs.loc(), 'the measured attributes must be the ones written')
    # MP generators
    for meth, produced in (('packed_reach_attributes', 'mp_reach'), ('packed_unreach_attributes', 'mp_unreach')):
        calls = [c for c in walk_no_nested(msgs.node) if isinstance(c, ast.Call) and isinstance(c.func, ast.Attribute) and c.func.attr == meth]
        if len(calls) != 1 or len(calls[0].args) < 2:
            run.cannot('%s call not understood' % meth)
            continue
        c = calls[0]
        barg = c.args[1]
        barg = ml.resolve(barg)  # a hoisted local is followed
        lfb = linear(barg, folder, msgs)
        counted = set()
        if lfb is not None:
            for term, coef in lfb[1].items():
                if term.startswith('len(') and coef == -1:
                    counted |= {x for x in names_in_concat(ast.parse(term).body[0].value)} - {'len'}
        # the yields inside the for loop of this generator
        pm = parent_map(msgs.node)
        loop = pm.get(id(c))
        while loop is not None and not isinstance(loop, ast.For):
            loop = pm.get(id(loop))
        in_msg: set[str] = set()
        ys = []
        if loop is not None:
            for y in walk_no_nested(loop):
                if isinstance(y, ast.Yield):
                    ys.append(y)
                    in_msg |= names_in_concat(y.value)
        produced_v = {dotted(loop.target)} if loop is not None else set()
        if loop is not None:
            # the attribute this generator yields, and the local it is kept in until the message goes out
            produced_v |= {n.targets[0].id for n in walk_no_nested(loop) if isinstance(n, ast.Assign) and isinstance(n.targets[0], ast.Name) and isinstance(n.value, ast.Name) and n.value.id in produced_v}
        in_msg = {x for x in in_msg if x in ml.defs and x not in attr_names and x not in produced_v}
        ok = lfb is not None and lfb[1].get(room) == 1 and lfb[0] == 0 and counted == in_msg and bool(ys)
        run.check(ok, msgs.qualname, '%s budget = msg_size - len(%s); message also holds %s' % (meth, '+'.join(sorted(counted)), sorted(in_msg)), msgs.loc(c), 'every buffer written into the same UPDATE (%s) must be subtracted from the room given to %s' % (sorted(in_msg), meth))

    # ------------------------------------------------------------------ R6 the classic NLRI field only for routes its NEXT_HOP can describe
    run.rule('C09.R6', 'an announced route is packed into the NLRI field of the UPDATE itself (next hop = the NEXT_HOP attribute, an IPv4 address) only when its own next hop is IPv4: the branch that moves a bare NLRI into that list looks at the next hop of the route', floor=1)
    n6 = 0
    for lp in walk_no_nested(msgs.node):
        if not (isinstance(lp, ast.For) and isinstance(lp.target, ast.Name) and any(isinstance(x, ast.Attribute) and dotted(x) == 'self._announces' for x in ast.walk(lp.iter))):
            continue
        rv = lp.target.id
        nl = [nm for nm in ml.defs if any(isinstance(v, ast.Attribute) and dotted(v) == rv + '.nlri' for v in ml.values(nm))]
        nh = [nm for nm in ml.defs if any(isinstance(v, ast.Attribute) and dotted(v) == rv + '.nexthop' for v in ml.values(nm))]
        for c in walk_no_nested(lp):
            if isinstance(c, ast.Call) and isinstance(c.func, ast.Attribute) and c.func.attr == 'append' and isinstance(c.func.value, ast.Name) and c.args and isinstance(c.args[0], ast.Name) and c.args[0].id in nl:
                n6 += 1
                g6 = [t for t, pol in flat_guards(msgs.node, c) if pol]
                looks = any(ml.depends_on(t, nh + [rv + '.nexthop']) or (rv + '.nexthop') in norm(t) for t in g6)
                run.check(looks, msgs.qualname, 'bare NLRI moved to the NLRI-field list only after looking at the route next hop', msgs.loc(c), 'an IPv4 route whose next hop is IPv6 (RFC 8950 extended next hop) must travel in MP_REACH_NLRI with its own next hop; in the NLRI field it is announced with the NEXT_HOP attribute, which cannot hold it: the route goes out with no usable next hop')
    if n6 == 0:
        run.cannot('messages(): the branch moving announced NLRIs into the NLRI-field list was not found')

    # ------------------------------------------------------------------ R8 announced routes go out with their attributes
    run.rule(
        'C09.R8',
        'the path attributes are packed (with the RFC defaults) whenever the collection announces something: the flag handed '
        'to AttributeCollection.pack_attribute can be false only when both the IPv4 and the MP announce lists are empty '
        '(RFC 4760: an UPDATE with MP_UNREACH_NLRI alone needs no other attribute)',
        floor=2,
    )
    _r8_defaults(model, run, folder, msgs)

    # ------------------------------------------------------------------ R7 nothing is sent twice
    run.rule('C09.R7', 'a buffer that went out in one message is emptied (or restarted with the pending prefix) before the next message that includes it: no route is sent twice and no stale bytes eat the room of the next message', floor=4)
    cfg7 = CFG(msgs.node)
    ynodes = [(y, cfg7.stmt_node_containing(y)) for y in walk_no_nested(msgs.node) if isinstance(y, ast.Yield)]
    n7 = 0
    for y, yn in ynodes:
        if yn is None or y.value is None:
            continue
        inc = {x.id for x in ast.walk(y.value) if isinstance(x, ast.Name)} & roles.bufs
        for b_ in sorted(inc):
            n7 += 1
            resets = {cfg7.node_of(a).id for a in walk_no_nested(msgs.node) if isinstance(a, ast.Assign) and any(isinstance(t, ast.Name) and t.id == b_ for t in a.targets) and cfg7.node_of(a) is not None}
            again = {n2.id for y2, n2 in ynodes if n2 is not None and y2.value is not None and b_ in {x.id for x in ast.walk(y2.value) if isinstance(x, ast.Name)}}
            bad = None
            for succ, lab in yn.succ:
                if lab == 'exc' or succ in resets:
                    continue
                passed, wit = cfg7.all_paths_pass(succ, resets, again)
                if not passed:
                    bad = wit
            run.check(bad is None, msgs.qualname, 'buffer emptied after the message it went out in', msgs.loc(y), 'after this message the buffer `%s` still holds what was just sent and is written again into a later message (%s): those prefixes go out twice and shrink the room handed to the next attribute, which can end in "NLRI too large" with the remaining routes lost' % (b_, ' -> '.join(cfg7.describe_path(bad)[-4:]) if bad else ''))
    if n7 < 4:
        run.cannot('only %d (message, buffer) pairs found in messages()' % n7)

    # ------------------------------------------------------------------ R2 predictor = writer
    run.rule('C09.R2', 'length predictors agree with the writers on the extended-length switch: payload > 255 means a 4-byte attribute header in _attr_len, _attribute_header, Attribute._attribute and Attribute._len', floor=3)
    al = model.func(MPC + '._attr_len')
    ah = model.func(MPC + '._attribute_header')
    run.analysed(al)
    run.analysed(ah)
    # the four functions are evaluated on the syntax tree for the boundary lengths (sa/evalfn.py): what they compute
    # matters, not how it is spelt
    from ..const import ClassRef
    from ..evalfn import eval_function

    def lastp(fi: FuncInfo) -> str:
        return fi.node.args.args[-1].arg

    got = {n: eval_function(folder, al, {lastp(al): n}) for n in (0, 1, 255, 256, 4000)}
    want = {0: 3, 1: 4, 255: 258, 256: 260, 4000: 4004}
    run.check(got == want, al.qualname, 'predicted size = payload + 3 up to 255, + 4 above (%s)' % (got,), al.loc(), 'attribute = flag, code, 1 or 2 length octets, payload')

    def header_ok(fi: FuncInfo) -> tuple[bool, dict]:
        ps = [a.arg for a in fi.node.args.args if a.arg not in ('self', 'cls')]
        seen = {}
        ok = len(ps) == 2
        for n in (0, 255, 256, 4000):
            v = eval_function(folder, fi, {ps[0]: 14, ps[1]: n}) if ok else UNKNOWN
            seen[n] = v.hex() if isinstance(v, bytes) else repr(v)
            if not isinstance(v, bytes):
                ok = False
            elif n <= 255:
                ok = ok and len(v) == 3 and v[1] == 14 and v[2] == n and not v[0] & 0x10
            else:
                ok = ok and len(v) == 4 and v[1] == 14 and v[2:] == n.to_bytes(2, 'big') and bool(v[0] & 0x10)
        return ok, seen

    okh, seenh = header_ok(ah)
    run.check(okh, ah.qualname, 'extended header iff length > 255 (%s)' % (seenh,), ah.loc(), 'the writer must switch at the same point as _attr_len')
    at = model.func(ATTR + '._attribute')
    ln = model.func(ATTR + '._len')
    run.analysed(at)
    run.analysed(ln)
    # a concrete attribute class whose FLAG and ID fold (the method reads them through its first parameter)
    concrete = next((q for q, c in sorted(model.classes.items()) if model.is_subclass(q, ATTR) and q != ATTR and isinstance(folder.class_attr(q, 'ID'), int) and isinstance(folder.class_attr(q, 'FLAG'), int) and not folder.class_attr(q, 'FLAG') & 0x10), None)
    oka = concrete is not None
    seena = {}
    if concrete is not None:
        first = at.node.args.args[0].arg
        aid = folder.class_attr(concrete, 'ID')
        for n in (1, 255, 256, 4000):
            v = eval_function(folder, at, {first: ClassRef(concrete), lastp(at): bytes(n)})
            seena[n] = v[:4].hex() if isinstance(v, bytes) else repr(v)
            if not isinstance(v, bytes):
                oka = False
            elif n <= 255:
                oka = oka and len(v) == n + 3 and v[1] == aid and v[2] == n and not v[0] & 0x10
            else:
                oka = oka and len(v) == n + 4 and v[1] == aid and v[2:4] == n.to_bytes(2, 'big') and bool(v[0] & 0x10)
    run.check(oka, at.qualname, 'extended length iff length > 255 (%s: %s)' % (short(concrete) if concrete else None, seena), at.loc(), 'RFC 4271 4.3: one length octet up to 255, two with the Extended Length bit')
    gotl = {n: eval_function(folder, ln, {lastp(ln): bytes(n)}) for n in (0, 255, 256, 4000)}
    run.check(gotl == {0: 3, 255: 258, 256: 260, 4000: 4004}, ln.qualname, 'predicted size = length + 3 up to 255, + 4 above (%s)' % (gotl,), ln.loc(), 'Attribute._len must predict what _attribute writes')
    pf = model.func(UC + '.prefix')
    run.check("pack('!H', len(data)) + data" in norm(pf.node), pf.qualname, '2-byte length prefix', pf.loc(), 'withdrawn and attribute sections carry a 2-octet length')

    # ------------------------------------------------------------------ R3 guarded growth
    run.rule('C09.R3', 'a buffer that flows into a yielded message grows only in the satisfied branch of a `current + new <= room` comparison (or the failing branch of `> maximum`)', floor=2)
    _r3_growth(model, run, msgs, room, roles)
    for nm in ('packed_reach_attributes', 'packed_unreach_attributes'):
        f = model.func(MPC + '.' + nm)
        run.analysed(f)
        _r3_growth(model, run, f, f.node.args.args[2].arg, Roles(model, f))

    # ------------------------------------------------------------------ R4 nothing dropped at a split
    run.rule('C09.R4', 'when a message is emitted because the next prefix does not fit, that prefix starts the next buffer (announced = bytes(packed) / payload = header + packed_nlri): nothing is dropped at a split', floor=3)
    _r4_split(model, run, msgs, roles)
    for nm in ('packed_reach_attributes', 'packed_unreach_attributes'):
        f = model.func(MPC + '.' + nm)
        _r4_split(model, run, f, Roles(model, f))

    # ------------------------------------------------------------------ R5 no room => no message
    run.rule('C09.R5', 'when the attributes leave no room nothing is yielded: the negative/zero-room tests return before the first yield, and a first prefix that does not fit returns (or raises) instead of yielding', floor=3)
    cfg = CFG(msgs.node)
    ys = sorted((y for y in walk_no_nested(msgs.node) if isinstance(y, ast.Yield)), key=lambda y: y.lineno)
    after_budget = [y for y in ys if y.lineno > budget.lineno]
    tests = [n for n in msgs.node.body if isinstance(n, ast.If) and n.lineno > budget.lineno and room in ml.reads(n.test) and after_budget and n.lineno < after_budget[0].lineno and isinstance(n.body[-1], ast.Return)]
    covered = set()
    for t in tests:
        # the test is evaluated for room = -1 and room = 0 with something to send (every other name true)
        others = {x.id: True for x in ast.walk(t.test) if isinstance(x, ast.Name) and x.id != room}
        for val, what in ((-1, 'neg'), (0, 'zero')):
            if folder.fold(t.test, msgs.module, msgs.cls, dict(others, **{room: val})) is True:
                covered.add(what)
    run.check('neg' in covered, msgs.qualname, 'negative room returns before any message', msgs.loc(tests[0]) if tests else msgs.loc(), 'attributes larger than the message leave nothing to send')
    run.check('zero' in covered, msgs.qualname, 'zero room returns before any message', msgs.loc(tests[0]) if tests else msgs.loc(), 'no prefix can fit')
    # first prefix does not fit: inside each packing loop, an emptiness test on every buffer returns before the split yield
    firsts = []
    for n in walk_no_nested(msgs.node):
        if isinstance(n, ast.If):
            neg_names = set()
            t = n.test
            parts = t.values if isinstance(t, ast.BoolOp) and isinstance(t.op, ast.And) else [t]
            for c in parts:
                if isinstance(c, ast.UnaryOp) and isinstance(c.op, ast.Not):
                    if isinstance(c.operand, ast.Name):
                        neg_names.add(c.operand.id)
                    elif isinstance(c.operand, ast.BoolOp) and isinstance(c.operand.op, ast.Or):
                        neg_names |= {x.id for x in c.operand.values if isinstance(x, ast.Name)}
            if neg_names and neg_names == roles.bufs:
                firsts.append(n)
    run.check(len(firsts) >= 2 and all(isinstance(f.body[-1], ast.Return) for f in firsts), msgs.qualname, 'a first prefix that does not fit returns without a message (%d sites)' % len(firsts), msgs.loc(firsts[0]) if firsts else msgs.loc(), 'an oversized UPDATE must not be produced')
    for nm in ('packed_reach_attributes', 'packed_unreach_attributes'):
        f = model.func(MPC + '.' + nm)
        fr = Roles(model, f)
        g = []
        for n in walk_no_nested(f.node):
            if isinstance(n, ast.If):
                b = amatch('len(V_p) == E_h', n.test)
                if b is not None and b['V_p'] in fr.bufs:
                    g.append(n)
        run.check(len(g) == 1 and isinstance(g[0].body[-1], ast.Raise), f.qualname, 'a first NLRI that does not fit raises', f.loc(g[0]) if g else f.loc(), 'an oversized attribute must not be produced')


def _r3_growth(model: Model, run: Run, fi: FuncInfo, room: str, roles: Roles) -> None:
    if not roles.grows:
        run.cannot('%s: no buffer accumulating packed routes found' % fi.qualname)
    new_names = roles.packed | roles.sizes
    for grow, buf, added in roles.grows:
        g = flat_guards(fi.node, grow)
        ok = False
        for t, pol in g:
            if isinstance(t, ast.Compare) and len(t.ops) == 1:
                rhs = dotted(t.comparators[0]) or ''
                lhs_names = {x.id for x in ast.walk(t.left) if isinstance(x, ast.Name)}
                if rhs == room and (new_names & lhs_names):
                    if isinstance(t.ops[0], ast.LtE) and pol:
                        ok = True
                    if isinstance(t.ops[0], ast.Gt) and not pol:
                        ok = True
        run.check(ok, fi.qualname, 'buffer growth `%s` guarded by the room test' % norm(grow).replace(buf, '<buffer>'), fi.loc(grow), 'the buffer must only grow when current + new fits in the room; guards: %s' % ([(norm(t), p) for t, p in g],))


def _r4_split(model: Model, run: Run, fi: FuncInfo, roles: Roles) -> None:
    pm = parent_map(fi.node)
    n_sites = 0
    for loop in walk_no_nested(fi.node):
        if not isinstance(loop, ast.For):
            continue
        tgt = dotted(loop.target) or ''
        cur = None
        for st in loop.body:
            if isinstance(st, ast.Assign) and isinstance(st.targets[0], ast.Name) and st.targets[0].id in roles.packed:
                cur = st.targets[0].id
        if tgt in roles.packed:
            cur = tgt
        if cur is None:
            continue
        # yields directly in the loop body (after the fit test): the statements after them must restart the buffer with cur
        for y in walk_no_nested(loop):
            if not isinstance(y, ast.Yield):
                continue
            ystmt = pm.get(id(y))
            b = block_of(pm, ystmt) if ystmt is not None else None
            if b is None:
                continue
            owner = b[0]
            # find the enclosing statement list that belongs to the loop body or an if/else inside it
            # statements following (in loop body order) until the end of the iteration
            rest: list[ast.stmt] = []
            node: ast.AST | None = ystmt
            while node is not None and node is not loop:
                bb = block_of(pm, node)
                if bb is None:
                    break
                lst = bb[2]
                rest.extend(lst[lst.index(node) + 1 :])
                node = bb[0]
                if isinstance(node, ast.If):
                    continue
            n_sites += 1
            restart = [s for s in rest if isinstance(s, ast.Assign) and isinstance(s.targets[0], ast.Name) and s.targets[0].id in roles.bufs and cur in {x.id for x in ast.walk(s.value) if isinstance(x, ast.Name)}]
            run.check(
                bool(restart),
                fi.qualname,
                'after the split yield the pending route starts the next buffer',
                fi.loc(ystmt),
                'the prefix that triggered the split (%s) is not carried into the next message: it is lost' % cur,
            )
    if n_sites == 0:
        run.cannot('%s: no split site found' % fi.qualname)


def growth_rule(model: Model, run: Run) -> None:
    """C09.R3 for UpdateCollection.messages alone (shared with C01.R8): what is added to a buffer is measured, for the room
    test, by the bytes packed for THIS session"""
    folder = Folder(model)
    msgs = model.func(UC + '.messages')
    run.analysed(msgs)
    room = None
    for n in walk_no_nested(msgs.node):
        if isinstance(n, ast.Assign) and isinstance(n.targets[0], ast.Name):
            l = linear(n.value, folder, msgs)
            if l is not None and l[1].get('negotiated.msg_size') == 1:
                room = n.targets[0].id
    if room is None:
        run.cannot('budget assignment (room = negotiated.msg_size - ...) not found in messages()')
        return
    _r3_growth(model, run, msgs, room, Roles(model, msgs))


# ---------------------------------------------------------------------------------------------- R8
def _r8_defaults(model: Model, run: Run, folder: Folder, msgs: FuncInfo) -> None:
    import itertools

    from ..flow import conjuncts

    ml = Loc(model, msgs)
    pm = parent_map(msgs.node)
    # the announce lists: what the loop over self._announces appends to
    conts: set[str] = set()
    for n in walk_no_nested(msgs.node):
        if isinstance(n, (ast.For, ast.AsyncFor)) and '_announces' in norm(n.iter):
            for c in ast.walk(n):
                if isinstance(c, ast.Call) and isinstance(c.func, ast.Attribute) and c.func.attr == 'append':
                    r = c.func.value
                    while isinstance(r, ast.Call) and isinstance(r.func, ast.Attribute):
                        r = r.func.value
                    if isinstance(r, ast.Name):
                        conts.add(r.id)
    if len(conts) < 2:
        run.cannot('announce lists of UpdateCollection.messages not found (%s)' % sorted(conts))
        return

    def atoms_and_eval(e: ast.AST):
        """boolean structure of e over atoms (text of the maximal non-boolean subexpressions)"""
        atoms: set[str] = set()

        def build(x: ast.AST):
            if isinstance(x, ast.BoolOp):
                parts = [build(v) for v in x.values]
                if isinstance(x.op, ast.And):
                    return lambda a: all(p(a) for p in parts)
                return lambda a: any(p(a) for p in parts)
            if isinstance(x, ast.UnaryOp) and isinstance(x.op, ast.Not):
                inner = build(x.operand)
                return lambda a: not inner(a)
            if isinstance(x, ast.Call) and isinstance(x.func, ast.Name) and x.func.id in ('bool', 'len') and len(x.args) == 1:
                return build(x.args[0])
            if isinstance(x, ast.Constant):
                return lambda a, v=bool(x.value): v
            if isinstance(x, ast.Name) and x.id not in conts:
                vs = ml.values(x.id)
                if len(vs) == 1 and not isinstance(vs[0], ast.Name):
                    return build(vs[0])
            key = norm(x)
            atoms.add(key)
            return lambda a, key=key: a[key]

        return build(e), atoms

    def can_be_false_while_announcing(e: ast.AST) -> dict | None:
        f, atoms = atoms_and_eval(e)
        free = sorted(atoms)
        for c in sorted(conts):
            others = [a for a in free if a != c]
            for vals in itertools.product([False, True], repeat=len(others)):
                env = dict(zip(others, vals))
                env[c] = True
                if not f(env):
                    return env
        return None

    calls = [c for c in model.calls_to(msgs.module, msgs.node, 'AttributeCollection.pack_attribute')]
    n = 0
    for c in calls:
        arg = c.args[1] if len(c.args) > 1 else next((k.value for k in c.keywords if k.arg == 'with_default'), None)
        if arg is None or isinstance(arg, ast.Constant):
            if arg is not None:
                n += 1
                run.check(arg.value is True or all(any(isinstance(t, ast.Name) and t.id == k and not pol or norm(t) == 'not ' + k and pol for t, pol in flat_guards(msgs.node, c, pm)) for k in conts), msgs.qualname, 'pack_attribute(with_default=%r)' % arg.value, msgs.loc(c), 'attributes must be packed when something is announced')
            continue
        if not isinstance(arg, ast.Name):
            w = can_be_false_while_announcing(arg)
            n += 1
            run.check(w is None, msgs.qualname, 'pack_attribute flag %s true whenever something is announced' % norm(arg)[:50], msgs.loc(c), 'false for %s' % w)
            continue
        for v, how, st in ml.defs.get(arg.id, []):
            if v is None:
                continue
            n += 1
            inst = 'flag %s = %s' % (arg.id, norm(v)[:60])
            if isinstance(v, ast.Constant) and v.value is True:
                run.ok(msgs.qualname + ': ' + inst, 'constant true')
                continue
            # the guards of the assignment, with locals expanded
            facts: list[tuple[ast.AST, bool]] = []
            for t, pol in flat_guards(msgs.node, st, pm):
                if isinstance(t, ast.Name) and t.id not in conts:
                    vs = ml.values(t.id)
                    if len(vs) == 1:
                        facts += conjuncts(vs[0], pol)
                        continue
                facts.append((t, pol))
            empty = {k for k in conts if any((isinstance(t, ast.Name) and t.id == k and not pol) for t, pol in facts)}
            if isinstance(v, ast.Constant) and v.value is False:
                okc = empty == conts
                why = 'set to False although %s may hold announces' % sorted(conts - empty)
            else:
                w = can_be_false_while_announcing(v)
                okc = w is None or empty == conts
                why = 'the expression is false for %s' % w
            run.check(
                okc,
                msgs.qualname,
                'the attributes flag (%s) is true whenever something is announced' % inst,
                msgs.loc(st),
                '%s: pack_attribute(negotiated, False) packs nothing, so routes announced in that UPDATE (MP_REACH_NLRI next to an '
                'MP_UNREACH_NLRI of a unicast family) go out without ORIGIN, AS_PATH or any of the requested attributes' % why,
            )
    if n < 2:
        run.cannot('only %d definitions of the pack_attribute flag found in messages()' % n)
