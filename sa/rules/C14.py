"""C14 — API commands: order, one acknowledgement, no side effects on error.  DESIGN.md 3/C14."""

from __future__ import annotations

import ast

from ..alpha import Loc
from ..cfg import CFG
from ..const import Folder
from ..flow import Slicer, flat_guards, guards, parent_map
from ..model import FuncInfo, Model, dotted, norm, walk_no_nested
from ..report import Run
from ..typestate import propagate
from .C05 import _calls_in_stmt
from .common import short

CMD = 'exabgp.reactor.api.command.'
PROCESSES = 'exabgp.reactor.api.processes.Processes'
ANSWERS = ('Processes.answer_done', 'Processes.answer_error', 'Processes.answer_done_sync', 'Processes.answer_error_sync', 'Processes._answer_sync', 'Processes._answer')  # _answer*: raw done markers.  Processes.answer() writes a JSON result: it is data, not the terminal done / error the property asks for

# handlers whose purpose contradicts "exactly one terminal answer", one line of reason each
R1_EXEMPT = {
    CMD + 'reactor.silence_ack': 'its purpose is to stop acknowledging (answers nothing after switching acks off)',
    CMD + 'reactor.crash': 'debugging command that raises on purpose',
}


def is_handler(fi: FuncInfo) -> bool:
    if fi.cls is not None or fi.parent is not None or not fi.qualname.startswith(CMD):
        return False
    args = [a.arg for a in fi.node.args.args]
    return args[:3] == ['self', 'reactor', 'service'] and len(args) >= 5


def _is_log_call(call: ast.Call) -> bool:
    d = dotted(call.func) or ''
    return d.startswith('log.') or d.startswith('self.log_') or d in ('lazymsg', 'lazyexc', 'len', 'str', 'list', 'bool', 'int', 'isinstance', 'sorted', 'set', 'dict', 'tuple', 'format')


def _may_raise(st: ast.AST) -> bool:
    if isinstance(st, (ast.Raise, ast.Assert)):
        return True
    for n in walk_no_nested(st):
        if isinstance(n, ast.Call) and not _is_log_call(n):
            return True
        if isinstance(n, ast.Await):
            return True
    return False


class Counter:
    def __init__(self, model: Model, run: Run) -> None:
        self.model = model
        self.run = run
        self.memo: dict[str, tuple[frozenset, frozenset]] = {}
        self.busy: set[str] = set()
        self._ans: dict[str, bool] = {}
        self.handlers = {f.qualname: f for f in model.funcs.values() if is_handler(f)}
        self.by_name: dict[str, list[FuncInfo]] = {}
        for f in self.handlers.values():
            self.by_name.setdefault(f.name, []).append(f)

    def dynamic_targets(self, fi: FuncInfo, call: ast.Call) -> list[FuncInfo]:
        """`handler(...)` where handler = globals()[name] / getattr(mod, name) and name comes from a module-level
        dict literal of strings: all the functions it names."""
        if not isinstance(call.func, ast.Name):
            return []
        name = call.func.id
        srcs = []
        for n in walk_no_nested(fi.node):
            if isinstance(n, ast.Assign) and isinstance(n.targets[0], ast.Name) and n.targets[0].id == name:
                srcs.append(n.value)
        if not srcs or not all('globals()' in norm(s) or 'getattr(' in norm(s) for s in srcs):
            return []
        out: list[FuncInfo] = []
        for tbl, val in fi.module.assigns.items():
            if isinstance(val, ast.Dict) and tbl.isupper() and tbl.strip('_').startswith('V6'):
                used = any(isinstance(x, ast.Name) and x.id == tbl for x in walk_no_nested(fi.node))
                if not used:
                    continue
                for v in val.values:
                    if isinstance(v, ast.Constant) and isinstance(v.value, str):
                        out.extend(self.by_name.get(v.value, []))
        return out

    def answers_somewhere(self, fi: FuncInfo, depth: int = 0) -> bool:
        key = fi.qualname
        if key in self._ans:
            return self._ans[key]
        self._ans[key] = False
        res = False
        for n in walk_no_nested(fi.node):
            if isinstance(n, ast.Call):
                if self.model.call_matches(fi.module, n, *ANSWERS):
                    res = True
                elif depth < 3:
                    for c in self.model.callees(fi.module, n):
                        h = self.model.funcs.get(c)
                        if h is not None and c.startswith(CMD) and h.cls is None and c != key and self.answers_somewhere(h, depth + 1):
                            res = True
        self._ans[key] = res
        return res

    def effect(self, fi: FuncInfo, call: ast.Call) -> list[frozenset] | None:
        """None = no effect on the count; else the set of possible increments."""
        m = self.model
        if m.call_matches(fi.module, call, *ANSWERS):
            return [frozenset({1})]
        if m.call_matches(fi.module, call, 'ASYNC.schedule'):
            if len(call.args) >= 3 and isinstance(call.args[2], ast.Call) and isinstance(call.args[2].func, ast.Name):
                cbname = call.args[2].func.id
                cb = m.funcs.get(fi.qualname + '.' + cbname)
                if cb is None and fi.parent is not None:
                    cb = m.funcs.get(fi.parent.qualname + '.' + cbname)
                if cb is None:
                    # callback = factory(...): the factory returns its nested async def
                    for n in walk_no_nested(fi.node):
                        if isinstance(n, ast.Assign) and isinstance(n.targets[0], ast.Name) and n.targets[0].id == cbname and isinstance(n.value, ast.Call):
                            for fq in m.callees(fi.module, n.value):
                                fac = m.funcs.get(fq)
                                if fac is None:
                                    continue
                                for r in walk_no_nested(fac.node):
                                    if isinstance(r, ast.Return) and isinstance(r.value, ast.Name):
                                        cb = cb or m.funcs.get(fac.qualname + '.' + r.value.id)
                if cb is not None:
                    ex, rs = self.summary(cb)
                    # an exception escaping a scheduled callback is answered by the scheduler's error handler
                    return [frozenset(ex | {min(r + 1, 2) for r in rs})]
            self.run.cannot('%s: scheduled callback not resolved: %s' % (fi.qualname, norm(call)[:80]))
            return None
        tg = [self.model.funcs[c] for c in m.callees(fi.module, call) if c in self.handlers and c != fi.qualname]
        tg += self.dynamic_targets(fi, call)
        if not tg:
            # helper of the command package that answers on behalf of its caller
            for c in m.callees(fi.module, call):
                h = m.funcs.get(c)
                if h is not None and c.startswith(CMD) and c != fi.qualname and h.cls is None and self.answers_somewhere(h):
                    tg.append(h)
        if tg:
            s: set[int] = set()
            for t in tg:
                ex, rs = self.summary(t)
                s |= ex
            return [frozenset(s)]
        return None

    def summary(self, fi: FuncInfo) -> tuple[frozenset, frozenset]:
        """(counts at normal exit, counts when an exception escapes)"""
        if fi.qualname in self.memo:
            return self.memo[fi.qualname]
        if fi.qualname in self.busy:
            return frozenset({1}), frozenset()
        self.busy.add(fi.qualname)
        cfg = CFG(fi.node, may_raise=_may_raise)

        def transfer(node, val):
            vals = {val}
            for call in _calls_in_stmt(node):
                eff = self.effect(fi, call)
                if eff is None:
                    continue
                nv = set()
                for v in vals:
                    for inc in eff[0]:
                        nv.add(min(v + inc, 2))
                vals = nv
            return list(vals)

        res = propagate(cfg, 0, transfer)
        self.run.paths += res.states
        out = (frozenset(res.exit_values), frozenset(res.raise_values))
        self.busy.discard(fi.qualname)
        self.memo[fi.qualname] = out
        return out


def check(model: Model, run: Run) -> None:
    folder = Folder(model)
    # ------------------------------------------------------------------ R1
    run.rule(
        'C14.R1',
        'every command handler of reactor/api/command (synchronous part plus the callback it schedules, plus any handler it '
        'delegates to) gives exactly one terminal answer (answer_done*/answer_error*) on every path; an exception escaping '
        'a scheduled callback must have answered nothing (the scheduler answers the error)',
        floor=35,
    )
    cnt = Counter(model, run)
    for qn, fi in sorted(cnt.handlers.items()):
        run.analysed(fi)
        ex, rs = cnt.summary(fi)
        if qn in R1_EXEMPT:
            run.ok(short(qn), 'exempt: ' + R1_EXEMPT[qn])
            continue
        if ex == frozenset({1}):
            run.ok(short(qn), 'normal exits answer exactly once')
        else:
            bad = sorted(ex - {1})
            what = []
            if 0 in bad:
                what.append('a path answers nothing (the API client waits for ever)')
            if 2 in bad:
                what.append('a path answers twice or more (replies go out of step with commands)')
            run.violation(qn, 'terminal answers per command: %s' % sorted(ex), fi.loc(), '; '.join(what) or 'no normal exit', _witness(model, cnt, fi))
    # callbacks: exception escapes with an answer already given
    for qn, fi in sorted(cnt.handlers.items()):
        for sub in model.funcs.values():
            if sub.parent is fi and sub.is_async:
                ex, rs = cnt.summary(sub)
                if any(r >= 1 for r in rs) and qn not in R1_EXEMPT:
                    # an answer was already given when a later statement raises: only flag explicit raises
                    explicit = [r for r in walk_no_nested(sub.node) if isinstance(r, ast.Raise)]
                    if explicit:
                        run.violation(sub.qualname, 'explicit raise after an answer', sub.loc(explicit[0]), 'the scheduler answers an error for an escaping exception: two replies')

    # ------------------------------------------------------------------ R2
    run.rule('C14.R2', 'RIB effects in route handlers are dominated by a successful parse: every Configuration.announce_route/withdraw_route call comes after the api_* parse call and the `if not <parsed>: ... return` guard', floor=10)
    eff_sites = 0
    for qn, fi in sorted(cnt.handlers.items()):
        for sub in [fi] + [s for s in model.funcs.values() if s.parent is fi]:
            calls = model.calls_to(sub.module, sub.node, '_Configuration.announce_route', '_Configuration.withdraw_route', '_Configuration.inject_operational', '_Configuration.inject_eor', '_Configuration.inject_refresh', '_Configuration.announce_route_indexed', '_Configuration.withdraw_route_by_index')
            for c in calls:
                eff_sites += 1
                if not c.args or len(c.args) < 2:
                    continue
                sl = Slicer(model, sub)
                # the thing applied comes from a parse result local
                src_names = {x.id for x in ast.walk(c.args[1]) if isinstance(x, ast.Name)}
                parsed = None
                for nm in list(src_names):
                    for v, st in sl.defs.get(nm, []):
                        for x in ast.walk(v):
                            if isinstance(x, ast.Name) and x.id in sl.defs:
                                for v2, st2 in sl.defs[x.id]:
                                    if isinstance(v2, ast.Call) and 'self.api_' in norm(v2.func):
                                        parsed = (x.id, st2)
                        if isinstance(v, ast.Call) and 'self.api_' in norm(v.func):
                            parsed = (nm, st)
                if parsed is None:
                    run.ok('%s: %s' % (short(sub.qualname), norm(c)[:60]), 'argument not from an api_* parse (not a text command)')
                    continue
                pname, pst = parsed
                g = flat_guards(sub.node, c)
                guarded = any(any(isinstance(x, ast.Name) and x.id == pname for x in ast.walk(t)) for t, pol in g)
                run.check(
                    guarded and pst.lineno < c.lineno,
                    sub.qualname,
                    '%s guarded by `if not %s: ... return`' % (norm(c)[:60], pname),
                    sub.loc(c),
                    'a RIB change must not happen before the parse result `%s` is known to be non-empty' % pname,
                )
    if eff_sites < 10:
        run.cannot('only %d RIB effect sites found in command handlers' % eff_sites)

    # ------------------------------------------------------------------ R3
    run.rule('C14.R3', 'the neighbour set a handler acts on derives from its `peers` parameter: a handler/callback that mutates a RIB or a peer must not iterate reactor.configuration.neighbors / all peers instead', floor=10)
    _r3_selector(model, run, cnt)

    # ------------------------------------------------------------------ R4
    run.rule('C14.R4', 'a selector that matched nothing is not widened: after dispatch() returned the selector-derived peers, the dispatcher may default to all peers only for commands that carried no selector at all', floor=1)
    _r4_widening(model, run)

    # ------------------------------------------------------------------ R11
    run.rule(
        'C14.R11',
        'sibling agreement: what dispatch() takes for a selector (the predicate under which it hands the tokens to '
        'extract_selector) is what dispatch_v6() takes for one when it tells "selector matched nothing" from "no selector '
        'given" before defaulting to all peers - a second, narrower notion of selector widens the ones it does not know',
        floor=1,
    )
    _r11_same_selector_notion(model, run)

    # ------------------------------------------------------------------ R5
    run.rule('C14.R5', 'all terms of a selector are tested: in match_neighbor the only exit inside the loop over the terms is the negative one', floor=1)
    _r5_matcher(model, run)

    # ------------------------------------------------------------------ R6
    run.rule('C14.R6', 'line reassembly and order: both readers keep the unterminated tail unconditionally after the split loop, cap the buffer, split on newline; commands enter the deque with append and leave with popleft', floor=5)
    _r6_lines(model, run)
    _r6_one_per_turn(model, run)
    _r6_requeue_at_head(model, run)

    # ------------------------------------------------------------------ R8
    run.rule(
        'C14.R8',
        'a command that is answered with error has changed no RIB: inside one command callback no explicit error answer is '
        'reachable once a route has been installed or withdrawn (Configuration.announce_route / withdraw_route ...), the arms that '
        'handle an exception aside - every route of the line is validated before the first one is installed',
        floor=10,
    )
    _r8_validate_first(model, run, cnt)

    # ------------------------------------------------------------------ R10
    run.rule(
        'C14.R10',
        'a line that does not parse gives no route: in every API.api_* parse function a false Configuration.partial() leads to the '
        'empty result on its own, whatever else is tested with it (`not partial(...) and <other>` lets the routes completed before the '
        'syntax error through, and the handlers install them and answer done)',
        floor=5,
    )
    _r10_parse_gate(model, run)

    # ------------------------------------------------------------------ R9
    run.rule(
        'C14.R9',
        'a command word that is not understood is an error, not a default: no handler derives the action it takes from the words of '
        'the command with a fall-back value (`x = "in" if "in" in words else "out"`) - `rib clear bogus` must not run as `rib clear out`',
        floor=30,
    )
    _r9_no_default_action(model, run, cnt)

    # ------------------------------------------------------------------ R7
    run.rule(
        'C14.R7',
        'the scheduler never loses an entry: whatever ASYNC takes out of its queue with popleft() is resumed / awaited or put back '
        'with appendleft() on every path to the end of the turn - a command callback that is popped and neither run nor put back is '
        'a command that is never executed and never answered',
        floor=3,
    )
    _r7_scheduler(model, run)


def _witness(model: Model, cnt: Counter, fi: FuncInfo) -> list[str]:
    out = []
    for sub in [fi] + [s for s in model.funcs.values() if s.parent is fi]:
        ex, rs = cnt.summary(sub)
        out.append('%s: counts at exit %s, at escaping exception %s' % (short(sub.qualname), sorted(ex), sorted(rs)))
        for c in walk_no_nested(sub.node):
            if isinstance(c, ast.Call) and model.call_matches(sub.module, c, *ANSWERS):
                out.append('  %s: %s' % (sub.loc(c), norm(c)[:80]))
    return out[:14]


RIB_MUTATORS = ('OutgoingRIB.announce_watchdog', 'OutgoingRIB.withdraw_watchdog', 'OutgoingRIB.add_to_rib', 'OutgoingRIB.del_from_rib', 'OutgoingRIB.resend', 'OutgoingRIB.withdraw', 'OutgoingRIB.clear', 'OutgoingRIB.add_to_rib_watchdog', 'Peer.teardown', 'Peer.resend', 'IncomingRIB.clear')


def _r3_selector(model: Model, run: Run, cnt: Counter) -> None:
    n = 0
    for qn, fi in sorted(cnt.handlers.items()):
        params = [a.arg for a in fi.node.args.args]
        if 'peers' not in params:
            continue
        for sub in [fi] + [s for s in model.funcs.values() if s.parent is fi]:
            muts = model.calls_to(sub.module, sub.node, *RIB_MUTATORS)
            if not muts:
                continue
            sl = Slicer(model, sub, control=True)
            for c in muts:
                n += 1
                atoms = sl.atoms(c.func) | sl.control_atoms(c)
                # loop variables: find the enclosing for and what it iterates
                pm = parent_map(sub.node)
                cur: ast.AST | None = c
                iters = []
                while cur is not None:
                    cur = pm.get(id(cur))
                    if isinstance(cur, (ast.For, ast.AsyncFor)):
                        iters.append(cur.iter)
                it_atoms = set()
                for it in iters:
                    it_atoms |= sl.atoms(it)
                allatoms = atoms | it_atoms
                from_peers = any(a in ('param:peers', 'global:peers') for a in allatoms)
                all_neighbors = any('configuration.neighbors' in a for a in allatoms if a.startswith('attr:'))
                inst = '%s: %s' % (short(sub.qualname), norm(c)[:70])
                if from_peers:
                    run.ok(inst, 'target derives from peers')
                elif all_neighbors:
                    run.violation(
                        sub.qualname,
                        '%s applied to every configured neighbor' % norm(c.func),
                        sub.loc(c),
                        'the handler receives the selector-matched `peers` but iterates reactor.configuration.neighbors: a command '
                        'carrying a neighbor selector changes neighbors that do not match it',
                    )
                else:
                    run.ok(inst, 'no neighbor iteration found')
    # effects applied through Configuration / Reactor take the peer list or a peer name as first argument
    via = ('_Configuration.announce_route', '_Configuration.withdraw_route', '_Configuration.inject_operational', '_Configuration.inject_eor', '_Configuration.inject_refresh', '_Configuration.announce_route_indexed', '_Configuration.withdraw_route_by_index', 'Reactor.neighbor_rib_resend', 'Reactor.neighbor_rib_out_withdraw', 'Reactor.neighbor_rib_in_clear', 'Reactor.teardown_peer')
    for qn, fi in sorted(cnt.handlers.items()):
        for sub in [fi] + [s for s in model.funcs.values() if s.parent is fi]:
            for c in model.calls_to(sub.module, sub.node, *via):
                if not c.args:
                    continue
                n += 1
                sl = Slicer(model, sub, control=True)
                atoms = sl.atoms(c.args[0])
                # names of the callback's own parameters bound from `peers` at the schedule call
                ok = any(a in ('param:peers', 'global:peers') for a in atoms)
                if not ok:
                    for a in list(atoms):
                        if a.startswith('param:') and sub is not fi:
                            pname = a[6:]
                            idx = [x.arg for x in sub.node.args.args].index(pname) if pname in [x.arg for x in sub.node.args.args] else -1
                            for sc in walk_no_nested(fi.node):
                                if isinstance(sc, ast.Call) and isinstance(sc.func, ast.Name) and sc.func.id == sub.name and 0 <= idx < len(sc.args):
                                    if 'peers' in {x.id for x in ast.walk(sc.args[idx]) if isinstance(x, ast.Name)}:
                                        ok = True
                run.check(
                    ok,
                    sub.qualname,
                    '%s acts on a neighbor set derived from `peers`' % norm(c)[:70],
                    sub.loc(c),
                    'the first argument (%s) does not derive from the selector-matched `peers` of the command' % norm(c.args[0]),
                )
    # the Configuration side honours the list it is given
    for nm in ('announce_route', 'withdraw_route'):
        f = model.funcs.get('exabgp.configuration.configuration._Configuration.' + nm)
        if f is None:
            run.cannot('_Configuration.%s vanished' % nm)
            continue
        run.analysed(f)
        muts = model.calls_to(f.module, f.node, 'OutgoingRIB.add_to_rib', 'OutgoingRIB.del_from_rib')
        ok = bool(muts) and all(any(isinstance(t, ast.Compare) and isinstance(t.ops[0], ast.In) and dotted(t.comparators[0]) == 'peers' and pol for t, pol in flat_guards(f.node, m_)) for m_ in muts)
        run.check(ok, f.qualname, 'RIB change only for neighbor names in `peers`', f.loc(), 'Configuration.%s must touch only the listed peers' % nm)
    if n < 10:
        run.cannot('only %d neighbor-directed effect sites found in handlers' % n)


def _r4_widening(model: Model, run: Run) -> None:
    for name in ('exabgp.reactor.api.dispatch.v6.dispatch_v6', 'exabgp.reactor.api.dispatch.v4.dispatch_v4'):
        fi = model.funcs.get(name)
        if fi is None:
            run.cannot('%s vanished' % name)
            continue
        run.analysed(fi)
        bad = None
        for n in walk_no_nested(fi.node):
            if isinstance(n, ast.Assign) and isinstance(n.targets[0], ast.Name) and n.targets[0].id == 'peers' and 'reactor.peers(' in norm(n.value):
                g = flat_guards(fi.node, n)
                # acceptable only when the command is known to carry no selector
                # some guard on the way must read something other than the (empty) peer list and the handler set:
                # that is what tells "no selector given" from "selector matched nothing"
                # some guard on the way must look at WHAT the command starts with (a token compared with a keyword, a
                # selector predicate): that is what tells "no selector given" from "selector matched nothing"; the
                # emptiness of the token list or a comment test says nothing about it
                from ..alpha import Loc as _Loc

                _l = _Loc(model, fi)

                def _looks_at_selector(t):
                    e = _l.expanded(t)
                    for x in ast.walk(e):
                        if isinstance(x, ast.Compare) and any(isinstance(y, ast.Subscript) for y in ast.walk(x)):
                            return True
                        if isinstance(x, ast.Call) and 'selector' in norm(x.func):
                            return True
                    return False

                knows_no_selector = any(_looks_at_selector(t) for t, pol in g)
                only_empty = any(norm(t) == 'peers' and not pol for t, pol in g)
                # is `peers` selector-derived at this point?
                derived = any(isinstance(x, ast.Assign) and any(isinstance(e, ast.Name) and e.id == 'peers' for t in x.targets for e in ast.walk(t)) and x.lineno < n.lineno and 'dispatch(' in norm(x.value) for x in walk_no_nested(fi.node))
                if derived and only_empty and not knows_no_selector:
                    bad = n
        if bad is not None:
            run.violation(
                fi.qualname,
                'empty selector match replaced by all peers: %s' % norm(bad),
                fi.loc(bad),
                '`peers` comes from the selector of the command; when the selector matched nothing (or was absent - the two '
                'cases are not distinguished) it is overwritten with every peer: `peer 10.9.9.9 announce route ...` reaches '
                'all neighbors instead of raising NoMatchingPeers',
            )
        else:
            run.ok(short(fi.qualname), 'no widening of an empty selector match')


def _r11_same_selector_notion(model: Model, run: Run) -> None:
    from ..alpha import Loc as _Loc

    d = model.func('exabgp.reactor.api.dispatch.common.dispatch')
    v6 = model.func('exabgp.reactor.api.dispatch.v6.dispatch_v6')
    run.analysed(d)
    run.analysed(v6)
    preds: set[str] = set()
    for c in model.calls_to(d.module, d.node, 'extract_selector'):
        for t, pol in flat_guards(d.node, c):
            if not pol:
                continue
            for x in ast.walk(t):
                if isinstance(x, ast.Call):
                    preds |= {q for q in model.callees(d.module, x) if q in model.funcs and q.startswith('exabgp.reactor.api.dispatch.')}
    if not preds:
        run.cannot('no predicate found in front of extract_selector in dispatch()')
        return
    loc = _Loc(model, v6)
    sites = [n for n in walk_no_nested(v6.node) if isinstance(n, ast.Assign) and any(isinstance(c, ast.Call) and isinstance(c.func, ast.Attribute) and c.func.attr == 'peers' and dotted(c.func.value) == 'reactor' for c in ast.walk(n.value))]
    if not sites:
        run.cannot('dispatch_v6 no longer defaults to all peers: rule without an instance')
        return
    for n in sites:
        called: set[str] = set()
        todo: list[str] = []
        for t, _pol in flat_guards(v6.node, n):
            for x in ast.walk(loc.expanded(t)):
                if isinstance(x, ast.Call):
                    called.add((dotted(x.func) or '').rsplit('.', 1)[-1])
            for x in ast.walk(t):
                if isinstance(x, ast.Call):
                    todo += [q for q in model.callees(v6.module, x) if q in model.funcs]
        # ... or in a predicate helper the guard calls (followed three calls deep)
        seen: set[str] = set()
        for _ in range(3):
            nxt: list[str] = []
            for q in todo:
                if q in seen:
                    continue
                seen.add(q)
                called.add(q.rsplit('.', 1)[-1])
                hf = model.funcs[q]
                for x in walk_no_nested(hf.node):
                    if isinstance(x, ast.Call):
                        nxt += [c for c in model.callees(hf.module, x) if c in model.funcs and c.startswith('exabgp.reactor.api.dispatch.')]
            todo = nxt
        called |= {q.rsplit('.', 1)[-1] for q in todo}
        missing = sorted(q.rsplit('.', 1)[-1] for q in preds if q.rsplit('.', 1)[-1] not in called)
        run.check(
            not missing,
            v6.qualname,
            'the default to all peers is decided with the selector predicate of dispatch() (%s)' % ', '.join(sorted(q.rsplit('.', 1)[-1] for q in preds)),
            v6.loc(n),
            'dispatch() parses a selector whenever %s() says so; dispatch_v6 decides "no selector was given" without it, so a '
            'selector of a form it does not recognise (an IPv6 address such as fd00::1) that matches no neighbor is taken for '
            '"no selector" and the command is applied to every neighbor' % '/'.join(missing),
        )


def _r5_matcher(model: Model, run: Run) -> None:
    fi = model.func(CMD + 'limit.match_neighbor')
    run.analysed(fi)
    loops = [n for n in walk_no_nested(fi.node) if isinstance(n, ast.For)]
    if not loops:
        run.cannot('no loop in match_neighbor')
        return
    folder = Folder(model)
    pos = []
    for r in walk_no_nested(loops[0]):
        if isinstance(r, ast.Return) and folder.fold(r.value, fi.module, fi.cls) is True:
            pos.append(r)
    if pos:
        run.violation(
            fi.qualname,
            'positive exit inside the loop over the selector terms',
            fi.loc(pos[0]),
            'the wildcard term returns True at once, so the remaining terms are never tested: `neighbor * peer-as 3` matches every peer',
        )
    else:
        run.ok(short(fi.qualname), 'only negative exits inside the term loop')
    # a term matches as a whole term: delimited on BOTH sides (`10.0.0.1` must not select 10.0.0.10)
    from ..alpha import Loc

    ml_ = Loc(model, fi)
    ops_ = []
    for n in walk_no_nested(fi.node):
        if isinstance(n, ast.Call) and dotted(n.func) in ('re.search', 're.match', 're.fullmatch', 're.compile') and n.args:
            pat = ml_.resolve(n.args[0])
            consts = [v.value for v in pat.values if isinstance(v, ast.Constant)] if isinstance(pat, ast.JoinedStr) else ([pat.value] if isinstance(pat, ast.Constant) else [])
            escaped = isinstance(pat, ast.JoinedStr) and all(isinstance(v, ast.Constant) or (isinstance(v.value, ast.Call) and dotted(v.value.func) == 're.escape') for v in pat.values)
            left = bool(consts) and str(consts[0]).startswith(('(^|', '^', '\\b', '(?:^|', '(?<!'))
            right = bool(consts) and str(consts[-1]).endswith(('$|\\s|,)', '$)', '$', '\\b', '|,)', '(?!\\S)')) and isinstance(pat, ast.JoinedStr) and isinstance(pat.values[-1], ast.Constant)
            ops_.append((n, left and right and escaped, 'regular expression %s' % norm(pat)[:50]))
        if isinstance(n, ast.Compare) and len(n.ops) == 1 and isinstance(n.ops[0], (ast.In, ast.NotIn)) and model.type_of(fi.module, n.comparators[0]) == 'builtins.str':
            needle = ml_.resolve(n.left)
            both = isinstance(needle, ast.JoinedStr) and len(needle.values) >= 3 and isinstance(needle.values[0], ast.Constant) and isinstance(needle.values[-1], ast.Constant) and str(needle.values[0].value)[-1:] in ' ,' and str(needle.values[-1].value)[:1] in ' ,'
            ops_.append((n, both, 'substring test %s' % norm(n)[:50]))
        if isinstance(n, ast.Call) and isinstance(n.func, ast.Attribute) and n.func.attr in ('startswith', 'endswith', 'find', 'count') and model.type_of(fi.module, n.func.value) == 'builtins.str' and n.args and ml_.depends_on(n.args[0], [a.arg for a in fi.node.args.args[:1]]):
            ops_.append((n, False, 'prefix / substring test %s' % norm(n)[:50]))
    if not ops_:
        run.cannot('match_neighbor: how a term is compared with the peer name was not understood')
    for n, good, what in ops_:
        run.check(good, fi.qualname, 'a selector term matches only as a whole, delimited on both sides (%s)' % what, fi.loc(n), 'without a delimiter after the term `neighbor 10.0.0.1` also selects 10.0.0.10 and `peer-as 6501` also AS 65010: the command changes routes of peers it did not name')
    # match_neighbors: yields only peers for which some description matched
    mn = model.func(CMD + 'limit.match_neighbors')
    ys = [y for y in walk_no_nested(mn.node) if isinstance(y, ast.Yield)]
    ok = any(any('match_neighbor(' in norm(t) and pol for t, pol in flat_guards(mn.node, y)) for y in ys)
    run.check(ok, mn.qualname, 'a peer is yielded only under match_neighbor(...)', mn.loc(), 'selector matching must gate the peers returned')


def _r6_lines(model: Model, run: Run) -> None:
    for name in ('_async_reader_callback', 'received'):
        fi = model.funcs.get(PROCESSES + '.' + name)
        if fi is None:
            run.cannot('Processes.%s vanished' % name)
            continue
        run.analysed(fi)
        loops = [n for n in walk_no_nested(fi.node) if isinstance(n, ast.While) and "'\\n' in" in norm(n.test)]
        if not loops:
            run.cannot('%s: split loop not found' % name)
            continue
        loop = loops[0]
        var = None
        if isinstance(loop.test, ast.Compare) and isinstance(loop.test.comparators[0], ast.Name):
            var = loop.test.comparators[0].id
        # split on the first newline, keep the rest
        split_ok = any(isinstance(n, ast.Assign) and isinstance(n.targets[0], ast.Tuple) and norm(n.value) == "%s.split('\\n', 1)" % var and dotted(n.targets[0].elts[1]) == var for n in walk_no_nested(loop))
        run.check(split_ok, fi.qualname, "line, %s = %s.split('\\n', 1)" % (var, var), fi.loc(loop), 'one command per newline, the remainder kept')
        # the tail is stored after the loop, unconditionally (same block as the loop)
        pm = parent_map(fi.node)
        from ..flow import block_of

        b = block_of(pm, loop)
        tail_ok = False
        if b is not None:
            lst = b[2]
            after = lst[lst.index(loop) + 1 :]
            for st in after:
                if isinstance(st, ast.Assign) and isinstance(st.targets[0], ast.Subscript) and dotted(st.targets[0].value) == 'self._buffer' and isinstance(st.value, ast.Name) and st.value.id == var:
                    tail_ok = True
        run.check(tail_ok, fi.qualname, 'self._buffer[...] = %s unconditionally after the split loop' % var, fi.loc(loop), 'when a read ends exactly on a newline the empty tail must overwrite the previous fragment, otherwise the fragment prefixes the next command')
        # the buffer is prepended
        pre = any(isinstance(n, ast.Assign) and isinstance(n.targets[0], ast.Name) and n.targets[0].id == var and 'self._buffer.get(' in norm(n.value) and '+' in norm(n.value) for n in walk_no_nested(fi.node))
        run.check(pre, fi.qualname, '%s = self._buffer.get(...) + new data' % var, fi.loc(), 'the kept fragment must prefix the new data')
        cap = any(isinstance(n, ast.If) and 'MAX_COMMAND_SIZE' in norm(n.test) and "'\\n' not in" in norm(n.test) for n in walk_no_nested(fi.node))
        run.check(cap, fi.qualname, 'unterminated data capped by MAX_COMMAND_SIZE', fi.loc(), 'an endless line must not grow the buffer for ever')
    # queue discipline
    cb = model.func(PROCESSES + '._async_reader_callback')
    ra = model.func(PROCESSES + '.received_async')
    app = any(isinstance(c, ast.Call) and isinstance(c.func, ast.Attribute) and c.func.attr == 'append' and dotted(c.func.value) == 'self._command_queue' for c in walk_no_nested(cb.node))
    bad_app = any(isinstance(c, ast.Call) and isinstance(c.func, ast.Attribute) and c.func.attr in ('appendleft', 'insert') and dotted(c.func.value) == 'self._command_queue' for c in walk_no_nested(cb.node))
    pl = any(isinstance(c, ast.Call) and isinstance(c.func, ast.Attribute) and c.func.attr == 'popleft' and dotted(c.func.value) == 'self._command_queue' for c in walk_no_nested(ra.node))
    bad_pop = any(isinstance(c, ast.Call) and isinstance(c.func, ast.Attribute) and c.func.attr == 'pop' and dotted(c.func.value) == 'self._command_queue' for c in walk_no_nested(ra.node))
    run.check(app and not bad_app and pl and not bad_pop, PROCESSES, 'commands: append on read, popleft on delivery', cb.loc(), 'commands must leave the queue in arrival order')
    sched = model.func('exabgp.reactor.asynchronous.ASYNC.schedule')
    runa = model.func('exabgp.reactor.asynchronous.ASYNC._run_async')
    s_app = any(isinstance(c, ast.Call) and isinstance(c.func, ast.Attribute) and c.func.attr == 'append' and dotted(c.func.value) == 'self._async' for c in walk_no_nested(sched.node))
    r_pop = [c for c in walk_no_nested(runa.node) if isinstance(c, ast.Call) and isinstance(c.func, ast.Attribute) and dotted(c.func.value) == 'self._async' and c.func.attr in ('pop', 'popleft')]
    run.check(s_app and r_pop and all(c.func.attr == 'popleft' for c in r_pop), 'exabgp.reactor.asynchronous.ASYNC', 'callbacks: append on schedule, popleft on run', sched.loc(), 'scheduled callbacks must run in command order')


def _r6_one_per_turn(model: Model, run: Run) -> None:
    """received_async hands ONE buffered command to the reactor per call: the reactor runs the scheduled callbacks (which
    write the answers of announce / withdraw) only after the loop over received_async(), so draining the backlog in one
    call lets immediate answers (version, error, reset) overtake the answers of earlier commands"""
    fi = model.funcs.get(PROCESSES + '.received_async')
    if fi is None:
        run.cannot('Processes.received_async vanished')
        return
    run.analysed(fi)
    from ..flow import parent_map as _pm

    pm = _pm(fi.node)
    ys = [y for y in walk_no_nested(fi.node) if isinstance(y, (ast.Yield, ast.YieldFrom))]
    looped = []
    for y in ys:
        p = pm.get(id(y))
        while p is not None and p is not fi.node:
            if isinstance(p, (ast.For, ast.While, ast.AsyncFor)):
                looped.append(y)
                break
            p = pm.get(id(p))
    run.check(bool(ys) and not looped and not any(isinstance(y, ast.YieldFrom) for y in ys), fi.qualname, 'one buffered command per call (%d yield, %d inside a loop)' % (len(ys), len(looped)), fi.loc(looped[0]) if looped else fi.loc(), 'the whole backlog is handed over in one call: commands answered at once overtake the scheduled answers of the commands before them (replies out of order), and a `reset` in the burst drops commands that were already accepted')


# ---------------------------------------------------------------------------------------------- R7
def _r7_scheduler(model: Model, run: Run) -> None:
    ASYNC = 'exabgp.reactor.asynchronous.ASYNC'
    funcs = [f for q, f in model.funcs.items() if q.startswith(ASYNC + '.')]
    n = 0
    for f in funcs:
        pops = []
        for st in walk_no_nested(f.node):
            if isinstance(st, ast.Assign) and isinstance(st.value, ast.Call) and isinstance(st.value.func, ast.Attribute) and st.value.func.attr in ('popleft', 'pop') and (dotted(st.value.func.value) or '').startswith('self.'):
                names = [x.id for x in ast.walk(st.targets[0]) if isinstance(x, ast.Name)]
                if names:
                    pops.append((st, names[-1], dotted(st.value.func.value), names[0] if len(names) > 1 else None))
        if not pops:
            continue
        run.analysed(f)
        cfg = CFG(f.node)
        for st, var, queue, uidvar in pops:
            n += 1
            targets: set[int] = set()
            for node in cfg.nodes:
                a = node.ast
                if a is None or node.kind in ('entry', 'exit'):
                    continue
                roots = [a.test] if node.kind == 'test' and hasattr(a, 'test') else ([a] if node.kind not in ('test', 'dispatch') else [])
                for r in roots:
                    for x in ast.walk(r):
                        used = False
                        if isinstance(x, ast.Await) and any(isinstance(y, ast.Name) and y.id == var for y in ast.walk(x.value)):
                            used = True
                        if isinstance(x, ast.Call) and isinstance(x.func, ast.Name) and x.func.id == 'next' and x.args and isinstance(x.args[0], ast.Name) and x.args[0].id == var:
                            used = True
                        if isinstance(x, ast.Call) and isinstance(x.func, ast.Attribute) and x.func.attr in ('appendleft', 'append') and dotted(x.func.value) == queue and any(isinstance(y, ast.Name) and y.id == var for y in ast.walk(x)):
                            used = True
                        # the error handler of the reactor answers the command of this entry with `error`
                        if uidvar and isinstance(x, ast.Call) and isinstance(x.func, ast.Attribute) and 'error' in x.func.attr and any(isinstance(a, ast.Name) and a.id == uidvar for a in x.args):
                            used = True
                        if used and x is not st.value:
                            targets.add(node.id)
            srcs = [x for x in cfg.nodes_of(st)]
            ok, path = True, []
            for s_ in srcs:
                ok, path = _feasible_escape(cfg, s_.id, targets, lambda t, f=f: _predicate_body(model, f, t))
                if not ok:
                    break
            inst = '%s: entry popped at line %d' % (short(f.qualname), st.lineno)
            if ok:
                run.ok(inst, 'run or put back on every path')
            else:
                run.violation(
                    f.qualname,
                    'an entry taken from %s can reach the end of the turn without being run or put back' % queue,
                    f.loc(st),
                    'path %s: `%s` is popped and the function returns without resuming it, awaiting it or re-queueing it - when a generator '
                    'ahead of an API command finishes on the last step of the turn, the command callback popped next is dropped: the command '
                    'is neither executed nor answered' % (' -> '.join(cfg.describe_path(path)[-6:]), var),
                )
    if n < 3:
        run.cannot('only %d popleft() sites found in ASYNC' % n)


def _predicate_body(model: Model, fi: FuncInfo, t: ast.AST) -> ast.AST:
    """`self._is_x(v)` where the helper is `return <expr over its parameter>`: that expression, on v."""
    import copy

    if not isinstance(t, ast.Call):
        return t
    cs = [c for c in model.callees(fi.module, t, by_name=False) if c in model.funcs]
    if len(cs) != 1:
        return t
    h = model.funcs[cs[0]]
    body = [x for x in h.node.body if not (isinstance(x, ast.Expr) and isinstance(x.value, ast.Constant))]
    if len(body) != 1 or not isinstance(body[0], ast.Return) or body[0].value is None:
        return t
    params = [a.arg for a in h.node.args.args if a.arg not in ('self', 'cls')]
    if len(params) != len(t.args):
        return t
    mapping = dict(zip(params, t.args))

    class Sub(ast.NodeTransformer):
        def visit_Name(self, n: ast.Name) -> ast.AST:  # noqa: N802
            return copy.deepcopy(mapping[n.id]) if n.id in mapping else n

    return Sub().visit(copy.deepcopy(body[0].value))


def _feasible_escape(cfg: CFG, src: int, targets: set[int], expand=None) -> tuple[bool, list[int]]:  # noqa: ANN001
    """(True, []) when every FEASIBLE path from src to the exit passes a target.  Paths carry the truth values of the `if`
    tests they took: one that took `A or B` as true and later both A and B as false (or any test both ways without an
    assignment in between to a name it reads) is not a path of the program."""
    from ..flow import conjuncts

    def consistent(facts: frozenset) -> bool:
        d: dict[str, bool] = {}
        ors = []
        for txt, pol, parts in facts:
            if parts:
                ors.append(parts)
                continue
            if d.setdefault(txt, pol) != pol:
                return False
        for parts in ors:
            if all(d.get(p_) is False for p_ in parts):
                return False
        return True

    best: list[int] = []
    stack = [(src, frozenset(), (src,))]
    seen: set[tuple[int, frozenset]] = set()
    steps = 0
    while stack and steps < 20000:
        steps += 1
        i, facts, path = stack.pop()
        if (i, facts) in seen:
            continue
        seen.add((i, facts))
        if i == cfg.exit.id and i != src:
            return False, list(path)
        node = cfg.nodes[i]
        # an assignment invalidates the facts that read the assigned names
        if node.kind not in ('test', 'dispatch') and isinstance(node.ast, (ast.Assign, ast.AugAssign, ast.AnnAssign)):
            written = {x.id for x in ast.walk(node.ast) if isinstance(x, ast.Name) and isinstance(x.ctx, ast.Store)}
            facts = frozenset(f for f in facts if not any(w in f[0] for w in written))
        for j, lab in node.succ:
            if j in targets:
                continue
            if lab == 'exc' and (node.kind == 'test' or i == src):
                continue  # type predicates (inspect.is*, emptiness) do not raise; a popleft() that raises popped nothing
            nf = facts
            if node.kind == 'test' and isinstance(node.ast, ast.If) and lab in ('true', 'false'):
                add = set()
                test = expand(node.ast.test) if expand is not None else node.ast.test
                for t, pol in conjuncts(test, lab == 'true'):
                    if isinstance(t, ast.BoolOp) and isinstance(t.op, ast.Or) and pol:
                        add.add((norm(t), True, tuple(norm(v) for v in t.values)))
                    else:
                        add.add((norm(t), pol, ()))
                nf = facts | frozenset(add)
                if not consistent(nf):
                    continue
            stack.append((j, nf, path + (j,)))
    return True, best


# ---------------------------------------------------------------------------------------------- R8
MUTATORS = ('_Configuration.announce_route', '_Configuration.withdraw_route', '_Configuration.inject_operational', '_Configuration.inject_eor', '_Configuration.inject_refresh', '_Configuration.announce_route_indexed', '_Configuration.withdraw_route_by_index')


def _r8_validate_first(model: Model, run: Run, cnt: Counter) -> None:
    n = 0
    for qn, fi in sorted(cnt.handlers.items()):
        for sub in [fi] + [s_ for s_ in model.funcs.values() if s_.parent is fi]:
            muts = model.calls_to(sub.module, sub.node, *MUTATORS)
            if not muts:
                continue
            run.analysed(sub)
            cfg = CFG(sub.node)
            pm = parent_map(sub.node)
            errs = []
            for c in model.calls_to(sub.module, sub.node, 'Processes.answer_error', 'Processes.answer_error_sync'):
                # not the arms that report an exception
                cur: ast.AST | None = c
                in_handler = False
                while cur is not None and cur is not sub.node:
                    cur = pm.get(id(cur))
                    if isinstance(cur, ast.ExceptHandler):
                        in_handler = True
                if not in_handler:
                    errs.append(c)
            err_nodes = {cfg.stmt_node_containing(c).id: c for c in errs if cfg.stmt_node_containing(c) is not None}
            for mcall in muts:
                n += 1
                src = cfg.stmt_node_containing(mcall)
                if src is None:
                    continue
                seen = {src.id}
                work = [j for j, lab in src.succ if lab != 'exc']
                hit = None
                while work and hit is None:
                    i = work.pop()
                    if i in seen:
                        continue
                    seen.add(i)
                    if i in err_nodes:
                        hit = err_nodes[i]
                        break
                    work += [j for j, lab in cfg.nodes[i].succ if lab != 'exc']
                inst = '%s: %s' % (short(sub.qualname), norm(mcall)[:50])
                if hit is None:
                    run.ok(inst, 'no explicit error answer after it')
                else:
                    run.violation(
                        sub.qualname,
                        'an error answer is reachable after %s' % norm(mcall)[:60],
                        sub.loc(mcall),
                        'the callback installs a route and can then answer error (%s at %s): with several routes on one line ("route A ... ; '
                        'route B ...") the first ones are in the Adj-RIB-Out of the selected neighbors when a later one is refused, and the '
                        'command is answered error' % (norm(hit)[:50], sub.loc(hit)),
                    )
    if n < 10:
        run.cannot('only %d RIB mutations found in the command callbacks' % n)


# ---------------------------------------------------------------------------------------------- R9
def _defaulted_selectors(fn: ast.AST, command_names: set[str]) -> list[ast.Assign]:
    """`v = <const> if <test on the command words> else <const>` with two different constants"""
    derived = set(command_names)
    changed = True
    assigns = [n for n in ast.walk(fn) if isinstance(n, ast.Assign) and len(n.targets) == 1 and isinstance(n.targets[0], ast.Name)]
    while changed:
        changed = False
        for a in assigns:
            if a.targets[0].id not in derived and {x.id for x in ast.walk(a.value) if isinstance(x, ast.Name)} & derived:
                derived.add(a.targets[0].id)
                changed = True
    out = []
    for a in assigns:
        v = a.value
        if isinstance(v, ast.IfExp) and isinstance(v.body, ast.Constant) and isinstance(v.orelse, ast.Constant) and isinstance(v.body.value, str) and isinstance(v.orelse.value, str) and v.body.value != v.orelse.value:
            if {x.id for x in ast.walk(v.test) if isinstance(x, ast.Name)} & derived:
                out.append(a)
    return out


def _r9_no_default_action(model: Model, run: Run, cnt: Counter) -> None:
    # positive control: the detector sees the shape it is looking for
    ctl = ast.parse("def h(self, reactor, service, peers, command, use_json):\n    words = command.split()\n    direction = 'in' if 'in' in words else 'out'\n")
    if len(_defaulted_selectors(ctl, {'command'})) != 1:
        run.cannot('positive control of the defaulted-selector detector failed')
    n = 0
    for qn, fi in sorted(cnt.handlers.items()):
        n += 1
        args = [a.arg for a in fi.node.args.args]
        cmd = {args[4]} if len(args) > 4 else set()
        bad = _defaulted_selectors(fi.node, cmd)
        if not bad:
            run.ok('%s: no action chosen by default' % short(qn))
            continue
        for a in bad:
            run.violation(
                qn,
                'the action is chosen with a fall-back: %s' % norm(a)[:70],
                fi.loc(a),
                'whatever the command says that is not %r is taken for %r: a mistyped or missing word runs the other action (for `rib clear` '
                'that is the withdrawal of the whole Adj-RIB-Out of every selected neighbor) and the command is answered done' % (a.value.body.value, a.value.orelse.value),  # type: ignore[attr-defined]
            )
    if n < 30:
        run.cannot('only %d command handlers found' % n)


# ---------------------------------------------------------------------------------------------- R10
def _r10_parse_gate(model: Model, run: Run) -> None:
    import itertools

    n = 0
    for q, fi in sorted(model.funcs.items()):
        if not q.startswith('exabgp.reactor.api.API.api_'):
            continue
        pcalls = model.calls_to(fi.module, fi.node, 'Configuration.partial')
        if not pcalls:
            continue
        run.analysed(fi)
        pm = parent_map(fi.node)
        for pc in pcalls:
            n += 1
            # the `if` whose test holds the call
            cur: ast.AST | None = pc
            test_if = None
            while cur is not None and cur is not fi.node:
                par = pm.get(id(cur))
                if isinstance(par, ast.If) and par.test is cur:
                    test_if = par
                    break
                cur = par
            inst = '%s: partial() false -> no route' % short(q)
            if test_if is None:
                run.violation(q, 'the result of partial() is not tested', fi.loc(pc), 'the routes of a line that failed to parse are returned')
                continue

            # boolean structure of the test over atoms; the partial() call is one of them
            atoms: list[str] = []

            def build(x: ast.AST):
                if isinstance(x, ast.BoolOp):
                    parts = [build(v) for v in x.values]
                    return (lambda a, parts=parts: all(p(a) for p in parts)) if isinstance(x.op, ast.And) else (lambda a, parts=parts: any(p(a) for p in parts))
                if isinstance(x, ast.UnaryOp) and isinstance(x.op, ast.Not):
                    inner = build(x.operand)
                    return lambda a, inner=inner: not inner(a)
                key = 'P' if x is pc else norm(x)
                if key not in atoms:
                    atoms.append(key)
                return lambda a, key=key: a[key]

            f = build(test_if.test)
            others = [a for a in atoms if a != 'P']
            empties = lambda sts: any(isinstance(r, ast.Return) and isinstance(r.value, (ast.List, ast.Tuple)) and not r.value.elts or (isinstance(r, ast.Return) and isinstance(r.value, ast.Constant) and not r.value.value) for r in sts)  # noqa: E731
            bad = None
            for vals in itertools.product([False, True], repeat=len(others)):
                env = dict(zip(others, vals), P=False)
                taken = test_if.body if f(env) else test_if.orelse
                if not empties(taken):
                    bad = env
                    break
            if bad is None:
                run.ok(inst, 'if %s' % norm(test_if.test)[:60])
            else:
                run.violation(
                    q,
                    'partial() false does not end in the empty result: if %s' % norm(test_if.test)[:60],
                    fi.loc(test_if),
                    'with %s the function goes on and returns what the parser had completed before the error: `announce route A next-hop X ; '
                    'route 10.0.1.0/33 ...` installs A and is answered done although the line did not parse' % {k: v for k, v in bad.items() if k != 'P'},
                )
    if n < 5:
        run.cannot('only %d partial() gates found in API.api_*' % n)


def _r6_requeue_at_head(model: Model, run: Run) -> None:
    """replies in command order, also towards a slow helper: what flush_write_queue takes from the head of the write
    queue of a process (popleft) and can not write - all of it, or its unwritten tail - goes back to the HEAD (appendleft);
    put at the tail it is overtaken by every reply queued behind it"""
    fi = model.func('exabgp.reactor.api.processes.Processes.flush_write_queue')
    run.analysed(fi)
    L = Loc(model, fi)
    taken = {nm for nm, ds in L.defs.items() for v, h, _ in ds if isinstance(v, ast.Call) and isinstance(v.func, ast.Attribute) and v.func.attr == 'popleft'}
    if not taken:
        run.cannot('flush_write_queue: nothing is taken with popleft()')
        return
    queues = {dotted(v.func.value) for nm, ds in L.defs.items() for v, h, _ in ds if isinstance(v, ast.Call) and isinstance(v.func, ast.Attribute) and v.func.attr == 'popleft'}
    n = 0
    for c in walk_no_nested(fi.node):
        if isinstance(c, ast.Call) and isinstance(c.func, ast.Attribute) and c.func.attr in ('append', 'appendleft', 'insert', 'extend', 'extendleft') and dotted(c.func.value) in queues and c.args and any(isinstance(x, ast.Name) and x.id in taken for x in ast.walk(c.args[-1])):
            n += 1
            run.check(c.func.attr == 'appendleft', fi.qualname, 'unwritten data goes back with %s' % norm(c)[:60], fi.loc(c), 'what was taken from the head of the queue and could not be written must return to the head: appended at the tail, the reply of an earlier command is written after the replies of later ones whenever the helper is slow to read')
    if n < 2:
        run.cannot('flush_write_queue: fewer than 2 re-queueing sites found (%d)' % n)
