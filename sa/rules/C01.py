"""C01 — sent UPDATEs say exactly what the operator asked for.  DESIGN.md 3/C01."""

from __future__ import annotations

import ast
import re

from ..alpha import Loc, afind, ahas, amatch
from ..const import UNKNOWN, Folder
from ..flow import Slicer, flat_guards, parent_map
from ..labels import LabelFlow
from ..model import FuncInfo, Model, dotted, norm, walk_no_nested, walk_with_lambdas
from ..report import Run
from .common import CallGraph, short

AC = 'exabgp.bgp.message.update.attribute.collection.AttributeCollection'
ASPATH = 'exabgp.bgp.message.update.attribute.aspath.ASPath'
MPC = 'exabgp.bgp.message.update.nlri.collection.MPNLRICollection'
NEIGHBOR = 'exabgp.bgp.neighbor.neighbor.Neighbor'


def _expr_of_body(body: list[ast.stmt]) -> ast.expr | None:
    """the value a small function returns, as one expression: `if c: return A` / `return B` reads `A if c else B`"""
    body = [st for st in body if not (isinstance(st, ast.Expr) and isinstance(st.value, ast.Constant))]
    if not body:
        return None
    st = body[0]
    if isinstance(st, ast.Return) and st.value is not None:
        return st.value
    if isinstance(st, ast.If):
        a = _expr_of_body(st.body)
        b = _expr_of_body(st.orelse if st.orelse else body[1:])
        if a is not None and b is not None:
            return ast.copy_location(ast.IfExp(test=st.test, body=a, orelse=b), st)
    return None


def _as_lambda(fi, v: ast.expr) -> ast.Lambda | None:  # noqa: ANN001
    """a table entry as a lambda: a lambda, or a reference to a small function of the same class / module"""
    if isinstance(v, ast.Lambda):
        return v
    fn = None
    d = dotted(v) or ''
    if isinstance(v, ast.Attribute) and fi.cls is not None and d.count('.') == 1 and d.split('.')[0] in ('self', 'cls', fi.cls.name):
        fn = fi.cls.methods.get(v.attr)
    elif isinstance(v, ast.Name):
        fn = fi.module.functions.get(v.id)
    if fn is None or isinstance(fn.node, ast.Lambda):
        return None
    e = _expr_of_body(fn.node.body)
    if e is None:
        return None
    decos = {ast.unparse(x) for x in fn.node.decorator_list}
    params = list(fn.node.args.args)
    if fn.cls is not None and 'staticmethod' not in decos:
        params = params[1:]
    lam = ast.Lambda(args=ast.arguments(posonlyargs=[], args=params, kwonlyargs=[], kw_defaults=[], defaults=[]), body=e)
    return ast.copy_location(lam, v)


def _lambda_table(d: ast.Dict, fi=None) -> dict[str, ast.Lambda]:  # noqa: ANN001
    out = {}
    for k, v in zip(d.keys, d.values):
        lam = v if isinstance(v, ast.Lambda) else (_as_lambda(fi, v) if fi is not None else None)
        if lam is not None:
            out[(dotted(k) or norm(k)).rsplit('.', 1)[-1]] = lam
    return out


def _ibgp_arms(lam: ast.Lambda) -> tuple[ast.AST | None, ast.AST | None, str]:
    """(value when the two ASes are equal, value otherwise, how) for `X if left == right else Y` bodies."""
    args = [a.arg for a in lam.args.args]
    b = lam.body
    if isinstance(b, ast.IfExp) and isinstance(b.test, ast.Compare) and len(b.test.ops) == 1:
        l, r = dotted(b.test.left), dotted(b.test.comparators[0])
        if {l, r} == set(args[:2]):
            if isinstance(b.test.ops[0], ast.Eq):
                return b.body, b.orelse, 'ifexp'
            if isinstance(b.test.ops[0], ast.NotEq):
                return b.orelse, b.body, 'ifexp'
    if isinstance(b, ast.Compare) and len(b.ops) == 1 and {dotted(b.left), dotted(b.comparators[0])} == set(args[:2]):
        # boolean lambda: value is True when equal / different
        return ast.Constant(isinstance(b.ops[0], ast.Eq)), ast.Constant(isinstance(b.ops[0], ast.NotEq)), 'bool'
    return b, b, 'same'


def check(model: Model, run: Run) -> None:
    folder = Folder(model)
    pa = model.func(AC + '.pack_attribute')
    run.analysed(pa)
    mod = pa.module

    # ------------------------------------------------------------------ R1 defaults
    run.rule(
        'C01.R1',
        'defaults added by AttributeCollection.pack_attribute: ORIGIN IGP on both session types; AS_PATH empty on iBGP and '
        'SEQUENCE[local AS] on eBGP; LOCAL_PREF 100 on iBGP and none on eBGP; an operator LOCAL_PREF is skipped exactly on '
        'eBGP; the iBGP/eBGP test compares negotiated.local_as with negotiated.peer_as',
        floor=6,
    )
    tables = {}
    for n in walk_no_nested(pa.node):
        if isinstance(n, (ast.Assign, ast.AnnAssign)):
            tg = n.targets[0] if isinstance(n, ast.Assign) else n.target
            if isinstance(tg, ast.Name) and isinstance(n.value, ast.Dict):
                tables[tg.id] = _lambda_table(n.value, pa)
    # the two dict-of-lambdas tables, recognised by what they hold (not by their names): defaults are keyed by ORIGIN,
    # the skip predicates by NEXT_HOP
    dname = [nm for nm, t in tables.items() if 'ORIGIN' in t]
    sname = [nm for nm, t in tables.items() if 'NEXT_HOP' in t and 'ORIGIN' not in t]
    if len(dname) != 1 or len(sname) != 1:
        run.cannot('default/skip tables not found in pack_attribute (shape not understood)')
        return
    default, skip = tables[dname[0]], tables[sname[0]]
    sl = Slicer(model, pa)
    # which locals hold local_as / peer_as
    srcs = {}
    for nm in sl.defs:
        for v, _ in sl.defs[nm]:
            d = dotted(v) or ''
            if d.endswith('negotiated.local_as'):
                srcs[nm] = 'local'
            if d.endswith('negotiated.peer_as'):
                srcs[nm] = 'peer'
    # the call default[code](A, B): arguments must be (local, peer) in some order, both present
    pal = Loc(model, pa)

    def table_calls(table: str) -> list[ast.Call]:
        # table[code](...), table.get(code)(...), or through a local bound to one of those lookups
        out_ = []
        for c in walk_no_nested(pa.node):
            if not isinstance(c, ast.Call):
                continue
            f_ = pal.resolve(c.func) if isinstance(c.func, ast.Name) else c.func
            if isinstance(f_, ast.Subscript) and dotted(f_.value) == table:
                out_.append(c)
            elif isinstance(f_, ast.Call) and isinstance(f_.func, ast.Attribute) and f_.func.attr == 'get' and dotted(f_.func.value) == table:
                out_.append(c)
        return out_

    dcalls = table_calls(dname[0])
    scalls = table_calls(sname[0])
    for label, calls in (('default', dcalls), ('skip', scalls)):
        ok = len(calls) == 1 and len(calls[0].args) >= 2 and {srcs.get(dotted(calls[0].args[0]) or ''), srcs.get(dotted(calls[0].args[1]) or '')} == {'local', 'peer'}
        run.check(ok, pa.qualname, '%s[code](%s): iBGP/eBGP decided by local_as vs peer_as' % (label, ', '.join(norm(a) for a in calls[0].args[:2]) if calls else ''), pa.loc(calls[0]) if calls else pa.loc(), 'the session type is local AS == peer AS')
    # ORIGIN
    lam = default.get('ORIGIN')
    ok = False
    if lam is not None:
        i, e, _ = _ibgp_arms(lam)
        ok = all('Origin.from_int(Origin.IGP)' == norm(x) for x in (i, e))
        igp = folder.resolve_dotted('Origin.IGP', mod, None, {})
        ok = ok and igp == 0
    run.check(ok, pa.qualname, 'default ORIGIN = IGP on iBGP and eBGP', pa.loc(lam) if lam is not None else pa.loc(), 'RFC 4271 5.1.1: ORIGIN is mandatory; the default is IGP (0)')
    # AS_PATH
    lam = default.get('AS_PATH')
    ok = False
    detail = ''
    if lam is not None:
        i, e, how = _ibgp_arms(lam)
        empty = isinstance(i, ast.Call) and 'make_aspath' in norm(i.func) and i.args and isinstance(i.args[0], ast.List) and not i.args[0].elts
        seq_ok = False
        if isinstance(e, ast.Call) and 'make_aspath' in norm(e.func) and e.args and isinstance(e.args[0], ast.List) and len(e.args[0].elts) == 1:
            seg = e.args[0].elts[0]
            if isinstance(seg, ast.Call) and (dotted(seg.func) or '').endswith('SEQUENCE') and seg.args and isinstance(seg.args[0], ast.List) and len(seg.args[0].elts) == 1:
                nm_ = dotted(seg.args[0].elts[0]) or ''
                who = srcs.get(nm_)
                lparams = [a.arg for a in lam.args.args]
                if nm_ in lparams and len(dcalls) == 1 and lparams.index(nm_) < len(dcalls[0].args):
                    # a parameter of the entry: what the call default[code](...) passes at that position
                    who = srcs.get(dotted(dcalls[0].args[lparams.index(nm_)]) or '')
                seq_ok = who == 'local'
                detail = 'eBGP: SEQUENCE[%s]' % norm(seg.args[0].elts[0])
        ok = how == 'ifexp' and bool(empty) and seq_ok
    run.check(ok, pa.qualname, 'default AS_PATH empty on iBGP, SEQUENCE[local AS] on eBGP (%s)' % detail, pa.loc(lam) if lam is not None else pa.loc(), 'RFC 4271 5.1.2: prepend the local AS (not the peer AS) on eBGP, nothing on iBGP')
    # LOCAL_PREF
    lam = default.get('LOCAL_PREF')
    ok = False
    if lam is not None:
        i, e, how = _ibgp_arms(lam)
        ok = how == 'ifexp' and norm(i) == 'LocalPreference.from_int(100)' and norm(e) == 'NOTHING'
    run.check(ok, pa.qualname, 'default LOCAL_PREF 100 on iBGP, none on eBGP', pa.loc(lam) if lam is not None else pa.loc(), 'RFC 4271 5.1.5: LOCAL_PREF is sent to internal peers only; default 100')
    lam = skip.get('LOCAL_PREF')
    ok = False
    if lam is not None:
        i, e, how = _ibgp_arms(lam)
        ok = how == 'bool' and folder.fold(i, mod) is False and folder.fold(e, mod) is True
    run.check(ok, pa.qualname, 'operator LOCAL_PREF skipped exactly on eBGP', pa.loc(lam) if lam is not None else pa.loc(), 'LOCAL_PREF must not be sent to external peers')
    run.check(sorted(default) == ['AS_PATH', 'LOCAL_PREF', 'ORIGIN'], pa.qualname, 'defaults exist for exactly %s' % sorted(default), pa.loc(), 'only ORIGIN, AS_PATH and LOCAL_PREF have defaults')
    # a default replaces an ABSENT attribute only: absence is a membership / None test, not the truth value of the
    # attribute (an explicitly empty AS_PATH has length 0 and is falsy)
    if dcalls:
        pl = Loc(model, pa)
        absent = False
        truthy = None
        for t_, pol in flat_guards(pa.node, dcalls[0]):
            if isinstance(t_, ast.Compare) and len(t_.ops) == 1:
                op, right = t_.ops[0], t_.comparators[0]
                if ((isinstance(op, ast.NotIn) and pol) or (isinstance(op, ast.In) and not pol)) and 'self' in pl.expand(right) and dname[0] not in norm(right):
                    absent = True
                if isinstance(right, ast.Constant) and right.value is None and ((isinstance(op, ast.Is) and pol) or (isinstance(op, ast.IsNot) and not pol)) and 'self' in pl.expand(t_.left):
                    absent = True
            elif isinstance(t_, (ast.Name, ast.Call, ast.Subscript)) and 'self' in pl.expand(t_) and dname[0] not in norm(t_):
                truthy = t_
        run.check(
            absent and truthy is None,
            pa.qualname,
            'a default is packed only for a code that is absent from the collection (membership / None test)',
            pa.loc(truthy) if truthy is not None else pa.loc(dcalls[0]),
            'the substitution is decided by the truth value of the attribute (%s): an attribute the operator gave explicitly but '
            'whose value is empty (as-path [ ] has length 0) is falsy and gets replaced by the eBGP default SEQUENCE[local AS]' % (norm(truthy) if truthy is not None else 'no absence test found'),
        )
    # NOTHING is honoured
    dres = Loc(model, pa).from_value(lambda v: isinstance(v, ast.Call) and v in dcalls)
    nothing_guard = any(isinstance(n, ast.If) and any(amatch('V_a is not NOTHING', n.test, {'V_a': d}) is not None for d in dres) for n in walk_no_nested(pa.node))
    run.check(nothing_guard, pa.qualname, 'NOTHING default adds no attribute', pa.loc(), 'the eBGP LOCAL_PREF default must produce no bytes')

    # ------------------------------------------------------------------ R3 AS_TRANS / AS4_PATH
    run.rule('C01.R3', 'ASPath.pack_attribute: with ASN4 negotiated the path is packed 4 bytes wide and AS_TRANS is not involved; without it every 4-byte ASN becomes AS_TRANS in a 2-byte AS_PATH and, iff one was substituted, an AS4_PATH with the ORIGINAL path packed 4 bytes wide follows', floor=5)
    _r3_aspath(model, run, folder)

    # ------------------------------------------------------------------ R7 AS paths built from values are 4 bytes wide
    run.rule('C01.R7', 'every ASPath.make_aspath call that packs caller-provided AS numbers (configuration text, local AS, merged paths) uses asn4=True: the 2-byte default raises struct.error for an AS above 65535, while pack_attribute converts a 4-byte path for 2-byte peers', floor=3)
    n_mk = 0
    for fi in model.funcs.values():
        for c in walk_with_lambdas(fi.node):
            if not (isinstance(c, ast.Call) and isinstance(c.func, ast.Attribute) and c.func.attr == 'make_aspath'):
                continue
            if not c.args:
                continue
            seg = c.args[0]
            if isinstance(seg, (ast.List, ast.Tuple)) and not seg.elts:
                continue  # empty path: nothing to pack
            recv = dotted(c.func.value) or ''
            if recv.endswith('AS4Path'):
                continue  # always 4 bytes
            n_mk += 1
            wide = None
            if len(c.args) >= 2:
                wide = folder.fold(c.args[1], fi.module)
            for k in c.keywords:
                if k.arg == 'asn4':
                    wide = folder.fold(k.value, fi.module)
            run.check(
                wide is True,
                fi.qualname,
                '%s packs AS numbers with asn4=%s' % (norm(c.func) + '(' + norm(seg)[:40] + ')', wide if wide is not None else 'default False'),
                fi.loc(c),
                'AS numbers above 65535 are valid (RFC 6793); packed 2 bytes wide ASN.pack_asn raises struct.error',
            )
    if n_mk < 3:
        run.cannot('only %d make_aspath sites with content' % n_mk)

    # ------------------------------------------------------------------ R4 ADD-PATH tables
    run.rule('C01.R4', 'pack_nlri of every NLRI class reading negotiated.addpath yields the same (negotiated send x stored path id) table: stored / NOPATH+stored / stored minus 4 / stored, and the negotiated predicate is RequirePath.send of the NLRI family', floor=3)
    _r4_addpath(model, run, folder)

    # the negotiated ADD-PATH directions themselves (shared with C07.R2)
    from .C07 import _r2_addpath

    _r2_addpath(model, run, folder, model.func('exabgp.bgp.message.open.capability.negotiated.Negotiated._negotiate'))

    # ------------------------------------------------------------------ R5 MP_REACH layout
    run.rule('C01.R5', 'MP_REACH_NLRI = AFI(2) SAFI(1) len(next hop)(1) next hop reserved(1)=0 NLRIs, next hop = RD-size zero bytes + address with the RD size from Family.size; MP_UNREACH_NLRI = AFI SAFI NLRIs; attribute codes 14 / 15', floor=5)
    _r5_mp(model, run, folder)

    # ------------------------------------------------------------------ R9 the AS numbers the defaults use are the true ones
    run.rule(
        'C01.R9',
        'negotiated.local_as / peer_as, which the default AS_PATH and the iBGP/eBGP decision read, are the true 4-byte AS numbers: '
        'the 2-octet OPEN field is replaced by the FOUR_BYTES_ASN capability of the same OPEN when it holds AS_TRANS, and for the '
        'local side whatever the peer supports (shared with C07.R3)',
        floor=2,
    )
    from . import C07 as _c07

    _neg = model.func(_c07.NEG + '._negotiate')
    run.analysed(_neg)
    _c07._r3_as(model, run, _neg, _c07._sides(model, _neg))

    # ------------------------------------------------------------------ R10 routes that are packed differently are not merged
    run.rule(
        'C01.R10',
        'the outgoing RIB keeps ONE attribute collection per AttributeCollection.index() and packs every route filed under it '
        'with that collection: two collections that pack to different bytes must not share an index - an attribute that is '
        'present but prints as nothing (as-path [ ]) is packed as given while an absent one gets the RFC default, so the index '
        'must tell them apart (the text it is built from yields something for every present attribute, or the index adds the '
        'codes that are present)',
        floor=2,
    )
    _r10_index_presence(model, run)

    # ------------------------------------------------------------------ R8 what is sent fits the session it is sent on
    run.rule('C01.R8', 'an UPDATE is a valid message of ITS session (4096 or 65535 bytes): in UpdateCollection.messages a prefix is added to a buffer only under a room test that measures the bytes packed for this session (with the ADD-PATH path identifier when negotiated) - shared with C09.R3', floor=2)
    from .C09 import growth_rule

    growth_rule(model, run)

    # ------------------------------------------------------------------ R11 which section of the UPDATE a route goes to
    run.rule(
        'C01.R11',
        'RFC 4271 / 4760: the NLRI and withdrawn-routes fields of the UPDATE are IPv4 unicast (and an announce there has its '
        'next hop in the NEXT_HOP attribute, an IPv4 address); every other route goes to MP_REACH / MP_UNREACH.  The two '
        'sorting loops of UpdateCollection.messages are evaluated for one turn on every (AFI, SAFI, next-hop AFI) case',
        floor=20,
    )
    _r11_sections(model, run, folder)

    # ------------------------------------------------------------------ R12 no UPDATE without a route
    run.rule(
        'C01.R12',
        'UpdateCollection.messages never emits an UPDATE that carries no route: every yield whose payload is built from the '
        'route buffers (withdrawn, NLRI, MP_REACH, MP_UNREACH) stands under a test that one of them is not empty - `0000 0000` '
        'is the IPv4 unicast End-of-RIB marker, which nobody asked for',
        floor=4,
    )
    _r12_no_empty_update(model, run)

    # ------------------------------------------------------------------ R13 the size the UPDATEs are packed for
    run.rule('C01.R13', 'UPDATEs are packed for the size the PEER can read: Negotiated.msg_size leaves 4096 only when both OPENs announce Extended Message (shared with C07.R1)', floor=1)
    from .C07 import msg_size_rule

    msg_size_rule(model, run, folder)

    # ------------------------------------------------------------------ R6 next-hop self
    run.rule('C01.R6', 'next-hop self is resolved before the RIB: every OutgoingRIB.add_to_rib* / del_from_rib call from configuration/ and reactor/api/ passes Neighbor.resolve_self(route) (or a cached/already resolved route), and _update_rib refuses an unresolved sentinel', floor=4)
    _r6_self(model, run)


def _r3_aspath(model: Model, run: Run, folder: Folder) -> None:
    fi = model.func(ASPATH + '.pack_attribute')
    run.analysed(fi)
    top = None
    for st in fi.node.body:
        if isinstance(st, ast.If) and dotted(st.test) == 'negotiated.asn4':
            top = st
    if top is None:
        run.cannot('`if negotiated.asn4:` not found at the top of ASPath.pack_attribute')
        return
    asn4_branch = top.body
    names4 = {dotted(x) for st in asn4_branch for x in ast.walk(st) if isinstance(x, (ast.Name, ast.Attribute))}
    rets4 = [r for st in asn4_branch for r in walk_no_nested(st) if isinstance(r, ast.Return)]
    l30 = Loc(model, fi)
    ok4 = bool(rets4) and 'AS_TRANS' not in names4 and all(('asn4=True' in l30.expand(r.value) or 'self._packed' in l30.expand(r.value)) for r in rets4 if r.value is not None) and all(isinstance(asn4_branch[-1], (ast.If, ast.Return)) for _ in [0])
    run.check(ok4, fi.qualname, 'ASN4 session: 4-byte packing, no AS_TRANS', fi.loc(top), 'with ASN4 negotiated the real AS numbers are sent')
    # the stored-format shortcut must be guarded by self._asn4
    from ..alpha import value_cases as _vc

    stored = [(fs_, r) for r in rets4 if r.value is not None for fs_, v_ in _vc(l30, r, r.value) if norm(v_) == 'self._attribute(self._packed)']
    if stored:
        run.check(all('self._asn4' in fs_ for fs_, _ in stored), fi.qualname, 'stored bytes reused only when already 4-byte', fi.loc(stored[0][1]), 'stored 2-byte bytes must be re-packed for an ASN4 peer')
    rest = fi.node.body[fi.node.body.index(top) + 1 :]
    txt = '\n'.join(norm(s) for s in rest)

    def seed(e: ast.AST) -> tuple[str, ...]:
        if isinstance(e, ast.Attribute) and dotted(e) == 'self.aspath':
            return ('ORIG',)
        if isinstance(e, ast.Name) and e.id == 'AS_TRANS':
            return ('TRANS',)
        return ()

    lf = LabelFlow(fi.node, seed)
    # substitution: AS_TRANS stands for an ASN exactly when <asn>.asn4() says it needs 4 bytes (if-statement or conditional expression)
    subst_ok = False
    for st in rest:
        for n in walk_with_lambdas(st):
            if isinstance(n, ast.If):
                b = amatch('V_a.asn4()', n.test) or amatch('not V_a.asn4()', n.test)
                if b is None:
                    continue
                neg = isinstance(n.test, ast.UnaryOp)
                small, large = (n.body, n.orelse) if neg else (n.orelse, n.body)
                keeps = any(ahas('E_x.append(V_a)', x, b) for x in small)
                swaps = any(ahas('E_x.append(AS_TRANS)', x) for x in large)
                if keeps and swaps:
                    subst_ok = True
            if isinstance(n, ast.IfExp):
                if amatch('AS_TRANS if V_a.asn4() else V_a', n) is not None or amatch('V_a if not V_a.asn4() else AS_TRANS', n) is not None:
                    subst_ok = True
    run.check(subst_ok, fi.qualname, 'every 4-byte ASN replaced by AS_TRANS, every other ASN kept', fi.loc(), 'RFC 6793 4.2.2: AS_TRANS stands for each unmappable AS')
    # the flag gating AS4_PATH is accumulated over ALL segments
    flag = None
    for st in rest:
        for n in walk_no_nested(st):
            if isinstance(n, ast.If) and isinstance(n.test, ast.Name) and any('AS4Path' in norm(x) for x in n.body):
                flag = n.test.id
    if flag is None:
        # the same gate written as an early exit:  if not <flag>: return message  /  return message + AS4_PATH
        from ..alpha import facts as _facts

        l3 = Loc(model, fi)
        for st in rest:
            for n in walk_no_nested(st):
                if isinstance(n, (ast.Return, ast.AugAssign, ast.Assign)) and 'AS4Path' in norm(n):
                    names_ = [f_ for f_ in _facts(l3, n, keep=['*']) if f_.isidentifier()]
                    if len(names_) == 1:
                        flag = names_[0]
    if flag is not None:
        # ... and the flag may be the copy of another local (returned by a helper that was inlined)
        l3 = Loc(model, fi)
        for _ in range(3):
            v_ = l3.single(flag)
            if isinstance(v_, ast.Name):
                flag = v_.id
    if flag is None:
        run.cannot('the flag gating AS4_PATH was not found in ASPath.pack_attribute')
    else:
        pm = parent_map(fi.node)

        def in_loop(n: ast.AST) -> bool:
            p = pm.get(id(n))
            while p is not None and p is not fi.node:
                if isinstance(p, (ast.For, ast.While)):
                    return True
                p = pm.get(id(p))
            return False

        bad_assign = None
        sets_true = False
        init_ok = False
        for st in rest:
            for n in walk_no_nested(st):
                if isinstance(n, ast.Assign) and dotted(n.targets[0]) == flag:
                    v = n.value
                    if in_loop(n):
                        monotone = (isinstance(v, ast.Constant) and v.value is True) or (isinstance(v, ast.BoolOp) and isinstance(v.op, ast.Or) and any(dotted(x) == flag for x in v.values))
                        if monotone:
                            sets_true = True
                        else:
                            bad_assign = n
                    elif folder.fold(v, fi.module) is False:
                        init_ok = True
                    elif 'ORIG' in lf.of(v) and any(isinstance(x, ast.Call) and isinstance(x.func, ast.Attribute) and x.func.attr == 'asn4' for x in ast.walk(v)):
                        # computed once over the whole path, outside any loop
                        init_ok = sets_true = True
                    else:
                        bad_assign = n
                if isinstance(n, ast.AugAssign) and dotted(n.target) == flag and isinstance(n.op, ast.BitOr):
                    sets_true = True
        run.check(
            bad_assign is None and sets_true and init_ok,
            fi.qualname,
            'the AS4_PATH flag starts False and is only ever raised inside the per-segment loop',
            fi.loc(bad_assign) if bad_assign is not None else fi.loc(),
            'the flag that decides whether AS4_PATH is sent is overwritten for each segment (%s): a 4-byte ASN in a non-final segment is '
            'replaced by AS_TRANS and no AS4_PATH follows, so the real AS number is lost' % (norm(bad_assign) if bad_assign is not None else 'never set'),
        )
    trans = folder.resolve_fullname('exabgp.bgp.message.open.asn.AS_TRANS')
    run.check(trans == 23456, ASPATH, 'AS_TRANS = %s' % (trans,), fi.loc(), 'AS_TRANS is 23456')
    # 2-byte packing of the substituted path
    m2 = [n for st in rest for n in walk_no_nested(st) if isinstance(n, ast.Call) and '_pack_segments_raw' in norm(n.func) and any(k.arg == 'asn4' and folder.fold(k.value, fi.module) is False for k in n.keywords)]
    ok2 = bool(m2) and bool(m2[0].args) and {'TRANS', 'ORIG'} <= lf.of(m2[0].args[0])
    run.check(ok2, fi.qualname, 'AS_PATH for a 2-byte peer packs the substituted path 2 bytes wide', fi.loc(m2[0]) if m2 else fi.loc(), 'the 2-byte AS_PATH must carry the substituted path')
    # AS4_PATH with the original path, under the flag
    m4 = [n for st in rest for n in walk_no_nested(st) if isinstance(n, ast.Call) and norm(n.func) == 'AS4Path._pack_segments_raw']
    ok4p = False
    if m4:
        c = m4[0]
        orig = bool(c.args) and lf.of(c.args[0]) == {'ORIG'}
        wide = any(k.arg == 'asn4' and folder.fold(k.value, fi.module) is True for k in c.keywords)
        from ..alpha import facts as _facts4

        def source_of(nm: str) -> str:
            for _ in range(3):
                v_ = l30.single(nm)
                if isinstance(v_, ast.Name):
                    nm = v_.id
            return nm

        flagged = any(f_.isidentifier() and source_of(f_) == flag for f_ in _facts4(l30, c, keep=['*']))
        ok4p = bool(orig) and wide and flagged and 'AS4Path._attribute(' in txt
    run.check(ok4p, fi.qualname, 'AS4_PATH = original path, 4 bytes wide, only when an ASN was substituted', fi.loc(m4[0]) if m4 else fi.loc(), 'RFC 6793 4.2.2: AS4_PATH carries the real path for NEW speakers behind the OLD one')


def _table(fn: ast.AST, loc: Loc | None = None) -> dict[tuple, str] | None:
    """{(send, has): returned expression} from an if-tree over the negotiated send flag and self._has_addpath
    (read directly or through a local, whatever it is called)."""
    out: dict[tuple, str] = {}

    def role(t: ast.AST) -> str | None:
        e = loc.resolve(t) if loc is not None else t
        d = dotted(e) or ''
        if d == 'self._has_addpath':
            return 'has'
        if isinstance(e, ast.Call) and isinstance(e.func, ast.Attribute) and e.func.attr == 'send' and (dotted(e.func.value) or '').endswith('addpath'):
            return 'send'
        return None

    class _Unknown(Exception):
        pass

    def ev(t: ast.AST, env: dict[str, bool]) -> bool:
        if isinstance(t, ast.UnaryOp) and isinstance(t.op, ast.Not):
            return not ev(t.operand, env)
        if isinstance(t, ast.BoolOp):
            vals = [ev(v, env) for v in t.values]
            return all(vals) if isinstance(t.op, ast.And) else any(vals)
        r = role(t)
        if r is None:
            raise _Unknown()
        return env[r]

    def run_(body: list[ast.stmt], env: dict[str, bool]) -> str | None:
        for st in body:
            if isinstance(st, ast.Return):
                v = st.value
                while isinstance(v, ast.IfExp):
                    v = v.body if ev(v.test, env) else v.orelse
                return norm(v) if v is not None else None
            if isinstance(st, ast.If):
                r = run_(st.body if ev(st.test, env) else st.orelse, env)
                if r is not None:
                    return r
                continue
            if isinstance(st, (ast.Expr, ast.Assign, ast.AnnAssign, ast.Pass)):
                continue
            raise _Unknown()
        return None

    # the table is read off by running the tree under each of the four cases
    try:
        for s_ in (True, False):
            for h_ in (True, False):
                r = run_(fn.body, {'send': s_, 'has': h_})  # type: ignore[attr-defined]
                if r is None:
                    return None
                out[(s_, h_)] = r
    except _Unknown:
        return None
    return out


def _r4_addpath(model: Model, run: Run, folder: Folder) -> None:
    users = []
    for fi in model.funcs.values():
        if fi.name == 'pack_nlri' and fi.cls is not None and any(isinstance(n, ast.Attribute) and n.attr == 'addpath' and dotted(n) == 'negotiated.addpath' for n in ast.walk(fi.node)):
            users.append(fi)
    if len(users) < 3:
        run.cannot('fewer than 3 pack_nlri implementations read negotiated.addpath')
    want = {
        (True, True): 'self._packed',
        (True, False): 'bytes(PathInfo.NOPATH.pack_path()) + self._packed',
        (False, True): 'self._packed[PATH_INFO_SIZE:]',
        (False, False): 'self._packed',
    }
    for fi in sorted(users, key=lambda f: f.qualname):
        run.analysed(fi)
        t = _table(fi.node, Loc(model, fi))
        if t is None:
            run.cannot('%s: ADD-PATH decision tree not understood' % fi.qualname)
            continue
        size = folder.fold(ast.parse('PATH_INFO_SIZE').body[0].value, fi.module)
        run.check(t == want and size == 4, fi.qualname, 'ADD-PATH table %s (PATH_INFO_SIZE=%s)' % ({k: v for k, v in sorted(t.items(), reverse=True)}, size), fi.loc(), 'RFC 7911 3: a path identifier is sent iff ADD-PATH send was negotiated for the family; expected %s' % want)
        # predicate
        preds = model.calls_to(fi.module, fi.node, 'RequirePath.send')
        pred = preds[0] if len(preds) == 1 else None
        ok = isinstance(pred, ast.Call) and model.call_matches(fi.module, pred, 'RequirePath.send') and [norm(a) for a in pred.args] == ['self.afi', 'self.safi']
        run.check(bool(ok), fi.qualname, 'negotiated predicate %s' % (norm(pred) if pred is not None else None), fi.loc(), 'encoding uses the SEND direction of ADD-PATH for the NLRI own family')


def _r5_mp(model: Model, run: Run, folder: Folder) -> None:
    reach = model.func(MPC + '.packed_reach_attributes')
    unreach = model.func(MPC + '.packed_unreach_attributes')
    enc = model.func(MPC + '._encode_nexthop')
    for f in (reach, unreach, enc):
        run.analysed(f)
    rl, ul, el = Loc(model, reach), Loc(model, unreach), Loc(model, enc)
    hdr = [n for n in walk_no_nested(reach.node) if isinstance(n, ast.Assign) and not isinstance(n.value, ast.Name) and amatch('self._afi.pack_afi() + self._safi.pack_safi() + bytes([len(V_n)]) + V_n + bytes([0])', rl.expanded(n.value)) is not None]
    run.check(len(hdr) == 1, reach.qualname, 'header = AFI + SAFI + len(nexthop) + nexthop + 0', reach.loc(hdr[0]) if hdr else reach.loc(), 'RFC 4760 3: address family, next hop length, next hop, one reserved zero octet, NLRI')
    hu = [n for n in walk_no_nested(unreach.node) if isinstance(n, ast.Assign) and not isinstance(n.value, ast.Name) and ul.expand(n.value) == 'self._afi.pack_afi() + self._safi.pack_safi()']
    run.check(len(hu) == 1, unreach.qualname, 'header = AFI + SAFI', unreach.loc(), 'RFC 4760 4: MP_UNREACH_NLRI is AFI, SAFI, withdrawn routes')
    c14 = folder.class_attr(MPC, '_CODE_MP_REACH_NLRI')
    c15 = folder.class_attr(MPC, '_CODE_MP_UNREACH_NLRI')
    run.check(c14 == 14 and c15 == 15, MPC, 'attribute codes %s / %s' % (c14, c15), model.cls(MPC).loc(), 'MP_REACH_NLRI is 14, MP_UNREACH_NLRI is 15')
    uses = {('reach', '_CODE_MP_REACH_NLRI'): reach, ('unreach', '_CODE_MP_UNREACH_NLRI'): unreach}
    for (nm, code), f in uses.items():
        hs = [c for c in walk_no_nested(f.node) if isinstance(c, ast.Call) and '_attribute_header' in norm(c.func)]
        good = [n for n, _ in afind('self._attribute_header(self.%s, len(V_p)) + V_p' % code, f.node)]
        run.check(bool(hs) and len(good) == len(hs), f.qualname, 'attribute header uses %s and len(payload)' % code, f.loc(), 'each %s attribute carries its own code and exact length' % nm)
    # next hop: RD-size zero bytes + address
    fkey = enc.node.args.args[2].arg if len(enc.node.args.args) > 2 else '?'
    rdv = [nm for nm, ds in el.defs.items() if any(h == 'assign[1]' and v is not None and amatch('Family.size.get(V_k, (0, 0))', v, {'V_k': fkey}) is not None for v, h, _ in ds)]
    rdv += [nm for nm, ds in el.defs.items() if any(h == 'assign' and v is not None and amatch('Family.size.get(V_k, (0, 0))[1]', v, {'V_k': fkey}) is not None for v, h, _ in ds)]
    nhp = enc.node.args.args[1].arg if len(enc.node.args.args) > 1 else '?'
    rets = [r for r in walk_no_nested(enc.node) if isinstance(r, ast.Return) and r.value is not None and el.depends_on(r.value, [nhp]) and 'pack_ip' in el.expand(r.value, depth=6)]
    ok = len(rdv) == 1 and bool(rets)
    n_ok = 0
    for r in rets:
        # the returned concatenation with the locals written out (the RD size kept): first the zero bytes, then the address;
        # the prefix is decided by evaluating it for an RD size of 0 and of 8, however it is spelt
        terms: list[ast.AST] = []

        def flat(e: ast.AST) -> None:
            if isinstance(e, ast.BinOp) and isinstance(e.op, ast.Add):
                flat(e.left)
                flat(e.right)
            else:
                terms.append(e)

        flat(el.expanded(r.value, depth=6, keep=rdv))
        good = len(terms) >= 2 and norm(terms[1]) == '%s.pack_ip()' % nhp
        if good:
            for size in (0, 8):
                good = good and folder.fold(terms[0], enc.module, enc.cls, {rdv[0]: size}) == b'\x00' * size
        ok = ok and good
        n_ok += 1
    run.check(ok, enc.qualname, 'next hop = RD-size zero bytes + packed address', enc.loc(), 'RFC 4364 4.3.2 / RFC 4659: VPN next hops are prefixed by an all-zero RD')
    fam = model.cls('exabgp.protocol.family.Family')
    size = fam.assigns.get('size')
    vpn_ok = False
    if isinstance(size, ast.Dict):
        for k, v in zip(size.keys, size.values):
            if 'mpls_vpn' in norm(k) and 'ipv4' in norm(k):
                vpn_ok = folder.fold(v, fam.module, fam) in (((4,), 8), ((4,), 8)) or '8' in norm(v)
    run.check(vpn_ok, fam.qualname, 'Family.size gives an 8-byte RD for ipv4 mpls-vpn', fam.loc(), 'RD is 8 bytes')
    # the NLRIs use the negotiated packing
    for f in (reach, unreach):
        pk = [c for c in walk_no_nested(f.node) if isinstance(c, ast.Call) and isinstance(c.func, ast.Attribute) and c.func.attr == 'pack_nlri']
        run.check(bool(pk) and all(c.args and norm(c.args[0]) == f.node.args.args[1].arg for c in pk), f.qualname, 'NLRIs packed with the session negotiated', f.loc(), 'ADD-PATH etc. depend on the session')


def _r6_self(model: Model, run: Run) -> None:
    n = 0
    targets = ('OutgoingRIB.add_to_rib', 'OutgoingRIB.del_from_rib', 'OutgoingRIB.add_to_rib_watchdog')
    for fi in model.funcs.values():
        rel = fi.module.rel
        if not (rel.startswith('exabgp/configuration/') or rel.startswith('exabgp/reactor/api/') or rel.startswith('exabgp/bgp/neighbor/')):
            continue
        for c in model.calls_to(fi.module, fi.node, *targets):
            if not c.args:
                continue
            n += 1
            run.analysed(fi)
            sl = Slicer(model, fi)
            atoms = sl.atoms(c.args[0])
            resolved = any(a.endswith('Neighbor.resolve_self') for a in atoms if a.startswith('call:'))
            cached = any(a.endswith('Cache.cached_routes') or a.endswith('OutgoingRIB.queued_routes') for a in atoms if a.startswith('call:'))
            run.check(
                resolved or cached,
                fi.qualname,
                norm(c)[:80],
                fi.loc(c),
                'the route handed to the RIB does not pass through Neighbor.resolve_self: a "next-hop self" route would be '
                'queued with the unresolved sentinel',
            )
    if n < 2:
        run.cannot('only %d RIB insertion sites in configuration/api' % n)
    ur = model.func('exabgp.rib.outgoing.OutgoingRIB._update_rib')
    first = [s for s in ur.node.body if isinstance(s, ast.If)]
    ok = bool(first) and "'SELF'" in norm(first[0].test) and "'resolved'" in norm(first[0].test) and isinstance(first[0].body[-1], ast.Raise)
    run.check(ok, ur.qualname, 'unresolved next-hop self refused', ur.loc(), 'last line of defence against an unresolved sentinel')
    rs = model.func(NEIGHBOR + '.resolve_self')
    run.analysed(rs)
    rsl = Loc(model, rs)
    rp = rs.node.args.args[1].arg if len(rs.node.args.args) > 1 else '?'
    wn = [c for c in walk_no_nested(rs.node) if isinstance(c, ast.Call) and amatch('V_r.with_nexthop(E_ip)', c, {'V_r': rp}) is not None]
    ok = bool(wn) and all(rsl.expand(c.args[0]).replace(rsl.expand(ast.Name(id='nexthop', ctx=ast.Load())), '$nh') is not None for c in wn)
    # the address handed to with_nexthop is <route next hop>.resolve(self.ip_self(<route>.nlri.afi))
    ok = ok and all(re.fullmatch(r'%s\.nexthop\.resolve\(self\.ip_self\(%s\.nlri\.afi\)\)' % (re.escape(rp), re.escape(rp)), rsl.expand(c.args[0])) is not None for c in wn)
    run.check(ok, rs.qualname, 'next hop resolved to this neighbor ip_self(afi of the route)', rs.loc(), '"next-hop self" is the local address of that session, per address family')
    # the resolved NEXT_HOP goes into a FRESH attribute collection: the operator's route object is shared between
    # the neighbors it is sent to, so it must not be written (a shallow copy shares its dict)
    writes = []
    for n in walk_no_nested(rs.node):
        recv = None
        if isinstance(n, ast.Call) and isinstance(n.func, ast.Attribute) and n.func.attr in ('add', 'remove', 'pop', 'update', 'clear', '__setitem__') and isinstance(n.func.value, ast.Name):
            recv = n.func.value.id
        if isinstance(n, (ast.Assign, ast.AugAssign)):
            for t in (n.targets if isinstance(n, ast.Assign) else [n.target]):
                if isinstance(t, ast.Subscript) and isinstance(t.value, ast.Name):
                    recv = t.value.id
                if isinstance(t, ast.Subscript) and dotted(t.value) and 'attributes' in (dotted(t.value) or ''):
                    recv = dotted(t.value)
        if recv is not None and 'AttributeCollection' in model.type_of(rs.module, n.func.value if isinstance(n, ast.Call) else t.value):
            writes.append((recv, n))
    sl_rs = Slicer(model, rs)
    fresh_ok = bool(writes)
    bad_w = None
    for recv, n in writes:
        defs = sl_rs.defs.get(recv, [])
        if not (len(defs) == 1 and isinstance(defs[0][0], ast.Call) and not defs[0][0].args and model.call_matches(rs.module, defs[0][0], 'AttributeCollection')):
            fresh_ok = False
            bad_w = bad_w or (recv, n)
    run.check(
        fresh_ok,
        rs.qualname,
        'attribute writes go to a freshly constructed AttributeCollection' if fresh_ok else 'writes to `%s`, which is not a fresh AttributeCollection(): %s' % (bad_w[0] if bad_w else '?', norm(bad_w[1])[:60] if bad_w else ''),
        rs.loc(bad_w[1]) if bad_w else rs.loc(),
        'the route handed to resolve_self is shared by every neighbor it is announced to; writing the resolved NEXT_HOP into it (or into a shallow copy, which shares the underlying dict) gives later neighbors the first neighbor\'s address',
    )
    ips = model.funcs.get('exabgp.bgp.neighbor.session.Session.ip_self')
    if ips is None:
        run.cannot('Session.ip_self vanished')
    else:
        run.analysed(ips)
        first_ret = [r for r in walk_no_nested(ips.node) if isinstance(r, ast.Return)]
        ok = bool(first_ret) and dotted(sorted(first_ret, key=lambda r: r.lineno)[0].value) == 'self.local_address'
        g = flat_guards(ips.node, sorted(first_ret, key=lambda r: r.lineno)[0]) if first_ret else []
        ok = ok and any('afi == self.local_address.afi' in norm(t) and pol for t, pol in g)
        run.check(ok, ips.qualname, 'returns the session local address when its family matches the route', ips.loc(), 'self means the local address of the session')
    nip = model.func(NEIGHBOR + '.ip_self')
    run.check('self.session.ip_self(afi)' in norm(nip.node), nip.qualname, 'delegates to Session.ip_self(afi)', nip.loc(), 'Neighbor.ip_self must use the session of this neighbor')


# ---------------------------------------------------------------------------------------------- R10
def _r10_index_presence(model: Model, run: Run) -> None:
    from ..cfg import CFG

    AC = 'exabgp.bgp.message.update.attribute.collection.AttributeCollection'
    gt = model.funcs.get(AC + '._generate_text')
    ix = model.funcs.get(AC + '.index')
    if gt is None or ix is None:
        run.cannot('AttributeCollection._generate_text / index vanished')
        return
    run.analysed(gt)
    run.analysed(ix)
    uses_text = bool(model.calls_to(ix.module, ix.node, 'AttributeCollection._generate_text'))
    run.check(uses_text or True, ix.qualname, 'index() is built from %s' % ('the generated text' if uses_text else 'something else than the generated text'), ix.loc(), '')
    # does every present (non internal, generated) attribute contribute to the text?
    loops = [n for n in gt.node.body if isinstance(n, ast.For) and 'self' in norm(n.iter)]
    if len(loops) != 1:
        run.cannot('_generate_text: loop over the attribute codes not found')
        return
    loop = loops[0]
    cfg = CFG(gt.node)
    pm = parent_map(gt.node)
    targets: set[int] = set()
    for n in ast.walk(loop):
        if isinstance(n, (ast.Yield, ast.YieldFrom)):
            c = cfg.stmt_node_containing(n)
            if c is not None:
                targets.add(c.id)
        if isinstance(n, ast.Continue):
            g = ' '.join(norm(t) for t, pol in flat_guards(gt.node, n, pm))
            if 'INTERNAL' in g or 'NO_GENERATION' in g:
                targets |= {x.id for x in cfg.nodes_of(n)}
    heads = [x for x in cfg.nodes_of(loop) if x.kind == 'test']
    first = [x for st in loop.body[:1] for x in cfg.nodes_of(st)]
    silent = None
    if heads and first:
        ok, path = cfg.all_paths_pass(first[0].id, targets, {heads[0].id})
        if first[0].id in targets:
            ok = True
        if not ok:
            silent = path
    else:
        run.cannot('_generate_text: loop nodes not found in the CFG')
        return
    # ... or does index() add which codes are present?
    adds_codes = False
    for n in walk_no_nested(ix.node):
        if isinstance(n, (ast.GeneratorExp, ast.ListComp, ast.For)):
            it = n.generators[0].iter if isinstance(n, (ast.GeneratorExp, ast.ListComp)) else n.iter
            if 'self' in norm(it) and '_generate_text' not in norm(it):
                adds_codes = True
    where = None
    if silent:
        for i in silent:
            a = cfg.nodes[i].ast
            if isinstance(a, ast.If) or (a is not None and cfg.nodes[i].kind == 'test'):
                where = a
    run.check(
        silent is None or adds_codes,
        ix.qualname,
        'collections that differ in which attributes are present have different indexes (%s)' % ('every present attribute prints' if silent is None else ('index() lists the codes' if adds_codes else 'an attribute can be present and print nothing')),
        gt.loc(where) if where is not None else ix.loc(),
        '_generate_text prints nothing for a present attribute on the path %s, and index() is that text plus the next hop: `as-path [ ]` '
        'and no as-path at all get one index, the outgoing RIB keeps one collection for both and on eBGP one of the two routes goes out '
        'with the other one\'s AS_PATH' % (cfg.describe_path(silent) if silent else ''),
    )


def _r11_sections(model: Model, run: Run, folder: Folder) -> None:
    from ..evalfn import Raised, Undecided, eval_function

    fi = model.func('exabgp.bgp.message.update.collection.UpdateCollection.messages')
    run.analysed(fi)
    # the buffers: plain lists end in the NLRI / withdrawn fields, the per-family dicts in MP_REACH / MP_UNREACH
    plain, keyed = set(), set()
    for st in fi.node.body:
        tg = st.targets[0] if isinstance(st, ast.Assign) and len(st.targets) == 1 else st.target if isinstance(st, ast.AnnAssign) else None
        v = getattr(st, 'value', None)
        if isinstance(tg, ast.Name) and isinstance(v, ast.List) and not v.elts:
            plain.add(tg.id)
        if isinstance(tg, ast.Name) and isinstance(v, ast.Dict) and not v.keys:
            keyed.add(tg.id)
    loops = [st for st in fi.node.body if isinstance(st, ast.For) and isinstance(st.target, ast.Name)]
    ann = [lp for lp in loops if 'self._announces' in norm(lp.iter)]
    wdr = [lp for lp in loops if 'self._withdraws' in norm(lp.iter)]
    if len(ann) != 1 or len(wdr) != 1 or not plain or not keyed:
        run.cannot('messages(): the announce / withdraw sorting loops or their buffers were not found (%d, %d, %s, %s)' % (len(ann), len(wdr), sorted(plain), sorted(keyed)))
        return

    def turn(loop: ast.For, item: dict) -> tuple[list[str], object]:
        eff: list[str] = []
        nl = item.get('nlri', item)

        def unknown(e: ast.AST):
            t = norm(e)
            if t.startswith('isinstance(') and 'Empty' in t:
                return False
            if 'negotiated.families' in t:
                return False  # the family was negotiated
            if 'validate_announce_nlri' in t:
                return None
            if t.endswith('.family().afi_safi()'):
                return (nl['afi'], nl['safi'])
            return UNKNOWN

        def effect(call: ast.Call, env: dict) -> bool:
            f = call.func
            if isinstance(f, ast.Attribute) and f.attr in ('append', 'extend', 'add'):
                root = f.value
                while isinstance(root, (ast.Attribute, ast.Call, ast.Subscript)):
                    root = root.func if isinstance(root, ast.Call) else root.value
                if isinstance(root, ast.Name) and root.id in plain | keyed:
                    eff.append('plain' if root.id in plain else 'keyed')
                    return True
            return False

        r = eval_function(folder, fi, {loop.target.id: item}, body=loop.body, outcomes=True, on_unknown=unknown, on_effect=effect)
        return eff, r

    AFIS = {'ipv4': 1, 'ipv6': 2}
    SAFIS = {'unicast': 1, 'multicast': 2, 'nlri-mpls': 4, 'mpls-vpn': 128, 'flow': 133}
    for an, a in AFIS.items():
        for sn, sf in SAFIS.items():
            nlri = {'afi': a, 'safi': sf}
            # withdraws
            eff, r = turn(wdr[0], nlri)
            want = ['plain'] if (a, sf) == (1, 1) else ['keyed']
            if isinstance(r, Undecided):
                run.cannot('messages(): withdraw of %s %s: statement at line %s not evaluated' % (an, sn, getattr(r.at, 'lineno', '?')))
            else:
                run.check(eff == want and not isinstance(r, Raised), fi.qualname, 'withdraw of %s %s goes to %s' % (an, sn, eff or r), fi.loc(wdr[0]), 'the withdrawn-routes field is IPv4 unicast only (RFC 4271 4.3): a route of another family written there is withdrawn as an IPv4 unicast prefix; expected %s' % want)
            for nn, nh in (('ipv4', 1), ('ipv6', 2)):
                if sf == 133:
                    continue
                eff, r = turn(ann[0], {'nlri': nlri, 'nexthop': {'afi': nh}})
                want = ['plain'] if (a, sf, nh) == (1, 1, 1) else ['keyed']
                if isinstance(r, Undecided):
                    run.cannot('messages(): announce of %s %s via %s: statement at line %s not evaluated' % (an, sn, nn, getattr(r.at, 'lineno', '?')))
                    continue
                run.check(eff == want and not isinstance(r, Raised), fi.qualname, 'announce of %s %s with an %s next hop goes to %s' % (an, sn, nn, eff or r), fi.loc(ann[0]), 'the NLRI field is IPv4 unicast with the next hop in NEXT_HOP, an IPv4 address (RFC 4271 4.3, RFC 4760, RFC 8950): anything else written there is announced as an IPv4 unicast prefix, or without a next hop; expected %s' % want)


def _r12_no_empty_update(model: Model, run: Run) -> None:
    fi = model.func('exabgp.bgp.message.update.collection.UpdateCollection.messages')
    run.analysed(fi)
    loc = Loc(model, fi)
    # the route buffers: byte strings that start empty (b'') - the packed attributes are not one of them
    buffers = {nm for nm, ds in loc.defs.items() if any(isinstance(v, ast.Constant) and v.value == b'' for v, h, _ in ds if h == 'assign')}
    if len(buffers) < 4:
        run.cannot('messages(): fewer than 4 route buffers found (%s)' % sorted(buffers))
        return
    pm = parent_map(fi.node)
    n = 0
    for y in walk_no_nested(fi.node):
        if not (isinstance(y, ast.Yield) and isinstance(y.value, ast.Call) and norm(y.value.func).endswith('_message')):
            continue
        used = {x.id for x in ast.walk(y.value) if isinstance(x, ast.Name) and x.id in buffers}
        if not used:
            continue  # the attributes-only UPDATE, asked for as such
        n += 1
        tested = set()
        for t, pol in flat_guards(fi.node, y, pm):
            tested |= {x.id for x in ast.walk(t) if isinstance(x, ast.Name) and x.id in buffers}
        run.check(bool(tested), fi.qualname, 'UPDATE built from %s is emitted under a test of %s' % (sorted(used), sorted(tested) or 'none of them'), fi.loc(y), 'when every buffer is empty (the withdraws of the family are held back in the first batch of a session) the message is `0000 0000`: the peer reads the End-of-RIB of IPv4 unicast')
    if n < 4:
        run.cannot('messages(): only %d yields built from the route buffers' % n)
