"""C19 — decoding does not depend on what was decoded before.  DESIGN.md 3/C19."""

from __future__ import annotations

import ast
import re

from ..alpha import Loc, facts
from ..const import UNKNOWN, Folder
from ..flow import Slicer, dotted_reads, flat_guards, parent_map
from ..model import FuncInfo, Model, dotted, norm, walk_no_nested
from ..report import Run
from .C03 import decode_reachable
from .common import CallGraph, short
from . import registry_helpers as rh

AC = 'exabgp.bgp.message.update.attribute.collection.AttributeCollection'
UC = 'exabgp.bgp.message.update.collection.UpdateCollection'


def runtime_class_writes(model: Model) -> dict[tuple[str, str], list[tuple[FuncInfo, ast.AST]]]:
    """(class qualname, attribute) -> writes `cls.X = ...` / `Klass.X = ...` / `kls.X = ...` made inside functions."""
    out: dict[tuple[str, str], list[tuple[FuncInfo, ast.AST]]] = {}
    for fi in model.funcs.values():
        for n in walk_no_nested(fi.node):
            if not isinstance(n, (ast.Assign, ast.AugAssign, ast.AnnAssign)):
                continue
            tgts = n.targets if isinstance(n, ast.Assign) else [n.target]
            for t in tgts:
                if not isinstance(t, ast.Attribute):
                    continue
                ty = model.type_of(fi.module, t.value)
                if ty.startswith('Type['):
                    for c in model.type_classes(fi.module, t.value):
                        out.setdefault((c, t.attr), []).append((fi, n))
    return out


def check(model: Model, run: Run) -> None:
    folder = Folder(model)
    cg = CallGraph(model)
    pred = decode_reachable(model, cg)
    dec = set(pred)
    writes = runtime_class_writes(model)

    # ------------------------------------------------------------------ R1 memo keys complete
    run.rule(
        'C19.R1',
        'memoised decoding: a decode-reachable function that computes with `negotiated` and returns a value kept in class-level '
        'state must make the hit depend on the session as well as on the bytes (or the memo must be provably off)',
        floor=1,
    )
    n_memo = 0
    for q in sorted(dec):
        fi = model.funcs[q]
        params = [a.arg for a in fi.node.args.args]
        if 'negotiated' not in params or fi.cls is None:
            continue
        # does the computation use negotiated?
        uses = [c for c in walk_no_nested(fi.node) if isinstance(c, ast.Call) and any(isinstance(a, ast.Name) and a.id == 'negotiated' for a in c.args)]
        if not uses:
            continue
        for ifn in walk_no_nested(fi.node):
            if not isinstance(ifn, ast.If):
                continue
            rets = [r for r in ifn.body if isinstance(r, ast.Return) and r.value is not None]
            if not rets:
                continue
            rv = rets[0].value
            roots = {d for d in dotted_reads(rv) if d.split('.')[0] == 'cls' or d.split('.')[0] in fi.module.classes or d.split('.')[0] in fi.module.imports}
            memo_attrs = []
            for d in roots:
                parts = d.split('.')
                if len(parts) < 2:
                    continue
                owner = fi.cls.qualname if parts[0] == 'cls' else None
                attr = parts[1]
                # a memo is class state that is written at run time (or a cache container mutated at run time)
                written = any(a == attr and (owner is None or model.is_subclass(owner, c) or model.is_subclass(c, owner)) for (c, a) in writes)
                container = attr in ('cache', '_cache')
                if written or container:
                    memo_attrs.append(d)
            if not memo_attrs:
                continue
            n_memo += 1
            run.analysed(fi)
            test_reads = dotted_reads(ifn.test)
            sl = Slicer(model, fi)
            atoms = set()
            for t, pol in flat_guards(fi.node, rets[0]):
                atoms |= sl.atoms(t)
            uses_session = any(a == 'param:negotiated' or a.startswith('attr:negotiated') for a in atoms)
            # provably off: the guard folds to false
            off = False
            for t, pol in flat_guards(fi.node, rets[0]):
                for nm in [x for x in ast.walk(t) if isinstance(x, ast.Name)]:
                    for v, _ in sl.defs.get(nm.id, []):
                        val = _fold_cls(folder, v, fi, {a for (_c, a) in writes})
                        if val is False:
                            off = True
            inst = '%s: if %s: return %s' % (short(q), norm(ifn.test)[:50], norm(rv)[:30])
            if uses_session:
                run.ok(inst, 'hit depends on the session')
            elif off:
                run.ok(inst, 'memo provably off for this entry point')
            else:
                run.violation(
                    q,
                    'memo hit `%s` ignores the session' % norm(ifn.test)[:70],
                    fi.loc(ifn),
                    'the value returned from %s was decoded with the negotiated parameters of ANOTHER session (ASN width, ADD-PATH, '
                    'AIGP): the same attribute bytes decode to ( 1 2 ) ( 3 ) on a 2-byte session and ( 65538 33619971 ) on a 4-byte '
                    'one, and whichever came first is served to both' % ', '.join(memo_attrs),
                )
    if n_memo < 2:
        run.cannot('only %d memo sites found on the decode path' % n_memo)

    # the shared cached collection must not be handed to a consumer that mutates it
    run.rule('C19.R1b', 'the attribute collection kept in AttributeCollection.cached is never one a consumer mutates: every key that UpdateCollection._parse_payload pops from the returned collection is excluded by the caching guard', floor=1)
    cache_guard_rule(model, run, folder)

    # ------------------------------------------------------------------ R2 no peer-driven rewrite of class state
    run.rule('C19.R2', 'no decode-reachable function rewrites a class attribute of a class that is registered under two or more keys (earlier objects of that class would change meaning)', floor=2)
    multi: dict[str, list] = {}
    for deco in ('Capability.register', 'Attribute.register', 'NLRI.register', 'Message.register'):
        for ci, d in rh.decorated(model, deco):
            multi.setdefault(ci.qualname, []).append(d)
    multi = {k: v for k, v in multi.items() if len(v) >= 2}
    run.extra['multiply_registered'] = sorted(short(k) for k in multi)
    n_w = 0
    for (cname, attr), sites in sorted(writes.items()):
        for fi, node in sites:
            if fi.qualname not in dec:
                continue
            n_w += 1
            run.analysed(fi)
            # which registered classes can this write hit?
            hit = sorted(k for k in multi if model.is_subclass(k, cname))
            # memo slots written by the decoder itself are judged by R1
            if attr in ('cached', 'previous'):
                run.ok('%s: %s' % (short(fi.qualname), norm(node)[:50]), 'memo slot (see R1)')
                continue
            readers = [k for k in hit if _reads_attr(model, k, attr)]
            if readers:
                run.violation(
                    fi.qualname,
                    'class attribute %s rewritten while decoding' % attr,
                    fi.loc(node),
                    '%s is registered under several codes and reads %s in its renderers: a peer OPEN carrying the other code flips the '
                    'class attribute process-wide, so capabilities decoded earlier (other sessions included) render differently afterwards' % (', '.join(short(r) for r in readers), attr),
                )
            else:
                run.ok('%s: %s' % (short(fi.qualname), norm(node)[:50]), 'single registration per class: the value written is the one already there')
    if n_w < 2:
        run.cannot('only %d class-attribute writes on the decode path' % n_w)

    # ------------------------------------------------------------------ R5 a memo on a shared object answers one question only
    run.rule('C19.R5', 'a rendering memoised on an object (`if not self.x: self.x = ...; return self.x`) does not depend on the arguments of the call: decoded attribute sets are shared between messages (block cache, attribute cache), so the first caller would decide what every later caller reads', floor=1)
    n5 = 0
    for fi in sorted(model.funcs.values(), key=lambda f: f.qualname):
        # attribute objects are the ones handed from one decoded message to the next (AttributeCollection.cached, Attribute.cache)
        if fi.cls is None or not fi.module.rel.startswith('exabgp/bgp/message/update/attribute/'):
            continue
        params = [a.arg for a in fi.node.args.args[1:]] + [a.arg for a in fi.node.args.kwonlyargs]
        if not params:
            continue
        fl = None
        for iff in walk_no_nested(fi.node):
            if not isinstance(iff, ast.If):
                continue
            t = iff.test
            if not (isinstance(t, ast.UnaryOp) and isinstance(t.op, ast.Not) and isinstance(t.operand, ast.Attribute) and dotted(t.operand.value) == 'self'):
                # `if self.x is None:` is the other spelling
                if not (isinstance(t, ast.Compare) and isinstance(t.ops[0], ast.Is) and isinstance(t.left, ast.Attribute) and dotted(t.left.value) == 'self' and isinstance(t.comparators[0], ast.Constant) and t.comparators[0].value is None):
                    continue
                slot = dotted(t.left)
            else:
                slot = dotted(t.operand)
            sets = [a for a in iff.body if isinstance(a, ast.Assign) and dotted(a.targets[0]) == slot]
            rets = [r for r in walk_no_nested(fi.node) if isinstance(r, ast.Return) and r.value is not None and dotted(r.value) == slot]
            if not sets or not rets:
                continue
            n5 += 1
            fl = fl or Loc(model, fi)
            reads = {p for p in params if fl.depends_on(sets[0].value, [p])}
            # parameters pinned by the guards the memo sits under (the early `if a or b: return <uncached>` form)
            fs = facts(fl, sets[0])
            pinned = {p for p in reads if ('not %s' % p) in fs or any(f.startswith(p + ' is ') or f.startswith(p + ' == ') for f in fs)}
            free = sorted(reads - pinned)
            run.check(not free, fi.qualname, 'memo %s does not depend on the call arguments (reads %s, pinned %s)' % (slot, sorted(reads), sorted(pinned)), fi.loc(sets[0]), 'the value kept in %s is computed from the argument(s) %s of whichever call came first; the object is handed to later messages by the attribute block cache, so they get the rendering asked for by an earlier one (an extra or a missing "next-hop")' % (slot, free))
    if n5 < 1:
        run.cannot('no memoised rendering found on the attribute classes')

    # ------------------------------------------------------------------ R7 per-session objects keep their tables to themselves
    run.rule(
        'C19.R7',
        'what a session negotiated is kept in that session: a mutable container declared at class level and filled through `self` '
        'by an instance method is one table for every instance of the class - per-session classes (RequirePath, Negotiated, the '
        'capability and message objects) create theirs in __init__; the few process-wide tables that exist on purpose are listed',
        floor=5,
    )
    _r7_shared_tables(model, run)

    # ------------------------------------------------------------------ R6 what is recognised by identity stays in its table
    run.rule('C19.R6', 'a class-level table whose entries are recognised by identity (`self is entry` while walking the table) only grows: nothing deletes, pops, clears or replaces it at run time, otherwise an object decoded earlier stops being what it was', floor=1)
    ident_tables: dict[tuple[str, str], FuncInfo] = {}
    for fi in model.funcs.values():
        if fi.cls is None:
            continue
        for lp in walk_no_nested(fi.node):
            if not isinstance(lp, ast.For):
                continue
            it = lp.iter
            base = it.func.value if isinstance(it, ast.Call) and isinstance(it.func, ast.Attribute) and it.func.attr in ('items', 'values') else it
            d = dotted(base) or ''
            if not (d.startswith('self._') or d.startswith('cls._')) or not d.split('.', 1)[1].isupper():
                continue
            tnames = {x.id for x in ast.walk(lp.target) if isinstance(x, ast.Name)}
            if any(isinstance(c, ast.Compare) and isinstance(c.ops[0], (ast.Is, ast.IsNot)) and ({dotted(c.left), dotted(c.comparators[0])} & tnames) and 'self' in (dotted(c.left), dotted(c.comparators[0])) for c in ast.walk(lp)):
                ident_tables[(fi.cls.qualname, d.split('.', 1)[1])] = fi
    if not ident_tables:
        run.cannot('no identity-keyed class table found (UpdateCollection._EOR_CACHE expected)')
    for (cq, attr), reader in sorted(ident_tables.items()):
        shrink = []
        for fi in model.funcs.values():
            if fi.cls is None or not (fi.cls.qualname == cq or model.is_subclass(fi.cls.qualname, cq)):
                continue
            for n in walk_no_nested(fi.node):
                if isinstance(n, ast.Delete) and any(attr in norm(t) for t in n.targets):
                    shrink.append((fi, n))
                if isinstance(n, ast.Call) and isinstance(n.func, ast.Attribute) and n.func.attr in ('pop', 'popitem', 'clear') and (dotted(n.func.value) or '').endswith('.' + attr):
                    shrink.append((fi, n))
                if isinstance(n, ast.Assign) and any((dotted(t) or '').endswith('.' + attr) for t in n.targets):
                    shrink.append((fi, n))
        run.check(not shrink, cq, '%s only grows (entries are recognised by identity in %s)' % (attr, short(reader.qualname)), shrink[0][0].loc(shrink[0][1]) if shrink else reader.loc(), 'an entry is removed (%s): an object handed out earlier is no longer found in the table, so a decoded End-of-RIB marker that is still held stops being an End-of-RIB' % (norm(shrink[0][1])[:60] if shrink else ''))

    # ------------------------------------------------------------------ R8 the per-attribute cache (shared with C15.R13)
    run.rule(
        'C19.R8',
        'the per-attribute cache of Attribute.unpack, keyed by the value bytes alone, serves no class whose decoder reads the '
        'session (or is never consulted): otherwise what one session decoded decides what the next one gets for the same bytes',
        floor=1,
    )
    from .C15 import attribute_cache_rule

    attribute_cache_rule(model, run, folder)

    # ------------------------------------------------------------------ R3 negotiated read-only
    run.rule('C19.R3', 'no decode-reachable function assigns to an attribute of its `negotiated` parameter', floor=60)
    n_f = 0
    for q in sorted(dec):
        fi = model.funcs[q]
        if 'negotiated' not in [a.arg for a in fi.node.args.args]:
            continue
        n_f += 1
        bad = []
        for n in walk_no_nested(fi.node):
            if isinstance(n, (ast.Assign, ast.AugAssign, ast.AnnAssign)):
                for t in (n.targets if isinstance(n, ast.Assign) else [n.target]):
                    d = dotted(t.value) if isinstance(t, (ast.Attribute, ast.Subscript)) else None
                    if d and d.split('.')[0] == 'negotiated':
                        bad.append(n)
            if isinstance(n, ast.Call) and isinstance(n.func, ast.Attribute) and n.func.attr in ('append', 'extend', 'update', 'setdefault', 'pop', 'clear', 'add', 'remove') and (dotted(n.func.value) or '').split('.')[0] == 'negotiated' and len((dotted(n.func.value) or '').split('.')) >= 2:
                bad.append(n)
        if bad:
            run.violation(q, 'writes session state while decoding: %s' % norm(bad[0])[:60], fi.loc(bad[0]), 'decoding a message must not change the negotiated parameters later messages are decoded with')
        else:
            run.ok(short(q))


def cache_guard_rule(model: Model, run: Run, folder: Folder) -> None:
    """shared by C19.R1b and C02.R7"""
    un = model.func(AC + '.unpack')
    pp = model.func(UC + '._parse_payload')
    run.analysed(un)
    run.analysed(pp)
    popped = set()
    ppl = Loc(model, pp)
    got = set(ppl.from_call('AttributeCollection.unpack'))
    for c in walk_no_nested(pp.node):
        if isinstance(c, ast.Call) and isinstance(c.func, ast.Attribute) and c.func.attr in ('pop', 'remove', '__delitem__') and dotted(c.func.value) in got and c.args:
            v = folder.fold(c.args[0], pp.module)
            popped.add(v if v is not UNKNOWN else norm(c.args[0]))
    # every case in which something other than None is stored in cls.cached, with the facts of that case
    from ..alpha import value_cases

    ul_ = Loc(model, un)
    store = []
    case_facts: list[set[str]] = []
    for n in walk_no_nested(un.node):
        if isinstance(n, ast.Assign) and dotted(n.targets[0]) == 'cls.cached':
            for fs, v in value_cases(ul_, n, n.value):
                if not (isinstance(v, ast.Constant) and v.value is None):
                    store.append(n)
                    case_facts.append(fs)
    excluded: set | None = None
    for fs in case_facts:
        ex = set()
        for f_ in fs:
            m_ = re.fullmatch(r'([\w.]+) not in .+', f_)
            if m_:
                e_ = ast.parse(m_.group(1), mode='eval').body
                v = folder.fold(e_, un.module, un.cls)
                ex.add(v if v is not UNKNOWN else m_.group(1))
        excluded = ex if excluded is None else (excluded & ex)
    excluded = excluded or set()
    missing = popped - excluded
    run.check(bool(store) and bool(popped) and not missing, un.qualname, 'caching guard excludes %s; consumers pop %s' % (sorted(map(str, excluded)), sorted(map(str, popped))), un.loc(store[0]) if store else un.loc(), 'attribute code(s) %s are popped from the returned collection by _parse_payload but a collection holding them can be cached: the first decode strips the shared object and the next identical block loses those routes' % sorted(map(str, missing)))
    # key and value of the one-entry memo move together
    from ..cfg import CFG as _CFG

    cfg_u = _CFG(un.node)
    keyw = [n for n in walk_no_nested(un.node) if isinstance(n, ast.Assign) and dotted(n.targets[0]) in ('cls.previous', 'cls.previous_negotiated')]
    valw = [n for n in walk_no_nested(un.node) if isinstance(n, ast.Assign) and dotted(n.targets[0]) == 'cls.cached']
    vt = {cfg_u.node_of(n).id for n in valw if cfg_u.node_of(n) is not None}
    bad_k = None
    for k_ in keyw:
        kn = cfg_u.node_of(k_)
        if kn is None:
            continue
        for succ, lab in kn.succ:
            if lab == 'exc' or succ in vt:
                continue
            passed, wit = cfg_u.all_paths_pass(succ, vt, {cfg_u.exit.id, cfg_u.raise_exit.id})
            if not passed:
                bad_k = bad_k or (k_, wit)
    run.check(bool(keyw) and bool(valw) and bad_k is None, un.qualname, 'the memo key (previous, previous_negotiated) is never updated without the memo value (cached)', un.loc(bad_k[0]) if bad_k else un.loc(), 'a path leaves unpack with the key rewritten and the value untouched (%s): the next identical block is served the collection of an OLDER block' % (' -> '.join(cfg_u.describe_path(bad_k[1])[-5:]) if bad_k else ''))
    # also: the marker short-cut returns before caching
    taw = [n for n in walk_no_nested(un.node) if isinstance(n, ast.If) and 'INTERNAL_TREAT_AS_WITHDRAW' in norm(n.test)]
    run.check(bool(taw) and store and taw[0].lineno < store[0].lineno and isinstance(taw[0].body[-1], ast.Return), un.qualname, 'treat-as-withdraw collections are not cached', un.loc(), 'a malformed block must not be served from the cache')



def _fold_cls(folder: Folder, expr: ast.AST, fi: FuncInfo, written: set[str] = frozenset()):
    """Fold `cls.caching and cls.CACHING` style expressions with cls = the defining class.  Attributes that some
    function assigns at run time (configuration switches) are never folded."""
    if isinstance(expr, ast.BoolOp) and isinstance(expr.op, ast.And):
        vals = [_fold_cls(folder, v, fi, written) for v in expr.values]
        if any(v is False for v in vals):
            return False
        return UNKNOWN
    if isinstance(expr, ast.Attribute) and expr.attr in written:
        return UNKNOWN
    if isinstance(expr, ast.Attribute) and dotted(expr.value) == 'cls' and fi.cls is not None:
        # only sound when the method is invoked on the defining class itself: check the callers
        v = folder.class_attr(fi.cls.qualname, expr.attr)
        if v is False and _only_called_on_own_class(folder.model, fi):
            return False
        return UNKNOWN
    return folder.fold(expr, fi.module, fi.cls)


def _only_called_on_own_class(model: Model, fi: FuncInfo) -> bool:
    """Every call site of fi has the defining class itself as receiver (Attribute.unpack(...))."""
    n = 0
    for f in model.funcs.values():
        for c in walk_no_nested(f.node):
            if isinstance(c, ast.Call) and isinstance(c.func, ast.Attribute) and c.func.attr == fi.name and fi.qualname in model.callees(f.module, c, by_name=False):
                n += 1
                recv = c.func.value
                if not (isinstance(recv, ast.Name) and fi.cls is not None and recv.id == fi.cls.name):
                    return False
    return n > 0


def _reads_attr(model: Model, cls_qn: str, attr: str) -> bool:
    ci = model.classes.get(cls_qn)
    if ci is None:
        return False
    for f in ci.methods.values():
        for n in walk_no_nested(f.node):
            if isinstance(n, ast.Attribute) and n.attr == attr and dotted(n.value) in ('self', 'cls') and isinstance(n.ctx, ast.Load):
                return True
    return False


def check_thorough(model: Model, run: Run) -> None:
    run.rule('C19.R4', 'shared singletons handed out from class-level slots (ASPath.Empty, NLRI.INVALID/EMPTY, NextHop.UNSET, EOR cache) are not the receiver of a mutating call in decode-reachable code', floor=1)
    cg = CallGraph(model)
    dec = set(decode_reachable(model, cg))
    singles = ('Empty', 'INVALID', 'EMPTY', 'UNSET', 'NoNextHop')
    bad = []
    n = 0
    for q in sorted(dec):
        fi = model.funcs[q]
        for c in walk_no_nested(fi.node):
            if isinstance(c, ast.Call) and isinstance(c.func, ast.Attribute) and c.func.attr in ('append', 'extend', 'add', 'update', 'pop', 'remove', 'clear', 'insert'):
                d = dotted(c.func.value) or ''
                n += 1
                if d.rsplit('.', 1)[-1] in singles:
                    bad.append((fi, c))
    for fi, c in bad:
        run.violation(fi.qualname, norm(c)[:60], fi.loc(c), 'a shared singleton is mutated while decoding')
    if not bad:
        run.ok('%d mutating calls on the decode path, none on a singleton' % n)


# ---------------------------------------------------------------------------------------------- R7
R7_PROCESS_WIDE = {
    ('exabgp.bgp.message.operational.SequencedOperationalFamily', '__sequence_number'): 'sequence numbers of OPERATIONAL messages are per router-id across sessions by design',
    ('exabgp.bgp.neighbor.neighbor.Neighbor', '_GLOBAL'): 'process-wide uid counter',
    ('exabgp.reactor.api.response.json.JSON', '_count'): 'per-neighbor event counters of the API, keyed by neighbor uid',
    ('exabgp.reactor.network.connection.Connection', 'identifier'): 'connection numbering per direction, process-wide on purpose',
    ('exabgp.rib.RIB', '_cache'): 'the RIB of a neighbor survives its Neighbor object (reload), keyed by neighbor name',
}


def _r7_shared_tables(model: Model, run: Run) -> None:
    MUT = ('append', 'extend', 'add', 'update', 'setdefault', 'pop', 'clear', 'remove', 'insert', 'popitem', 'discard', 'appendleft')
    n = 0
    for q, ci in sorted(model.classes.items()):
        cl: dict[str, ast.AST] = {}
        for st in ci.node.body:
            tg, v = None, None
            if isinstance(st, ast.Assign) and isinstance(st.targets[0], ast.Name):
                tg, v = st.targets[0].id, st.value
            if isinstance(st, ast.AnnAssign) and isinstance(st.target, ast.Name) and st.value is not None:
                tg, v = st.target.id, st.value
            if tg and (isinstance(v, (ast.Dict, ast.List, ast.Set)) or (isinstance(v, ast.Call) and isinstance(v.func, ast.Name) and v.func.id in ('dict', 'list', 'set', 'deque', 'defaultdict'))):
                cl[tg] = st
        if not cl:
            continue
        rebound: set[str] = set()
        for f in ci.methods.values():
            for a in ast.walk(f.node):
                if isinstance(a, (ast.Assign, ast.AnnAssign)):
                    for t in (a.targets if isinstance(a, ast.Assign) else [a.target]):
                        d = dotted(t) or ''
                        if d.startswith('self.') and d[5:] in cl:
                            rebound.add(d[5:])
        hits: dict[str, tuple[FuncInfo, ast.AST]] = {}
        for f in ci.methods.values():
            if not f.node.args.args or f.node.args.args[0].arg != 'self':
                continue
            for x in ast.walk(f.node):
                name = None
                if isinstance(x, ast.Call) and isinstance(x.func, ast.Attribute) and x.func.attr in MUT:
                    d = dotted(x.func.value) or ''
                    if d.startswith('self.') and d[5:] in cl:
                        name = d[5:]
                if isinstance(x, (ast.Assign, ast.AugAssign, ast.Delete)):
                    for t in (x.targets if isinstance(x, (ast.Assign, ast.Delete)) else [x.target]):
                        if isinstance(t, ast.Subscript):
                            d = dotted(t.value) or ''
                            if d.startswith('self.') and d[5:] in cl:
                                name = d[5:]
                if name and name not in rebound:
                    hits.setdefault(name, (f, x))
        n += len(cl)
        for name, (f, x) in sorted(hits.items()):
            key = (q, name.lstrip('_') if False else name)
            if (q, name) in R7_PROCESS_WIDE:
                run.ok('%s.%s: process-wide on purpose' % (short(q), name), R7_PROCESS_WIDE[(q, name)])
                continue
            run.violation(
                q,
                'class-level container %s is filled through self (%s)' % (name, norm(x)[:50]),
                f.loc(x),
                '%s is created once, in the class body, and %s writes into it through self without the instance ever getting a '
                'container of its own: every instance shares one table, so what one session negotiated (ADD-PATH per family) is in force '
                'for every other session of the process' % (name, short(f.qualname)),
            )
    if n < 5:
        run.cannot('only %d class-level containers found' % n)
