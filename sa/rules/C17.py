"""C17 — configuration reload applies the difference, or nothing at all.  DESIGN.md 3/C17."""

from __future__ import annotations

import ast

from ..alpha import Loc, afind, amatch, facts
from ..cfg import CFG
from ..const import Folder
from ..flow import Slicer, flat_guards, parent_map
from ..model import Model, dotted, norm, walk_no_nested
from ..report import Run
from .C05 import _calls_in_stmt
from .common import prev_minus_new, short

CONF = 'exabgp.configuration.configuration.Configuration'
RIB = 'exabgp.rib.outgoing.OutgoingRIB'
REACTOR = 'exabgp.reactor.loop.Reactor'


def check(model: Model, run: Run) -> None:
    folder = Folder(model)
    rl = model.func(CONF + '._reload')
    rel = model.func(CONF + '.reload')
    run.analysed(rl)
    run.analysed(rel)
    mod = rl.module

    # ------------------------------------------------------------------ R1 clear paired with commit or rollback
    run.rule(
        'C17.R1',
        'after Configuration._clear() every exit of _reload - return or escaping exception - passes _commit_reload or '
        '_rollback_reload: a reload that fails for any reason (file gone, unreadable, syntax error, exception) leaves the '
        'neighbors as they were',
        floor=2,
    )
    cfg = CFG(rl.node)
    clear = model.calls_to(mod, rl.node, 'Configuration._clear')
    ends = model.calls_to(mod, rl.node, 'Configuration._commit_reload', 'Configuration._rollback_reload')
    if not clear:
        run.cannot('_clear() call not found in _reload')
    else:
        cn = cfg.stmt_node_containing(clear[0])
        targets = {cfg.stmt_node_containing(c).id for c in ends if cfg.stmt_node_containing(c) is not None}
        bad_paths = []
        if cn is not None:
            for succ, lab in cn.succ:
                if lab == 'exc':
                    continue
                for stop, kind in ((cfg.exit.id, 'return'), (cfg.raise_exit.id, 'exception')):
                    passed, wit = cfg.all_paths_pass(succ, targets, {stop})
                    if succ in targets:
                        passed = True
                    if not passed:
                        bad_paths.append((kind, wit))
        if not bad_paths:
            run.ok('_reload: every exit after _clear() commits or rolls back', '%d commit/rollback sites' % len(ends))
        seen_lines = set()
        for kind, wit in bad_paths:
            # name the offending exit by its last real statement
            last = None
            for i in reversed(wit):
                n = cfg.nodes[i]
                if n.ast is not None and n.kind in ('stmt', 'test'):
                    last = n
                    break
            line = getattr(last.ast, 'lineno', 0) if last is not None else 0
            if (kind, line) in seen_lines:
                continue
            seen_lines.add((kind, line))
            what = norm(last.ast)[:60] if last is not None and last.kind == 'stmt' else ('if ' + norm(last.ast.test)[:50] if last is not None else '?')
            run.violation(
                rl.qualname,
                '%s exit after _clear() without commit/rollback: %s' % (kind, what),
                rl.loc(last.ast) if last is not None else rl.loc(),
                '_clear() has already replaced self.neighbors by {} (the previous table is parked in _previous_neighbors); this '
                'exit leaves it empty: a reload that fails keeps no neighbor, API commands reach nobody and the next reload sees '
                'no previous configuration',
                [' -> '.join(cfg.describe_path(wit)[-8:])],
            )
    # what _clear / _rollback / _commit do
    clr = model.func(CONF + '._clear')
    t = norm(clr.node)
    run.check('self._previous_neighbors = self.neighbors' in t and 'self.neighbors = {}' in t, clr.qualname, 'parks the neighbors in _previous_neighbors', clr.loc(), 'rollback needs the previous table')
    rb = model.func(CONF + '._rollback_reload')
    t = norm(rb.node)
    run.check('self.neighbors = self._previous_neighbors' in t, rb.qualname, 'restores the neighbors', rb.loc(), 'rollback must restore the previous table')
    cm = model.func(CONF + '._commit_reload')
    t = norm(cm.node)
    linked = any(True for _ in afind('self.neighbors[V_n].previous = self._previous_neighbors[V_n]', cm.node))
    for lp in walk_no_nested(cm.node):
        if isinstance(lp, ast.For) and norm(lp.iter) == 'self.neighbors.items()' and isinstance(lp.target, ast.Tuple) and len(lp.target.elts) == 2:
            k_, v_ = (dotted(e) for e in lp.target.elts)
            linked = linked or any(True for _ in afind('V_v.previous = self._previous_neighbors[V_k]', lp, {'V_k': k_, 'V_v': v_}))
            # ... or through a local:  replaced = self._previous_neighbors.get(name);  if replaced is not None: neighbor.previous = replaced
            cml = Loc(model, cm)
            for a_ in walk_no_nested(lp):
                if isinstance(a_, ast.Assign) and norm(a_.targets[0]) == '%s.previous' % v_ and cml.expand(a_.value) in ('self._previous_neighbors.get(%s)' % k_, 'self._previous_neighbors[%s]' % k_):
                    # ... for EVERY neighbor that existed before: the only conditions are that it did exist
                    allowed = {'self._previous_neighbors.get(%s) is not None' % k_, 'self._previous_neighbors.get(%s)' % k_, '%s in self._previous_neighbors' % k_}
                    if facts(cml, a_) <= allowed:
                        linked = True
    run.check('self.neighbors = self.neighbor.neighbors' in t and linked, cm.qualname, 'installs the parsed neighbors and links each to its previous version', cm.loc(), 'the route delta is computed against neighbor.previous')
    # reload(): the catch-alls turn an exception into a False result
    arms = [h for n in walk_no_nested(rel.node) if isinstance(n, ast.Try) for h in n.handlers]
    names = [norm(h.type) if h.type is not None else '*' for h in arms]
    run.check('Exception' in names and all(any(isinstance(s, ast.Return) for s in walk_no_nested(h)) for h in arms), rel.qualname, 'exceptions become a failed reload (%s)' % names, rel.loc(), 'the API must keep working after a broken file')

    # ------------------------------------------------------------------ R2 no failure after commit
    run.rule('C17.R2', 'after _commit_reload nothing rolls back and no path reports failure: the new configuration is in force', floor=1)
    commit = model.calls_to(mod, rl.node, 'Configuration._commit_reload')
    if not commit:
        run.cannot('_commit_reload() call not found in _reload')
    else:
        cnode = cfg.stmt_node_containing(commit[0])
        reach = cfg.reachable(cnode.id) if cnode is not None else set()
        late_rb = [c for c in model.calls_to(mod, rl.node, 'Configuration._rollback_reload') if cfg.stmt_node_containing(c) is not None and cfg.stmt_node_containing(c).id in reach]
        falsy = []
        for i in reach:
            n = cfg.nodes[i]
            if n.kind == 'stmt' and isinstance(n.ast, ast.Return) and n.ast.value is not None and i != (cnode.id if cnode else -1):
                v = folder.fold(n.ast.value, mod)
                g = [(norm(t_), p) for t_, p in flat_guards(rl.node, n.ast)]
                if v is True:
                    continue
                if isinstance(n.ast.value, ast.BoolOp) and isinstance(n.ast.value.op, ast.Or) and folder.fold(n.ast.value.values[-1], mod) is True:
                    continue  # `return self.validate() or True`: never a falsy answer
                if isinstance(n.ast.value, ast.Name) and (n.ast.value.id, True) in g:
                    continue  # `if check: return check`
                falsy.append(n.ast)
        run.check(not late_rb and not falsy, rl.qualname, 'no rollback and no failing return after the commit', rl.loc(late_rb[0]) if late_rb else (rl.loc(falsy[0]) if falsy else rl.loc(commit[0])), 'after _commit_reload the previous table is gone (_previous_neighbors = {}): a later _rollback_reload installs an EMPTY neighbor table, and a failing return makes the reactor skip the peers of a configuration that is already in force')

    # ------------------------------------------------------------------ R3 the delta looks at attributes
    run.rule('C17.R3', 'OutgoingRIB.replace_reload re-announces a route of the new configuration unless the previous configuration had the same route with the same attributes and next hop, and withdraws every previous route that is gone, unconditionally', floor=2)
    rr = model.func(RIB + '.replace_reload')
    run.analysed(rr)
    adds = model.calls_to(rr.module, rr.node, 'OutgoingRIB.add_to_rib')
    dels = model.calls_to(rr.module, rr.node, 'OutgoingRIB.del_from_rib')
    if not adds or not dels:
        run.cannot('add_to_rib / del_from_rib calls not found in replace_reload')
    else:
        g = flat_guards(rr.node, adds[0])
        sl = Slicer(model, rr)
        atoms = set()
        for t_, pol in g:
            atoms |= sl.atoms(t_)
            for nm in [x.id for x in ast.walk(t_) if isinstance(x, ast.Name)]:
                for v, _ in sl.defs.get(nm, []):
                    atoms |= sl.atoms(v)
        looks_attr = any('attributes' in a for a in atoms if a.startswith('attr:') or a.startswith('field:')) or any(a.endswith('AttributeCollection.index') or a.endswith('Cache.in_cache') or a.endswith('Route.__eq__') for a in atoms if a.startswith('call:'))
        if looks_attr:
            run.ok('replace_reload: re-announce decision reads the attributes')
        else:
            run.violation(
                rr.qualname,
                're-announce decided by route index only',
                rr.loc(adds[0]),
                'Route.index() is family + prefix: a route kept by the new configuration with a changed MED, community or next hop '
                'has the same index, is popped from the previous set and never re-announced (Neighbor.__eq__ ignores routes, so an '
                'unchanged neighbor with changed route attributes goes through this function)',
            )
        # a route its watchdog holds back (`watchdog <name> withdraw`: kept in self._watchdog[name]['-'], its markers taken off
        # at parse time) must not be queued by the reload: a start with the same configuration does not announce it
        rrl = Loc(model, rr)
        held_ok = True
        for c in adds:
            reads = set()
            for t_, pol in flat_guards(rr.node, c):
                reads |= {norm(x) for x in ast.walk(rrl.expanded(t_, depth=4)) if isinstance(x, ast.Attribute)}
            # ... or the list that is walked was filtered first
            lp = c
            pmr = parent_map(rr.node)
            while lp is not None and not isinstance(lp, ast.For):
                lp = pmr.get(id(lp))
            if lp is not None:
                reads |= {norm(x) for v in ([lp.iter] + (rrl.values(lp.iter.id) if isinstance(lp.iter, ast.Name) else [])) for x in ast.walk(rrl.expanded(v, depth=4)) if isinstance(x, ast.Attribute)}
            held_ok = held_ok and any(r_.startswith('self._watchdog') for r_ in reads)
        run.check(held_ok, rr.qualname, 'routes held back by a watchdog are not queued by the reload', rr.loc(adds[0]), 'nothing on the way to add_to_rib looks at self._watchdog: a reload whose new configuration adds `route ... watchdog w withdraw` announces it at once, while a start with that configuration keeps it out until `announce watchdog w`')
        force = [folder.fold(c.args[1], rr.module) if len(c.args) > 1 else next((folder.fold(k.value, rr.module) for k in c.keywords if k.arg == 'force'), None) for c in adds]
        run.check(all(f is True for f in force), rr.qualname, 'new / changed routes are queued with force=True', rr.loc(adds[0]), 'the dedup cache must not swallow the re-announcement')
        gd = [(norm(t_), p) for t_, p in flat_guards(rr.node, dels[0])]
        run.check(gd in ([('self.enabled', True)], []), rr.qualname, 'routes gone from the configuration are withdrawn unconditionally (guards: %s)' % gd, rr.loc(dels[0]), 'a removed route must be withdrawn whatever the cache says (with adj-rib-out disabled in_cache() is always false)')
        pmn = prev_minus_new(model, rr)
        run.check(pmn['filled'] and pmn['pruned'] and pmn['withdrawn'] == dels, rr.qualname, 'withdraws exactly what is left of the previous set', rr.loc(dels[0]), 'previous minus new')

    # ------------------------------------------------------------------ R4 failure touches no peer
    run.rule('C17.R4', 'Reactor.reload touches peers only after Configuration.reload() succeeded', floor=3)
    rf = model.func(REACTOR + '.reload')
    run.analysed(rf)
    rcfg = CFG(rf.node)
    rl_ = Loc(model, rf)
    rv = rl_.from_call('_Configuration.reload', 'Configuration.reload')
    if not rv:
        rv = rl_.from_value(lambda v: isinstance(v, ast.Call) and norm(v.func) == 'self.configuration.reload')
    guard = None
    for st in rf.node.body:
        if isinstance(st, ast.If) and isinstance(st.body[-1], ast.Return) and any(amatch(p_, st.test, {'V_r': r_}) is not None for r_ in rv for p_ in ('not V_r', 'V_r is not True', 'V_r is False')):
            guard = st
    run.check(guard is not None and folder.fold(guard.body[-1].value, rf.module) is False, rf.qualname, 'failed reload returns False first', rf.loc(guard) if guard is not None else rf.loc(), 'a failed reload must leave sessions alone')
    muts = [c for c in walk_no_nested(rf.node) if isinstance(c, ast.Call) and isinstance(c.func, ast.Attribute) and c.func.attr in ('remove', 'reestablish', 'reconfigure', 'listen_on')] + [c for c in walk_no_nested(rf.node) if isinstance(c, ast.Call) and model.call_matches(rf.module, c, 'Peer')]
    for c in muts:
        what = c.func.attr if isinstance(c.func, ast.Attribute) else 'Peer(...)'
        run.check(guard is not None and c.lineno > guard.lineno, rf.qualname, '%s after the success test' % what, rf.loc(c), 'peer changes must follow the success test')
    run.check(len(rv) == 1 and len(rl_.values(rv[0])) == 1, rf.qualname, 'the success test reads the result of self.configuration.reload()', rf.loc(), 'the test must look at the reload result')
    # the per-peer decision: removed / new / changed / unchanged
    removed = created = changed = same = False
    for lp in walk_no_nested(rf.node):
        if not (isinstance(lp, ast.For) and isinstance(lp.target, ast.Tuple) and len(lp.target.elts) == 2):
            continue
        k_, v_ = (dotted(e) for e in lp.target.elts)
        it = rl_.expand(lp.iter)
        if it in ('self._peers.items()', 'list(self._peers.items())'):
            for c in walk_no_nested(lp):
                if isinstance(c, ast.Call) and amatch('V_p.remove()', c, {'V_p': v_}) is not None:
                    removed = ('%s not in self.configuration.neighbors' % k_) in facts(rl_, c)
        if it in ('self.configuration.neighbors.items()', 'list(self.configuration.neighbors.items())'):
            recvs = ('self._peers[%s]' % k_, 'self._peers.get(%s)' % k_)
            for c in walk_no_nested(lp):
                if not isinstance(c, ast.Call):
                    continue
                fs = facts(rl_, c)
                if model.call_matches(rf.module, c, 'Peer') and c.args and dotted(c.args[0]) == v_:
                    created = bool({'%s not in self._peers' % k_, 'self._peers.get(%s) is None' % k_} & fs)
                if isinstance(c.func, ast.Attribute) and c.func.attr in ('reestablish', 'reconfigure') and c.args and dotted(c.args[0]) == v_ and rl_.expand(c.func.value) in recvs:
                    r_ = rl_.expand(c.func.value)
                    differs = {'%s.neighbor != %s' % (x, v_) for x in recvs}
                    equal = {'%s.neighbor == %s' % (x, v_) for x in recvs}
                    if c.func.attr == 'reestablish':
                        changed = bool(differs & fs)
                    else:
                        same = bool(equal & fs)
    run.check(removed and created and changed and same, rf.qualname, 'remove / new peer / reestablish / reconfigure (%s)' % [removed, created, changed, same], rf.loc(), 'each neighbor is handled according to what changed: gone -> remove, new -> Peer, different -> reestablish, equal -> reconfigure')

    # ------------------------------------------------------------------ R5 equal neighbors send equal OPENs
    run.rule('C17.R5', 'Reactor.reload keeps the session of a neighbor that compares equal: Neighbor.__eq__ therefore compares everything the OPEN is built from (what Capabilities.new and Protocol.new_open read from the neighbor)', floor=6)

    def first_attrs(f, base: str) -> set[str]:
        out = set()
        for n in ast.walk(f.node):
            if isinstance(n, ast.Attribute):
                d = dotted(n)
                if d and d.startswith(base + '.'):
                    parts = d[len(base) + 1 :].split('.')
                    out.add('.'.join(parts[:2]) if parts[0] == 'session' and len(parts) > 1 else parts[0])
        return out

    used: dict[str, str] = {}
    for q, f in sorted(model.funcs.items()):
        if q.startswith('exabgp.bgp.message.open.capability.capabilities.Capabilities.') and len(f.node.args.args) > 1 and f.cls is not None:
            p1 = f.node.args.args[1].arg
            ann = f.node.args.args[1].annotation
            if ann is not None and 'Neighbor' in norm(ann):
                for a in first_attrs(f, p1):
                    used.setdefault(a, short(q))
    no = model.func('exabgp.reactor.protocol.Protocol.new_open')
    run.analysed(no)
    for a in first_attrs(no, 'self.neighbor'):
        used.setdefault(a, short(no.qualname))
    eq = model.func('exabgp.bgp.neighbor.neighbor.Neighbor.__eq__')
    run.analysed(eq)
    compared = first_attrs(eq, 'self')
    if len(used) < 6:
        run.cannot('only %d neighbor fields found in the construction of the OPEN' % len(used))
    for a, where in sorted(used.items()):
        if a == 'session':
            continue
        run.check(a in compared, eq.qualname, 'compares neighbor.%s (read by %s when the OPEN is built)' % (a, where), eq.loc(), 'a reload that changes only neighbor.%s yields a neighbor equal to the running one: Reactor.reload calls reconfigure() and the session keeps the capabilities of the OLD OPEN, so the routes of the new configuration that depend on it are not delivered as configured' % a)

    # ------------------------------------------------------------------ R9 a reload reaches a session that is down
    run.rule(
        'C17.R9',
        'Peer.reconfigure applies the difference to the Adj-RIB-Out at once whenever the established loop is not running to do it: '
        'the direct replace_reload() is taken for every FSM state but ESTABLISHED (the one state in which _main consumes the pending '
        'neighbor) - with a narrower test (IDLE only) a second reload while the peer waits in ACTIVE / CONNECT overwrites the '
        'one-deep `previous` link before the first was applied, and the routes it removed are announced when the session comes up',
        floor=1,
    )
    rc = model.funcs.get('exabgp.reactor.peer.peer.Peer.reconfigure')
    if rc is None:
        run.cannot('Peer.reconfigure vanished')
    else:
        run.analysed(rc)
        rcalls = model.calls_to(rc.module, rc.node, 'OutgoingRIB.replace_reload')
        if not rcalls:
            run.cannot('Peer.reconfigure: replace_reload() call not found')
        rcl = Loc(model, rc)
        for c in rcalls:
            fs = [f_ for f_ in facts(rcl, c) if 'fsm' in f_]
            ok9 = fs in (['self.fsm != FSM.ESTABLISHED'], ['not self.fsm == FSM.ESTABLISHED'], ['FSM.ESTABLISHED != self.fsm'])
            run.check(ok9, rc.qualname, 'the offline branch is taken for every state but ESTABLISHED (%s)' % fs, rc.loc(c), 'the FSM facts that hold at the direct replace_reload() are %s; the only one allowed is "not ESTABLISHED"' % fs)

    # ------------------------------------------------------------------ R6 what _clear resets, the rollback puts back
    run.rule(
        'C17.R6',
        'a failed reload changes nothing: every field Configuration._clear() empties before the parse is put back by '
        '_rollback_reload() from the copy _clear() saved - not left empty, and not filled with what the parser had read before '
        'the error',
        floor=2,
    )
    cl = model.func(CONF + '._clear')
    rb = model.func(CONF + '._rollback_reload')
    run.analysed(cl)
    run.analysed(rb)

    def self_assigns(f) -> list[tuple[str, ast.AST, ast.Assign]]:  # noqa: ANN001
        out = []
        for n in f.node.body:
            if isinstance(n, ast.Assign) and len(n.targets) == 1:
                d = dotted(n.targets[0]) or ''
                if d.startswith('self.') and d.count('.') == 1:
                    out.append((d[5:], n.value, n))
        return out

    def is_empty(v: ast.AST) -> bool:
        return (isinstance(v, (ast.Dict, ast.List, ast.Set, ast.Tuple)) and not (getattr(v, 'keys', None) or getattr(v, 'elts', None))) or (isinstance(v, ast.Call) and not v.args and isinstance(v.func, ast.Name) and v.func.id in ('dict', 'list', 'set'))

    ca = self_assigns(cl)
    saved: dict[str, str] = {}  # field -> where _clear saved it
    for name, v, _ in ca:
        d = dotted(v) or ''
        if d.startswith('self.') and d.count('.') == 1:
            saved[d[5:]] = name
    resets = [name for name, v, _ in ca if is_empty(v)]
    ra = {name: v for name, v, _ in self_assigns(rb)}
    n6 = 0
    for fld in resets:
        if fld in saved.values():
            continue  # a place where something is saved, not state of its own
        n6 += 1
        got = ra.get(fld)
        if fld not in saved:
            # scratch state (reset to the same empty value by the rollback) is fine; anything else was not saved
            okf = got is not None and is_empty(got)
            why = 'it is emptied by _clear() without a saved copy and the rollback sets it to %s' % (norm(got) if got is not None else 'nothing')
        else:
            okf = got is not None and dotted(got) == 'self.' + saved[fld]
            why = '_clear() saves it in self.%s but the rollback sets it to %s' % (saved[fld], norm(got) if got is not None else 'nothing')
        run.check(
            okf,
            rb.qualname,
            'self.%s is put back as it was' % fld,
            rb.loc(),
            '%s: after a reload that fails (syntax error anywhere in the file) self.%s is not what it was before - for `processes` the '
            'main loop then calls Processes.start(configuration.processes), which terminates every API process that is not in that '
            'partial table, so a typo in the file kills the API' % (why, fld),
        )
    if n6 < 2:
        run.cannot('only %d fields reset by Configuration._clear()' % n6)

    # ------------------------------------------------------------------ R7 the parser starts clean
    run.rule(
        'C17.R7',
        'a failed reload leaves nothing behind in the parser: the section parsers keep what they read (neighbors, scope) until '
        '_cleanup(), so either the rollback cleans them or every parse starts with _cleanup() - otherwise the next reload of a '
        'correct file fails with "duplicate peer definition" for ever',
        floor=1,
    )
    cfg7 = CFG(rl.node)
    parse_calls = model.calls_to(mod, rl.node, 'Configuration._parse_configuration')
    clean_calls = model.calls_to(mod, rl.node, 'Configuration._cleanup')
    rb_cleans = bool(model.calls_to(rb.module, rb.node, 'Configuration._cleanup'))
    cl_cleans = bool(model.calls_to(cl.module, cl.node, 'Configuration._cleanup'))
    ok7 = rb_cleans
    if not ok7 and parse_calls:
        tgt = {cfg7.stmt_node_containing(c).id for c in clean_calls if cfg7.stmt_node_containing(c) is not None}
        if cl_cleans:
            tgt |= {cfg7.stmt_node_containing(c).id for c in model.calls_to(mod, rl.node, 'Configuration._clear') if cfg7.stmt_node_containing(c) is not None}
        pn = cfg7.stmt_node_containing(parse_calls[0])
        if pn is not None and tgt:
            ok7, _ = cfg7.all_paths_pass(cfg7.entry.id, tgt, {pn.id})
    run.check(
        ok7,
        rl.qualname,
        'the parser state of a failed reload is dropped (by the rollback, or by _cleanup() before the next parse)',
        rl.loc(parse_calls[0]) if parse_calls else rl.loc(),
        '_cleanup() runs only in _commit_reload(): after a reload that failed once at least one neighbor had been parsed, ParseNeighbor '
        'still holds that neighbor and every later reload - of a perfectly good file - is refused with "duplicate peer definition"',
    )

    # ------------------------------------------------------------------ R8 parsing does not touch the running sessions
    run.rule(
        'C17.R8',
        'nothing a section parser does before the commit reaches the tables of a running session: no pre() / post() / parse() of a '
        'configuration section reaches a mutator of the shared RIB (OutgoingRIB.add_to_rib*, del_from_rib*, RIB.enable / reset / '
        'clear) - the new Neighbor gets the SAME OutgoingRIB as the established one (RIB._cache), so what is queued there goes to '
        'the peer even when the reload fails later in the file',
        floor=20,
    )
    from .common import CallGraph

    cg = CallGraph(model)
    SEC = 'exabgp.configuration.core.section.Section'
    roots = []
    for q in sorted(model.all_subclasses(SEC) | {SEC}):
        ci = model.classes.get(q)
        if ci is not None:
            roots += [ci.methods[nm].qualname for nm in ('pre', 'post', 'parse') if nm in ci.methods]
    if len(roots) < 20:
        run.cannot('only %d section parser entry points found' % len(roots))
    MUT = ('add_to_rib', 'add_to_rib_watchdog', 'del_from_rib', 'del_from_rib_watchdog', 'enable', 'reset', 'clear', 'replace_reload', 'replace_restart')
    reported: set[tuple[str, str]] = set()
    for r in roots:
        pred = cg.reachable([r])
        hits = sorted(q for q in pred if q.startswith('exabgp.rib.') and q.rsplit('.', 1)[-1] in MUT and q.split('.')[-2] in ('OutgoingRIB', 'RIB', 'IncomingRIB'))
        if not hits:
            run.ok('%s: no path to the shared RIB' % short(r))
            continue
        # one report per entry point and per first RIB function on the path
        firsts: dict[str, list[str]] = {}
        for h in hits:
            path = cg.path(pred, h)
            first = next(x for x in path if x.startswith('exabgp.rib.'))
            firsts.setdefault(first, path[: path.index(first) + 1])
        for first, path in sorted(firsts.items()):
            if (r, first) in reported:
                continue
            reported.add((r, first))
            run.violation(
                r,
                'a section parser reaches %s' % short(first),
                model.funcs[r].loc(),
                'path %s: it runs while the file is still being parsed, on the RIB the established session reads; when a later '
                'section has an error the reload is rolled back but these routes / this reset have already happened' % ' -> '.join(short(x) for x in path),
                [],
            )

