"""C12 — hold and keepalive timers: wiring and constants only.  DESIGN.md 3/C12."""

from __future__ import annotations

import ast
import re

from ..alpha import Loc, facts
from ..cfg import CFG
from ..const import UNKNOWN, Folder
from ..flow import Slicer, flat_guards, parent_map
from ..model import Model, dotted, norm, walk_no_nested
from ..report import Run
from .common import short

PEER = 'exabgp.reactor.peer.peer.Peer'
RT = 'exabgp.bgp.timer.ReceiveTimer'
ST = 'exabgp.bgp.timer.SendTimer'
HT = 'exabgp.bgp.message.open.holdtime.HoldTime'


def check(model: Model, run: Run) -> None:
    folder = Folder(model)
    # ------------------------------------------------------------------ R1 receive timer
    run.rule(
        'C12.R1',
        'ReceiveTimer.check_ka_timer: the holdtime == 0 branch returns before any raise; elapsed = now - last_read; the '
        'raise is guarded by elapsed > holdtime (strict); last_read is refreshed only for real (non-scheduling) messages; '
        'the raise carries the constructor codes',
        floor=3,
    )
    f = model.func(RT + '.check_ka_timer')
    run.analysed(f)
    raises = [r for r in walk_no_nested(f.node) if isinstance(r, ast.Raise)]
    run.check(len(raises) == 1, f.qualname, '%d raise statements' % len(raises), f.loc(), 'exactly one expiry raise expected')
    zero = None
    for st in f.node.body:
        if isinstance(st, ast.If) and isinstance(st.test, ast.Compare) and dotted(st.test.left) == 'self.holdtime' and isinstance(st.test.ops[0], ast.Eq) and folder.fold(st.test.comparators[0], f.module, f.cls) == 0:
            zero = st
    ok = zero is not None and isinstance(zero.body[-1], ast.Return) and not any(isinstance(x, ast.Raise) for s in zero.body for x in ast.walk(s)) and (not raises or zero.lineno < raises[0].lineno)
    run.check(ok, f.qualname, 'holdtime == 0 returns before the expiry test', f.loc(zero) if zero else f.loc(), 'with hold time 0 the timer must never fire')
    if raises:
        r = raises[0]
        g = flat_guards(f.node, r)
        fl = Loc(model, f)
        fs = facts(fl, r)
        good = any(re.fullmatch(r'.+ - self\.last_read > self\.holdtime', x) or re.fullmatch(r'self\.holdtime < .+ - self\.last_read', x) for x in fs)
        run.check(good, f.qualname, 'raise guarded by (now - self.last_read) > self.holdtime', f.loc(r), 'the hold timer must fire only after strictly more than holdtime seconds of silence; guards: %s' % [norm(t) for t, _ in g])
        codes = isinstance(r.exc, ast.Call) and [dotted(a) for a in r.exc.args[:2]] == ['self.code', 'self.subcode']
        run.check(bool(codes), f.qualname, 'raises Notify(self.code, self.subcode)', f.loc(r), 'the expiry must carry the codes given at construction (4/0)')
    # last_read refresh
    writes = [n for n in walk_no_nested(f.node) if (isinstance(n, ast.Assign) and dotted(n.targets[0]) == 'self.last_read') or (isinstance(n, ast.AnnAssign) and n.value is not None and dotted(n.target) == 'self.last_read')]

    def real_message(x: str) -> bool:
        # `not m.SCHEDULING`, or m.SCHEDULING compared equal to the member of Scheduling that is 0 (MESSAGE)
        if re.fullmatch(r'not \w+\.SCHEDULING', x):
            return True
        m_ = re.fullmatch(r'(\w+\.SCHEDULING) == ([\w.]+)|([\w.]+) == (\w+\.SCHEDULING)', x)
        if m_:
            other = m_.group(2) or m_.group(3)
            return folder.fold(ast.parse(other, mode='eval').body, f.module, f.cls) == 0
        return False

    okw = len(writes) == 1 and any(real_message(x) for x in facts(Loc(model, f), writes[0]))
    run.check(okw, f.qualname, 'last_read refreshed only under `not message.SCHEDULING`', f.loc(writes[0]) if writes else f.loc(), 'an internal NOP must not count as traffic from the peer')
    # constructed with holdtime negotiated
    est = model.func(PEER + '._establish')
    run.analysed(est)
    cons = model.calls_to(est.module, est.node, 'ReceiveTimer')
    okc = bool(cons) and len(cons[0].args) >= 4 and Loc(model, est).expand(cons[0].args[1]).endswith('negotiated.holdtime') and folder.fold(cons[0].args[2], est.module, est.cls) == 4 and folder.fold(cons[0].args[3], est.module, est.cls) == 0
    run.check(okc, est.qualname, 'ReceiveTimer(session, negotiated.holdtime, 4, 0)', est.loc(cons[0]) if cons else est.loc(), 'the receive timer must use the negotiated hold time and 4/0')
    # ... for EVERY session: the hold time is negotiated anew each time, so the timer of the previous session is not kept.
    # On each path of _establish that reaches ESTABLISHED the receive timer is (re)built, or its holdtime is stored again.
    if cons:
        from ..cfg import CFG as _CFG12

        cfg12 = _CFG12(est.node)
        from .C05 import change_target

        goal = [c_ for c_ in walk_no_nested(est.node) if isinstance(c_, ast.Call) and change_target(model, est, c_) == 'ESTABLISHED']
        fresh = {x.id for c_ in cons for x in [cfg12.stmt_node_containing(c_)] if x is not None}
        fresh |= {x.id for n_ in walk_no_nested(est.node) if isinstance(n_, ast.Assign) and (dotted(n_.targets[0]) or '').endswith('recv_timer.holdtime') for x in cfg12.nodes_of(n_)}
        gn = cfg12.stmt_node_containing(goal[0]) if goal else None
        if gn is None:
            run.cannot('_establish: change(ESTABLISHED) not located')
        else:
            ok_all, path = cfg12.all_paths_pass(cfg12.entry.id, fresh, {gn.id}, skip_labels=('exc',))
            run.check(ok_all, est.qualname, 'the receive timer takes the hold time of THIS session on every path to ESTABLISHED', est.loc(cons[0]), 'a path reaches ESTABLISHED without building the timer (it is kept from the previous session when one exists): after a reconnect that negotiates another hold time the old one is enforced - 30 s kept when 3 s was negotiated, or a timer that fires although the new hold time is 0')

    # ------------------------------------------------------------------ R2 send timer
    run.rule('C12.R2', 'HoldTime.keepalive() = holdtime / 3; SendTimer.need_ka returns False when that is 0 and otherwise fires when last_sent + keepalive - now <= 0, recording the send time', floor=4)
    ka = model.func(HT + '.keepalive')
    run.analysed(ka)
    div = folder.class_attr(HT, 'KEEPALIVE_DIVISOR')
    # evaluated for hold times 0, 3, 90 and 180: one third, in whole seconds
    from ..evalfn import eval_function as _ev

    me = ka.node.args.args[0].arg

    def hold_attr(e: ast.AST):
        # a constant of the class read through the instance (self.KEEPALIVE_DIVISOR): the instance is a plain number here
        if isinstance(e, ast.Attribute) and isinstance(e.value, ast.Name) and e.value.id == me:
            return folder.class_attr(HT, e.attr)
        if isinstance(e, ast.BinOp):
            l_, r_ = (hold_attr(x) if isinstance(x, ast.Attribute) else folder.fold(x, ka.module, ka.cls, cur_env) for x in (e.left, e.right))
            if isinstance(l_, (int, float)) and isinstance(r_, (int, float)) and r_:
                return {ast.Div: lambda a, b: a / b, ast.FloorDiv: lambda a, b: a // b}.get(type(e.op), lambda a, b: UNKNOWN)(l_, r_)
        if isinstance(e, ast.Call) and isinstance(e.func, ast.Name) and e.func.id == 'int' and len(e.args) == 1:
            v_ = folder.fold(e.args[0], ka.module, ka.cls, cur_env)
            if v_ is UNKNOWN:
                v_ = hold_attr(e.args[0])
            return int(v_) if isinstance(v_, (int, float)) else UNKNOWN
        return UNKNOWN

    got_ka = {}
    for h in (0, 3, 90, 180):
        cur_env: dict = {}
        got_ka[h] = _ev(folder, ka, {me: h}, on_unknown=hold_attr, env_out=cur_env)
    okd = got_ka == {0: 0, 3: 1, 90: 30, 180: 60}
    run.check(bool(okd), ka.qualname, 'keepalive() for hold times 0 / 3 / 90 / 180 = %s (divisor %s)' % (got_ka, div), ka.loc(), 'RFC 4271 4.4: keepalive interval is one third of the hold time')
    mn = folder.class_attr(HT, 'MIN')
    run.check(mn == 3, HT, 'MIN = %s' % mn, model.cls(HT).loc(), 'RFC 4271: hold time is 0 or at least 3')
    nk = model.func(ST + '.need_ka')
    run.analysed(nk)
    first = nk.node.body[0] if nk.node.body else None
    if first is not None and isinstance(first, ast.Expr):
        first = nk.node.body[1]
    okz = isinstance(first, ast.If) and norm(first.test) == 'not self.keepalive' and isinstance(first.body[-1], ast.Return) and folder.fold(first.body[-1].value, nk.module, nk.cls) is False
    run.check(okz, nk.qualname, 'keepalive == 0 -> False first', nk.loc(first) if first is not None else nk.loc(), 'with hold time 0 no periodic KEEPALIVE is sent')
    # evaluated for a clock before, at and after the moment the KEEPALIVE is due (sa/evalfn.py): what counts is the answer and
    # the recorded send time, not the spelling
    from ..evalfn import eval_function

    seen_ka = {}
    okf = True
    for now, want_fire in ((105, False), (109, False), (110, True), (125, True)):
        me = {'keepalive': 10, 'last_sent': 100, 'last_print': now, 'session': 0}
        out: dict = {}
        res = eval_function(folder, nk, {nk.node.args.args[0].arg: me}, on_unknown=lambda e, now=now: now if isinstance(e, ast.Call) else UNKNOWN, env_out=out)
        seen_ka[now] = (res, me.get('last_sent'))
        okf = okf and res is want_fire and me.get('last_sent') == (now if want_fire else 100)
    fire = None
    run.check(okf, nk.qualname, 'fires when last_sent + keepalive - now <= 0 and records now (last_sent 100, keepalive 10: %s)' % seen_ka, nk.loc(), 'a KEEPALIVE is due once a keepalive interval has passed since the last one: expected no KEEPALIVE at 105 and 109, one at 110 and 125, each recording its time')
    stc = model.func(ST + '.__init__')
    hparam = stc.node.args.args[2].arg if len(stc.node.args.args) > 2 else 'holdtime'
    stl = Loc(model, stc)
    okk = any(isinstance(n, (ast.Assign, ast.AnnAssign)) and n.value is not None and dotted(n.targets[0] if isinstance(n, ast.Assign) else n.target) == 'self.keepalive' and stl.expand(n.value) == '%s.keepalive()' % hparam for n in walk_no_nested(stc.node))
    run.check(okk, stc.qualname, 'self.keepalive = holdtime.keepalive()', stc.loc(), 'the send interval derives from the negotiated hold time')
    kainit = model.func('exabgp.reactor.keepalive.KA.__init__')
    kal = Loc(model, kainit)
    okn = any(isinstance(n, ast.Call) and model.call_matches(kainit.module, n, 'SendTimer') and len(n.args) >= 2 and kal.expand(n.args[1]).endswith('negotiated.holdtime') for n in walk_no_nested(kainit.node))
    run.check(okn, kainit.qualname, 'SendTimer(session, proto.negotiated.holdtime)', kainit.loc(), 'the send timer must use the negotiated hold time')

    # ------------------------------------------------------------------ R3 main loop wiring
    run.rule('C12.R3', 'in the Peer._main loop both recv_timer.check_ka(message) and send_ka.send_if_needed() run on every iteration, unconditionally, before inbound handling and outbound work, and the inbound read is polled on every iteration before check_ka', floor=3)
    mainf = model.func(PEER + '._main')
    run.analysed(mainf)
    loop = None
    for n in walk_no_nested(mainf.node):
        if isinstance(n, ast.While) and '_teardown' in norm(n.test):
            loop = n
    if loop is None:
        run.cannot('main loop not found in _main')
        return
    top = loop.body
    idx_ck = idx_ka = idx_out = idx_in = None
    for i, st in enumerate(top):
        if model.calls_to(mainf.module, st, 'ReceiveTimer.check_ka') and not isinstance(st, (ast.If, ast.Try, ast.For, ast.While)):
            idx_ck = i
        if model.calls_to(mainf.module, st, 'KA.send_if_needed') and not isinstance(st, (ast.If, ast.Try, ast.For, ast.While)):
            idx_ka = i
        if idx_out is None and model.calls_to(mainf.module, st, 'Peer._send_route_updates', 'Peer._send_operational_messages', 'Peer._send_refresh_messages', 'Peer._send_eor_messages'):
            idx_out = i
        if idx_in is None and model.calls_to(mainf.module, st, 'UpdateHandler.handle_async', 'RouteRefreshHandler.handle_async'):
            idx_in = i
    # nothing before them in the loop body may `continue`
    def has_continue(sts):
        return any(isinstance(x, ast.Continue) for s in sts for x in walk_no_nested(s))

    run.check(
        idx_ck is not None and idx_out is not None and idx_ck < idx_out and (idx_in is None or idx_ck < idx_in) and not has_continue(top[:idx_ck]),
        mainf.qualname,
        'recv_timer.check_ka(message) unconditional at loop level, before handlers and outbound work',
        mainf.loc(top[idx_ck]) if idx_ck is not None else mainf.loc(loop),
        'the hold timer must be checked on every iteration',
    )
    run.check(
        idx_ka is not None and idx_out is not None and idx_ka < idx_out and not has_continue(top[:idx_ka]),
        mainf.qualname,
        'send_ka.send_if_needed() unconditional at loop level, before outbound work',
        mainf.loc(top[idx_ka]) if idx_ka is not None else mainf.loc(loop),
        'the keepalive timer must be served on every iteration, before a long outbound batch',
    )
    if idx_ck is not None:
        c = model.calls_to(mainf.module, top[idx_ck], 'ReceiveTimer.check_ka')[0]
        ml = Loc(model, mainf)
        got = ml.values(c.args[0].id) if c.args and isinstance(c.args[0], ast.Name) else []
        from_read = any(isinstance(v, ast.Call) and isinstance(v.func, ast.Attribute) and v.func.attr == 'result' for v in got) or any(isinstance(v, ast.Await) and model.call_matches(mainf.module, v.value, 'Protocol.read_message') for v in got if isinstance(v, ast.Await) and isinstance(v.value, ast.Call))
        run.check(bool(c.args) and from_read, mainf.qualname, 'check_ka receives the message just read', mainf.loc(c), 'the timer must see the received message')

    # the message handed to the hold timer comes from a read that is polled on EVERY iteration
    cfg = CFG(mainf.node)
    ln = cfg.node_of(loop)
    polls = set()
    for n in cfg.nodes:
        if n.ast is None or n.kind != 'stmt' or n.copy:
            continue
        if not (loop.lineno <= getattr(n.ast, 'lineno', 0) <= (loop.end_lineno or 0)):
            continue
        for x in walk_no_nested(n.ast):
            if isinstance(x, ast.Await) and isinstance(x.value, ast.Call):
                d = dotted(x.value.func) or ''
                if d in ('asyncio.wait', 'asyncio.wait_for') or model.call_matches(mainf.module, x.value, 'Protocol.read_message'):
                    polls.add(n.id)
    ckn = cfg.stmt_node_containing(model.calls_to(mainf.module, top[idx_ck], 'ReceiveTimer.check_ka')[0]) if idx_ck is not None else None
    okp = False
    wit: list[int] = []
    if ln is not None and ckn is not None and polls:
        # start from the first node of the loop body
        starts = [s_ for s_, lab in ln.succ if lab == 'true']
        okp = True
        for st_ in starts:
            if st_ in polls:
                continue
            passed, wit = cfg.all_paths_pass(st_, polls, {ckn.id}, skip_labels=('exc',))
            okp = okp and passed
    run.check(
        okp,
        mainf.qualname,
        'the inbound read is polled on every iteration before check_ka',
        mainf.loc(loop),
        'on some path through the loop body recv_timer.check_ka runs without the connection having been read in this '
        'iteration (%s): while that path is taken nothing refreshes last_read and a healthy peer is closed with 4/0' % ' -> '.join(cfg.describe_path(wit)[:8]),
    )

    # ------------------------------------------------------------------ R4 bounded outbound work
    run.rule('C12.R4', 'outbound work per iteration is bounded: _send_route_updates pulls at most routes_per_iteration messages (a folded constant) from the generator per call', floor=1)
    sru = model.func(PEER + '._send_route_updates')
    run.analysed(sru)
    fors = [n for n in walk_no_nested(sru.node) if isinstance(n, ast.For) and model.calls_to(sru.module, n, '__anext__')] or [
        n for n in walk_no_nested(sru.node) if isinstance(n, ast.For) and '__anext__' in norm(n)
    ]
    okb = bool(fors) and isinstance(fors[0].iter, ast.Call) and isinstance(fors[0].iter.func, ast.Name) and fors[0].iter.func.id == 'range' and len(fors[0].iter.args) == 1 and isinstance(fors[0].iter.args[0], ast.Name)
    whiles = [n for n in walk_no_nested(sru.node) if isinstance(n, ast.While)]
    run.check(okb and not whiles, sru.qualname, 'for _ in range(routes_per_iteration): await new_routes.__anext__()', sru.loc(fors[0]) if fors else sru.loc(), 'the UPDATE sending loop must be bounded per reactor iteration so that timers are served')
    # the bound in _main folds to small constants
    vals = []
    bl = Loc(model, mainf)
    for c in model.calls_to(mainf.module, mainf.node, 'Peer._send_route_updates'):
        if len(c.args) >= 3:
            a = c.args[2]
            cands = bl.values(a.id) if isinstance(a, ast.Name) and bl.values(a.id) else [bl.resolve(a) or a]
            for v in cands:
                alts = [v.body, v.orelse] if isinstance(v, ast.IfExp) else [v]
                vals += [folder.fold(x, mainf.module, mainf.cls) for x in alts]
    run.check(bool(vals) and all(isinstance(v, int) and 1 <= v <= 1000 for v in vals), mainf.qualname, 'routes_per_iteration in %s' % vals, mainf.loc(), 'the per-iteration batch must be a small constant')

    # ------------------------------------------------------------------ R5 open wait
    run.rule('C12.R5', '_read_open wraps the read in wait_for(timeout=openwait) and converts the timeout to Notify(5, 1)', floor=1)
    ro = model.func(PEER + '._read_open')
    run.analysed(ro)
    wf = [c for c in walk_no_nested(ro.node) if isinstance(c, ast.Call) and (dotted(c.func) or '').endswith('wait_for')]
    okw = False
    if wf:
        kw = {k.arg: k.value for k in wf[0].keywords}
        to = kw.get('timeout') or (wf[0].args[1] if len(wf[0].args) > 1 else None)
        sl = Slicer(model, ro)
        src = to is not None and isinstance(to, ast.Name) and any('openwait' in norm(v) for v, _ in sl.defs.get(to.id, []))
        src = src or (to is not None and 'openwait' in norm(to))
        arm = None
        for t in walk_no_nested(ro.node):
            if isinstance(t, ast.Try):
                for h in t.handlers:
                    if h.type is not None and 'TimeoutError' in norm(h.type):
                        arm = h
        pair = None
        if arm is not None:
            for st in arm.body:
                if isinstance(st, ast.Raise) and isinstance(st.exc, ast.Call) and len(st.exc.args) >= 2:
                    pair = (folder.fold(st.exc.args[0], ro.module, ro.cls), folder.fold(st.exc.args[1], ro.module, ro.cls))
        okw = bool(src) and pair == (5, 1)
    run.check(okw, ro.qualname, 'wait_for(read_open, timeout=openwait) -> Notify(5, 1)', ro.loc(), 'an OPEN that does not arrive within bgp.openwait ends the attempt with 5/1')
