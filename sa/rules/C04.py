"""C04 — Adj-RIB-Out converges.  DESIGN.md 3/C04."""

from __future__ import annotations

import ast
import re

from ..alpha import Loc
from ..cfg import CFG
from ..const import Folder
from ..flow import Slicer, flat_guards, parent_map
from ..model import FuncInfo, Model, dotted, norm, walk_no_nested
from ..report import Run
from .common import short

RIB = 'exabgp.rib.outgoing.OutgoingRIB'
CACHE = 'exabgp.rib.cache.Cache'
QUEUES = ['_new_nlri', '_new_attr_af_nlri', '_new_attribute', '_pending_withdraws', '_refresh_families', '_refresh_routes']


def aliases(fi: FuncInfo, attr: str) -> set[str]:
    """local names bound to self.<attr> (plus the attribute chain itself)."""
    out = {'self.' + attr}
    for n in walk_no_nested(fi.node):
        if isinstance(n, ast.Assign) and isinstance(n.targets[0], ast.Name) and dotted(n.value) == 'self.' + attr:
            out.add(n.targets[0].id)
    return out


def _chain_root_and_first_key(expr: ast.AST) -> tuple[str | None, ast.AST | None]:
    """For `A.setdefault(k, ..).setdefault(f, ..).pop(i)` / `A[k][f].pop(i)` / `A.get(k, {}).get(f, {})`:
    (dotted root A, first key k)."""
    keys: list[ast.AST] = []
    cur = expr
    while True:
        if isinstance(cur, ast.Call) and isinstance(cur.func, ast.Attribute):
            if cur.func.attr in ('setdefault', 'get', 'pop') and cur.args:
                keys.append(cur.args[0])
            cur = cur.func.value
        elif isinstance(cur, ast.Subscript):
            keys.append(cur.slice)
            cur = cur.value
        elif isinstance(cur, ast.Attribute) and dotted(cur) is None:
            cur = cur.value
        else:
            break
    root = dotted(cur)
    return root, (keys[-1] if keys else None)


def check(model: Model, run: Run) -> None:
    folder = Folder(model)
    rib = model.cls(RIB)

    # ------------------------------------------------------------------ R1
    run.rule(
        'C04.R1',
        'the two announce indexes stay coherent: a function that stores into or removes from _new_nlri[route index] also '
        'removes what the PREVIOUS occupant of that index holds in _new_attr_af_nlri, keyed by the previous route\'s own '
        'attribute index (looked up through _new_nlri), not by the attributes of the incoming operation',
        floor=1,
    )
    writers = []
    for fi in model.funcs.values():
        if not fi.qualname.startswith(RIB + '.'):
            continue
        nn = aliases(fi, '_new_nlri')
        touches = []
        for n in walk_no_nested(fi.node):
            if isinstance(n, ast.Assign):
                for t in n.targets:
                    if isinstance(t, ast.Subscript) and dotted(t.value) in nn:
                        touches.append(n)
            if isinstance(n, ast.Call) and isinstance(n.func, ast.Attribute) and n.func.attr == 'pop' and dotted(n.func.value) in nn:
                touches.append(n)
        if touches:
            writers.append((fi, touches))
    for fi, touches in writers:
        run.analysed(fi)
        nn = aliases(fi, '_new_nlri')
        aa = aliases(fi, '_new_attr_af_nlri')
        sl = Slicer(model, fi)
        # previous occupant: name bound to <nn>.get(idx) / <nn>[idx]
        prevs = set()
        for n in walk_no_nested(fi.node):
            if isinstance(n, ast.Assign) and isinstance(n.targets[0], ast.Name):
                v = n.value
                if isinstance(v, ast.Call) and isinstance(v.func, ast.Attribute) and v.func.attr in ('get', 'pop') and dotted(v.func.value) in nn:
                    prevs.add(n.targets[0].id)
                if isinstance(v, ast.Subscript) and dotted(v.value) in nn:
                    prevs.add(n.targets[0].id)
        removal_ok = None
        removal_bad = None
        for n in walk_no_nested(fi.node):
            if isinstance(n, ast.Call) and isinstance(n.func, ast.Attribute) and n.func.attr == 'pop':
                root, key = _chain_root_and_first_key(n.func.value)
                if root in aa and key is not None:
                    # the key must derive from <prev>.attributes.index()
                    exprs = [key]
                    if isinstance(key, ast.Name):
                        exprs = [v for v, _ in sl.defs.get(key.id, [])]
                    good = False
                    for e in exprs:
                        txt = norm(e)
                        for p in prevs:
                            if txt.startswith(p + '.attributes.index(') or txt.startswith(p + '.attributes.index'):
                                good = True
                    if good:
                        removal_ok = n
                    else:
                        removal_bad = (n, key)
            if isinstance(n, ast.Delete):
                for t in n.targets:
                    root, key = _chain_root_and_first_key(t)
                    if root in aa:
                        removal_bad = removal_bad or (n, key)
        # a whole attribute group taken out of the queue (and put back): the groups are emitted in dict order, so this
        # moves every prefix queued under these attributes behind announces that were queued after them
        moved = [
            n
            for n in walk_no_nested(fi.node)
            if (isinstance(n, ast.Call) and isinstance(n.func, ast.Attribute) and n.func.attr in ('pop', 'popitem', 'move_to_end') and dotted(n.func.value) in aa)
            or (isinstance(n, ast.Delete) and any(isinstance(t, ast.Subscript) and dotted(t.value) in aa for t in n.targets))
        ]
        # dropping a group that has just become empty moves nothing
        moved = [n for n in moved if not any((not pol) and any(a in norm(t) for a in aa) or (pol and norm(t).startswith('not ') and any(a in norm(t) for a in aa)) for t, pol in flat_guards(fi.node, n))]
        if moved:
            run.violation(
                fi.qualname,
                'an attribute group is taken out of the announce queue: %s' % norm(moved[0])[:70],
                fi.loc(moved[0]),
                'updates() emits the groups of _new_attr_af_nlri in insertion order and a group holds EVERY prefix queued under '
                'those attributes; removing and re-inserting the group sends all of them after groups queued later, so an older '
                'announce of a prefix (still filed in this group) overtakes its replacement: the peer ends on the stale route',
            )
        where = fi.loc(touches[0])
        if removal_ok is not None and removal_bad is None:
            run.ok('%s: stale group entry removed' % short(fi.qualname), norm(removal_ok)[:90])
        elif removal_bad is not None:
            n, key = removal_bad
            run.violation(
                fi.qualname,
                'stale entry removed with key %s' % (norm(key) if key is not None else '?'),
                fi.loc(n),
                'the queued announce of this route index is filed in _new_attr_af_nlri under ITS OWN attribute index; removing '
                'with a key that does not come from the previous occupant (found through _new_nlri) misses it whenever the '
                'attributes differ: the cancelled announce is still emitted by updates()',
            )
        else:
            run.violation(
                fi.qualname,
                'writes _new_nlri without removing the previous occupant from _new_attr_af_nlri',
                where,
                'a route queued with attributes x, then y, then x inside one flush window leaves the y entry in the y group; '
                'updates() emits the x group first and the y group last, so the peer ends on y while the cache says x',
            )

    # ------------------------------------------------------------------ R2
    run.rule('C04.R2', 'cache pairing: after queueing an announce every path reaches Cache.update_cache(route); after queueing a withdraw every path reaches update_cache_withdraw(nlri)', floor=2)
    for name, target, arg in (('_update_rib', 'Cache.update_cache', 'route'), ('_del_from_rib_impl', 'Cache.update_cache_withdraw', 'nlri')):
        fi = model.func(RIB + '.' + name)
        run.analysed(fi)
        cfg = CFG(fi.node)
        calls = model.calls_to(fi.module, fi.node, target)
        stores = []
        qn = aliases(fi, '_new_nlri') | aliases(fi, '_pending_withdraws') | aliases(fi, '_new_attr_af_nlri')
        for n in walk_no_nested(fi.node):
            if isinstance(n, ast.Assign):
                for t in n.targets:
                    if isinstance(t, ast.Subscript):
                        root, _ = _chain_root_and_first_key(t.value)
                        if root in qn or dotted(t.value) in qn:
                            stores.append(n)
        ok = bool(calls) and bool(stores)
        wit: list[int] = []
        if ok:
            tn = {cfg.stmt_node_containing(c).id for c in calls if cfg.stmt_node_containing(c) is not None}
            for st in stores:
                sn = cfg.node_of(st)
                if sn is None:
                    continue
                passed, wit = cfg.all_paths_pass(sn.id, tn, {cfg.exit.id}, skip_labels=('exc',))
                before, _ = cfg.all_paths_pass(cfg.entry.id, tn, {sn.id})
                if not passed and not before:
                    ok = False
            a_ok = all(c.args and dotted(c.args[0]) == arg for c in calls)
            g_ok = all(any(isinstance(st, ast.Expr) and st.value is c for st in fi.node.body) for c in calls)
            ok = ok and a_ok and g_ok
        run.check(ok, fi.qualname, 'every queueing path reaches %s(%s)' % (target, arg), fi.loc(calls[0]) if calls else fi.loc(), 'the cache (what ExaBGP reports as Adj-RIB-Out) must follow what is queued for the peer' + (': path ' + ' -> '.join(cfg.describe_path(wit)) if wit else ''))
    # update_cache really stores / update_cache_withdraw really removes
    uc = model.func(CACHE + '.update_cache')
    ucw = model.func(CACHE + '.update_cache_withdraw')
    ucl, uwl = Loc(model, uc), Loc(model, ucw)
    rp = uc.node.args.args[1].arg if len(uc.node.args.args) > 1 else '?'
    st = [n for n in walk_no_nested(uc.node) if isinstance(n, ast.Assign) and isinstance(n.targets[0], ast.Subscript) and '_seen' in ucl.expand(n.targets[0].value) and dotted(n.value) == rp and ucl.expand(n.targets[0].slice) == '%s.index()' % rp]
    run.check(len(st) == 1, uc.qualname, 'stores route under route.index()', uc.loc(), 'cache must be keyed by the route index')
    np_ = ucw.node.args.args[1].arg if len(ucw.node.args.args) > 1 else '?'
    pp = [n for n in walk_no_nested(ucw.node) if isinstance(n, ast.Call) and isinstance(n.func, ast.Attribute) and n.func.attr == 'pop' and 'self._seen' in uwl.expand(n.func.value) and n.args and uwl.expand(n.args[0]) == 'self._make_index(%s)' % np_]
    dl = [n for n in walk_no_nested(ucw.node) if isinstance(n, ast.Delete) and any(isinstance(t, ast.Subscript) and 'self._seen' in uwl.expand(t.value) and uwl.expand(t.slice) == 'self._make_index(%s)' % np_ for t in n.targets)]
    run.check(len(pp) + len(dl) == 1, ucw.qualname, 'removes the entry keyed _make_index(nlri) from the cache', ucw.loc(), 'withdraw must remove the entry of that NLRI')

    # ------------------------------------------------------------------ R3 / R4 on updates()
    upd = model.func(RIB + '.updates')
    run.analysed(upd)
    cfg = CFG(upd.node)
    yields = sorted((n for n in walk_no_nested(upd.node) if isinstance(n, ast.Yield)), key=lambda y: y.lineno)
    if len(yields) < 4:
        run.cannot('only %d yields in updates()' % len(yields))
        return
    snap: dict[str, str] = {}
    for n in walk_no_nested(upd.node):
        if isinstance(n, ast.Assign) and isinstance(n.targets[0], ast.Name):
            d = dotted(n.value) or ''
            if d.startswith('self._') and d[5:] in QUEUES:
                snap[n.targets[0].id] = d[5:]
    sl = Slicer(model, upd, control=True)

    def group(y: ast.Yield) -> str:
        atoms = sl.atoms(y.value) | sl.control_atoms(y)
        src = set()
        pm = parent_map(upd.node)
        # which snapshot does the yield's enclosing loop iterate?
        cur: ast.AST | None = y
        while cur is not None:
            cur = pm.get(id(cur))
            if isinstance(cur, ast.For):
                for x in ast.walk(cur.iter):
                    if isinstance(x, ast.Name) and x.id in snap:
                        src.add(snap[x.id])
                    d = dotted(x) if isinstance(x, ast.Attribute) else None
                    if d and d.startswith('self._') and d[5:] in QUEUES:
                        src.add(d[5:])
        if src & {'_refresh_families', '_refresh_routes'}:
            return 'refresh'
        if '_pending_withdraws' in src:
            return 'withdraw'
        if src & {'_new_attr_af_nlri', '_new_nlri'}:
            return 'announce'
        return '?'

    groups = [(y, group(y)) for y in yields]
    run.rule('C04.R3', 'updates() emits refresh, then withdraws, then announces: no yield of an earlier group is reachable after a yield of a later group', floor=1)
    order = {'refresh': 0, 'withdraw': 1, 'announce': 2}
    unknown = [y for y, g in groups if g == '?']
    if unknown:
        run.cannot('yield at line %d of updates() not classified' % unknown[0].lineno)
    nodes = {id(y): cfg.stmt_node_containing(y) for y, _ in groups}
    bad = None
    for ya, ga in groups:
        na = nodes[id(ya)]
        if na is None or ga == '?':
            continue
        reach = cfg.reachable(na.id)
        for yb, gb in groups:
            nb = nodes[id(yb)]
            if nb is None or gb == '?' or nb.id == na.id:
                continue
            if nb.id in reach and order[gb] < order[ga]:
                bad = (ya, ga, yb, gb)
    for g in ('refresh', 'withdraw', 'announce'):
        n = sum(1 for _, gg in groups if gg == g)
        if n == 0:
            run.violation(upd.qualname, 'no %s yield' % g, upd.loc(), 'updates() must emit the %s group' % g)
        elif bad is None:
            run.ok('updates(): %d %s yields in order' % (n, g))
    if bad is not None:
        run.violation(
            upd.qualname,
            '%s yield (line %d) reachable after %s yield (line %d)' % (bad[3], bad[2].lineno, bad[1], bad[0].lineno),
            upd.loc(bad[2]),
            'an announce does not cancel a pending withdraw of the same prefix, so withdraws must all be emitted before announces (and a refresh before both)',
        )

    run.rule('C04.R4', 'every queue read by updates() is detached before the first yield (local alias + fresh container) and never touched through self afterwards: nothing shared is iterated across a suspension point', floor=3)
    first = yields[0]
    fnode = cfg.stmt_node_containing(first)
    for q in QUEUES:
        alias_st = None
        reset_st = None
        for n in walk_no_nested(upd.node):
            if isinstance(n, ast.Assign):
                if isinstance(n.targets[0], ast.Name) and dotted(n.value) == 'self.' + q:
                    alias_st = alias_st or n
                if dotted(n.targets[0]) == 'self.' + q:
                    reset_st = reset_st or n
        late = [x for x in walk_no_nested(upd.node) if isinstance(x, ast.Attribute) and dotted(x) == 'self.' + q and x.lineno > first.lineno]
        fresh = reset_st is not None and (
            (isinstance(reset_st.value, (ast.Dict, ast.List)) and not getattr(reset_st.value, 'keys', getattr(reset_st.value, 'elts', [])))
            or (isinstance(reset_st.value, ast.Call) and isinstance(reset_st.value.func, ast.Name) and reset_st.value.func.id in ('set', 'dict', 'list') and not reset_st.value.args)
        )
        dom = False
        if reset_st is not None and fnode is not None:
            rn = cfg.node_of(reset_st)
            dom = rn is not None and cfg.dominates(rn, fnode)
        if q == '_new_nlri':
            ok = fresh and dom and not late
        else:
            ok = alias_st is not None and fresh and dom and not late and alias_st.lineno < reset_st.lineno
        why = 'self.%s must be aliased to a local and replaced by a fresh container before the first yield, and not referenced afterwards' % q
        if late:
            why += '; referenced again at line %d after the generator may have been suspended (API commands run between two next() calls)' % late[0].lineno
        run.check(ok, upd.qualname, 'self.%s detached before the first yield' % q, upd.loc(late[0]) if late else (upd.loc(reset_st) if reset_st is not None else upd.loc()), why)

    # ------------------------------------------------------------------ R8 one way into each queue, nothing filtered on the way out
    run.rule(
        'C04.R8',
        'a withdraw enters the pending queue only through _del_from_rib_impl (which first cancels a queued announce of the same '
        'route), an announce only through _update_rib; updates() sends everything it detached: the loop variables bound to the '
        'detached queues are not rebound or filtered inside the loops',
        floor=3,
    )
    writers: dict[str, set[str]] = {'_pending_withdraws': set(), '_new_nlri': set(), '_new_attr_af_nlri': set()}
    for fi_ in model.funcs.values():
        if fi_.cls is None or not model.is_subclass(fi_.cls.qualname, RIB) and fi_.cls.qualname != RIB:
            continue
        fl_ = Loc(model, fi_)
        for n in walk_no_nested(fi_.node):
            tg_ = None
            if isinstance(n, ast.Assign) and isinstance(n.targets[0], ast.Subscript):
                tg_ = n.targets[0].value
            elif isinstance(n, ast.Call) and isinstance(n.func, ast.Attribute) and n.func.attr in ('append', 'update', '__setitem__') :
                tg_ = n.func.value
            if tg_ is None:
                continue
            txt_ = fl_.expand(tg_)
            for qn_ in writers:
                if ('self.%s' % qn_) in txt_:
                    writers[qn_].add(fi_.name)
    want_w = {'_pending_withdraws': {'_del_from_rib_impl'}, '_new_nlri': {'_update_rib'}, '_new_attr_af_nlri': {'_update_rib'}}
    for qn_, w_ in sorted(writers.items()):
        run.check(w_ == want_w[qn_], RIB, 'entries are put into %s only by %s (found %s)' % (qn_, sorted(want_w[qn_]), sorted(w_)), upd.loc(), 'an entry queued by another function skips what the single entry point does first (cancelling the opposite operation queued for the same route, updating the cache): the peer can end on a route the Adj-RIB-Out does not hold, or the other way round')
    ul_ = Loc(model, upd)
    detached = {nm for nm in ul_.defs if any(isinstance(v, ast.Attribute) and dotted(v) in ('self._new_attr_af_nlri', 'self._pending_withdraws', 'self._refresh_routes', 'self._new_nlri') for v in ul_.values(nm))}
    loopvars: dict[str, ast.AST] = {}
    for lp in walk_no_nested(upd.node):
        if isinstance(lp, ast.For) and (ul_.reads(lp.iter) & (detached | set(loopvars))):
            for x in ast.walk(lp.target):
                if isinstance(x, ast.Name):
                    loopvars[x.id] = lp
    # which queue each alias stands for
    queue_of = {nm: dotted(v).split('.', 1)[1] for nm in ul_.defs for v in ul_.values(nm) if isinstance(v, ast.Attribute) and dotted(v) in ('self._new_attr_af_nlri', 'self._pending_withdraws', 'self._refresh_routes', 'self._new_nlri', 'self._refresh_families')}
    rebound = []
    for n in walk_no_nested(upd.node):
        if not isinstance(n, (ast.Assign, ast.AugAssign)):
            continue
        tgs = [x.id for t_ in (n.targets if isinstance(n, ast.Assign) else [n.target]) for x in ast.walk(t_) if isinstance(x, ast.Name) and isinstance(x.ctx, ast.Store)]
        hit = [t for t in tgs if t in loopvars]
        if not hit:
            continue
        # the queue this loop variable comes from
        lp = loopvars[hit[0]]
        own = {q for a, q in queue_of.items() if ul_.depends_on(lp.iter, [a])}
        others = [a for a, q in queue_of.items() if q not in own and not (own & {'_new_attr_af_nlri', '_new_nlri'} and q in ('_new_attr_af_nlri', '_new_nlri'))]
        if ul_.depends_on(n.value, others):
            rebound.append(n)
    run.check(bool(loopvars) and not rebound, upd.qualname, 'what is emitted from one queue is not filtered by the content of another queue (%d loop variables)' % len(loopvars), upd.loc(rebound[0]) if rebound else upd.loc(), 'the collection being emitted is replaced inside the loop by one that leaves out entries found in another queue (%s): routes that were queued are dropped without being sent while the cache already says they were' % (norm(rebound[0])[:70] if rebound else ''))

    # ------------------------------------------------------------------ R5
    run.rule('C04.R5', 'Cache.in_cache says "already sent" only when the cached route has the same attribute index AND the same next hop index', floor=2)
    ic = model.func(CACHE + '.in_cache')
    run.analysed(ic)
    il = Loc(model, ic)
    rparam = ic.node.args.args[1].arg if len(ic.node.args.args) > 1 else '?'
    cvars = il.from_value(lambda v: 'self._seen' in il.expand(v) and ('%s.index()' % rparam) in il.expand(v))
    cvars = [c for c in cvars if not any(il.reads(v) & (set(cvars) - {c}) for v in il.values(c))]

    def canon(e: ast.AST) -> str:
        t = il.expand(e, keep=cvars)
        for c in cvars:
            t = re.sub(r'\b%s\b' % re.escape(c), '$C', t)
        return re.sub(r'\b%s\b' % re.escape(rparam), '$R', t)

    # equality tests that decide the answer: `if X != Y: return False`, or `X == Y` flowing into the returned value
    decided: dict[frozenset[str], ast.AST] = {}

    def eqs(e: ast.AST, positive: bool) -> None:
        if isinstance(e, ast.BoolOp) and isinstance(e.op, ast.And) and positive:
            for v in e.values:
                eqs(v, positive)
        elif isinstance(e, ast.UnaryOp) and isinstance(e.op, ast.Not):
            eqs(e.operand, not positive)
        elif isinstance(e, ast.Compare) and len(e.ops) == 1 and isinstance(e.ops[0], ast.Eq if positive else ast.NotEq):
            decided[frozenset((canon(e.left), canon(e.comparators[0])))] = e

    exits = []
    for n in walk_no_nested(ic.node):
        if isinstance(n, ast.If):
            rets = [x for x in n.body if isinstance(x, ast.Return)]
            if rets and folder.fold(rets[0].value, ic.module, ic.cls) is False and not n.orelse:
                eqs(n.test, False)
                exits.append(n)
        elif isinstance(n, ast.Return) and n.value is not None:
            vals = [n.value] + (il.values(n.value.id) if isinstance(n.value, ast.Name) else [])
            for v in vals:
                eqs(v, True)
    has_attr = frozenset(('$C.attributes.index()', '$R.attributes.index()')) in decided
    has_nh = frozenset(('$C.nexthop.index()', '$R.nexthop.index()')) in decided
    # routes whose index() is assembled from some of their fields (Label, IPVPN: the label stack is left out) can differ
    # although their indexes agree: for those the answer needs a comparison of the NLRI beyond its index
    NLRI_BASE = 'exabgp.bgp.message.update.nlri.nlri.NLRI'
    by_parts = []
    seen_index: set[str] = set()
    for qn, ci in sorted(model.classes.items()):
        if not model.is_subclass(qn, NLRI_BASE):
            continue
        m = model.effective(qn, 'index')
        if m is None or m.qualname in seen_index:
            continue
        seen_index.add(m.qualname)
        rets = [r.value for r in walk_no_nested(m.node) if isinstance(r, ast.Return) and r.value is not None]
        ml = Loc(model, m)
        texts = []
        for r in rets:
            t = ml.expand(r)
            for nm in {x.id for x in ast.walk(r) if isinstance(x, ast.Name)}:
                t += ' ; ' + ' ; '.join(ml.expand(v) for v in ml.values(nm))
            texts.append(t)
        whole = all(re.search(r'self\._packed(?!\[)|self\.pack_nlri\(|^\w+\.index\(self\)( ;|$)', t) for t in texts)
        if rets and not whole:
            by_parts.append(m.qualname)
    run.extra['index_assembled_from_parts'] = [short(q) for q in by_parts]
    has_wire = False
    for pair in decided:
        if len(pair) != 2:
            continue
        a_, b_ = sorted(pair)
        if a_.startswith('$C.nlri.') and b_.startswith('$R.nlri.') and a_[2:] == b_[2:] and a_[len('$C.nlri.'):] not in ('index()', 'prefix_index()'):
            has_wire = True
    true_rets = [r for r in walk_no_nested(ic.node) if isinstance(r, ast.Return) and folder.fold(r.value, ic.module, ic.cls) is True]
    last_cmp = max((n.lineno for n in exits), default=0)
    if len(cvars) != 1:
        run.cannot('Cache.in_cache: lookup of the cached route in self._seen by the route index not found (shape not understood)')
    run.check(has_attr, ic.qualname, 'different attributes -> not in cache', ic.loc(), 'a route whose attributes changed must be re-announced')
    run.check(has_nh, ic.qualname, 'different next hop -> not in cache', ic.loc(), 'a route whose next hop changed must be re-announced')
    run.check(has_wire or not by_parts, ic.qualname, 'same index but different NLRI bytes -> not in cache', ic.loc(), 'index() of %s leaves fields out (the label stack): the same prefix announced again with another label has the same index, attributes and next hop, is answered "already sent" and never reaches the peer' % ', '.join(short(q) for q in by_parts))
    run.check(all(r.lineno > last_cmp for r in true_rets), ic.qualname, 'no `return True` before the comparisons', ic.loc(true_rets[0]) if true_rets else ic.loc(), 'no early "already sent" answer')
    run.check(len(cvars) == 1, ic.qualname, 'looked up in self._seen by route.index()', ic.loc(), 'lookup key must be the route index')

    # ------------------------------------------------------------------ R10 withdraws are held back for the first batch only
    run.rule(
        'C04.R10',
        'withdraws are left out of the first batch of a session only: the sender starts with include_withdraw False, the '
        'end of a batch sets it to True, and no update generator is created after the end of a batch with the old value',
        floor=3,
    )
    _r10_first_batch(model, run, folder)

    # ------------------------------------------------------------------ R11 the cache holds the route that was queued
    run.rule(
        'C04.R11',
        'Cache.update_cache records the route it is given: the store into self._seen is not skipped because the cached route '
        '"equals" the new one - Route equality looks at the NLRI index and the attributes, not at the labels or the next hop, '
        'so a re-announce that changes only those would be sent while the reported Adj-RIB-Out (and every replay) keeps the old one',
        floor=1,
    )
    uc = model.func(CACHE + '.update_cache')
    run.analysed(uc)
    ucl = Loc(model, uc)
    rp = uc.node.args.args[1].arg if len(uc.node.args.args) > 1 else '?'
    stores = [n for n in walk_no_nested(uc.node) if isinstance(n, ast.Assign) and isinstance(n.targets[0], ast.Subscript) and 'self._seen' in ucl.expand(n.targets[0].value, depth=6) and ucl.expand(n.value) == rp]
    if not stores:
        run.cannot('Cache.update_cache: the store of the route into self._seen was not found')
    for st in stores:
        bad = None
        for t, pol in flat_guards(uc.node, st):
            for c in ast.walk(ucl.expanded(t, depth=6)):
                if isinstance(c, ast.Compare) and isinstance(c.ops[0], (ast.Eq, ast.NotEq, ast.Is, ast.IsNot)) and any(isinstance(x, ast.Name) and x.id == rp for x in [c.left] + c.comparators):
                    bad = t
        run.check(bad is None, uc.qualname, 'the route is stored whatever the cache held (%s)' % ('no comparison with the cached route' if bad is None else 'guarded by ' + norm(bad)), uc.loc(st), 'Route.__eq__ / __ne__ ignore the label stack and Route.nexthop')

    # ------------------------------------------------------------------ R7 add_to_rib
    run.rule('C04.R7', 'add_to_rib queues unless the identical route is cached and force is false; del_from_rib hands the route\'s own nlri/attributes/index to the shared removal', floor=1)
    a = model.func(RIB + '.add_to_rib')
    run.analysed(a)
    calls = model.calls_to(a.module, a.node, 'OutgoingRIB._update_rib')
    ok = False
    if len(calls) == 1:
        g = [(norm(t), pol) for t, pol in flat_guards(a.node, calls[0])]
        # not (not force and in_cache) and enabled
        ok = ('self.enabled', True) in g and any('self.in_cache(route)' in t and 'not force' in t and not pol for t, pol in g) and len(g) == 2
    run.check(ok, a.qualname, '_update_rib unless (not force and in_cache(route))', a.loc(), 'an announce may be skipped only when the identical route was already sent')
    d = model.func(RIB + '.del_from_rib')
    dc = model.calls_to(d.module, d.node, 'OutgoingRIB._del_from_rib_impl')
    sl3 = Slicer(model, d)
    okd = False
    if len(dc) == 1 and len(dc[0].args) == 3:
        srcs = []
        for arg in dc[0].args:
            if isinstance(arg, ast.Name):
                srcs.append(sorted(norm(v) for v, _ in sl3.defs.get(arg.id, [])))
            else:
                srcs.append([norm(arg)])
        okd = srcs == [['route.nlri'], ['route.attributes'], ['route.index()']]
    run.check(okd, d.qualname, '_del_from_rib_impl(route.nlri, route.attributes, route.index())', d.loc(), 'removal must address the route that is being withdrawn')


def check_thorough(model: Model, run: Run) -> None:
    run.rule('C04.R6', 'only rib/ writes the Adj-RIB-Out tables (_seen, _new_*, _pending_withdraws, _refresh_*)', floor=1)
    names = set(QUEUES) | {'_seen', '_watchdog'}
    bad = []
    n = 0
    for fi in model.funcs.values():
        for x in walk_no_nested(fi.node):
            tg = None
            if isinstance(x, ast.Assign):
                tg = x.targets
            elif isinstance(x, ast.AugAssign):
                tg = [x.target]
            for t in tg or []:
                base = t
                while isinstance(base, ast.Subscript):
                    base = base.value
                if isinstance(base, ast.Attribute) and base.attr in names:
                    owner = model.type_of(fi.module, base.value)
                    if 'exabgp.rib.' in owner:
                        n += 1
                        if not fi.module.rel.startswith('exabgp/rib/'):
                            bad.append((fi, x))
    for fi, x in bad:
        run.violation(fi.qualname, norm(x)[:80], fi.loc(x), 'a RIB table is written outside exabgp/rib/')
    if not bad:
        run.ok('%d writes, all inside exabgp/rib/' % n)


# ---------------------------------------------------------------------------------------------- R10
def _r10_first_batch(model: Model, run: Run, folder: Folder) -> None:
    from ..cfg import handler_names

    gens = [q for q in model.funcs if q.endswith('Protocol.new_update_generator')]
    if not gens:
        run.cannot('Protocol.new_update_generator vanished')
        return
    senders = [f for f in model.funcs.values() if any(isinstance(c, ast.Call) and set(model.callees(f.module, c)) & set(gens) for c in walk_no_nested(f.node))]
    if not senders:
        run.cannot('no caller of Protocol.new_update_generator found')
        return
    for f in senders:
        run.analysed(f)
        cfg = CFG(f.node)
        calls = [c for c in walk_no_nested(f.node) if isinstance(c, ast.Call) and set(model.callees(f.module, c)) & set(gens)]
        handlers = [h for n in walk_no_nested(f.node) if isinstance(n, ast.Try) for h in n.handlers if set(handler_names(h)) & {'StopAsyncIteration', 'StopIteration'}]
        run.check(bool(handlers), f.qualname, 'the end of a batch is observed (StopAsyncIteration arm)', f.loc(), 'the sender must notice that a batch is finished')
        for c in calls:
            arg = c.args[0] if c.args else None
            if isinstance(arg, ast.Constant):
                run.check(arg.value is True or not handlers, f.qualname, 'generator created with a constant %r' % arg.value, f.loc(c), 'a constant False would hold withdraws back for ever')
                continue
            if not isinstance(arg, ast.Name):
                run.cannot('%s: argument of new_update_generator is not a name: %s' % (short(f.qualname), norm(c)))
                continue
            v = arg.id
            # can the call be reached from the end of a batch without passing `v = True`?
            target = cfg.stmt_node_containing(c)
            bad = False
            seen: set[int] = set()
            work = [n.id for h in handlers for st in h.body[:1] for n in cfg.nodes_of(st)]
            while work and target is not None:
                i = work.pop()
                if i in seen:
                    continue
                seen.add(i)
                node = cfg.nodes[i]
                st = node.ast
                if node.kind not in ('test', 'dispatch') and isinstance(st, ast.Assign) and any(isinstance(t, ast.Name) and t.id == v for t in st.targets) and folder.fold(st.value, f.module, f.cls) is True:
                    continue
                if i == target.id:
                    bad = True
                    break
                work += [s for s, _ in node.succ]
            run.check(
                not bad,
                f.qualname,
                'no generator is created after the end of a batch with the value `%s` had before it' % v,
                f.loc(c),
                'the generator created right after a batch ended still gets the flag of that batch: when that batch was the first of '
                'the session (include_withdraw False), the withdraws queued meanwhile are left out of the next batch as well and the '
                'peer keeps routes ExaBGP reports as withdrawn',
            )
        # the end of the batch turns the flag on, and the new value is what the caller gets back
        sets = [n for h in handlers for n in ast.walk(h) if isinstance(n, ast.Assign) and folder.fold(n.value, f.module, f.cls) is True and isinstance(n.targets[0], ast.Name)]
        rets = [r for r in walk_no_nested(f.node) if isinstance(r, ast.Return) and r.value is not None]
        names = {n.targets[0].id for n in sets}
        run.check(bool(sets) and all(names & {x.id for x in ast.walk(r.value) if isinstance(x, ast.Name)} for r in rets), f.qualname, 'the end of a batch sets the flag and the flag is returned', f.loc(sets[0]) if sets else f.loc(), 'after the first batch withdraws must be included')
    # the session loop starts with False and only takes what the sender returns
    for f in senders:
        callers = [g for g in model.funcs.values() if any(isinstance(c, ast.Call) and f.qualname in model.callees(g.module, c) for c in walk_no_nested(g.node))]
        for g in callers:
            run.analysed(g)
            ok = False
            for n in walk_no_nested(g.node):
                if isinstance(n, ast.Assign) and isinstance(n.targets[0], ast.Tuple) and any(isinstance(c, ast.Call) and f.qualname in model.callees(g.module, c) for c in ast.walk(n.value)):
                    outs = [e.id for e in n.targets[0].elts if isinstance(e, ast.Name)]
                    call = next(c for c in ast.walk(n.value) if isinstance(c, ast.Call) and f.qualname in model.callees(g.module, c))
                    ins = [a.id for a in call.args if isinstance(a, ast.Name)]
                    flag = [o for o in outs if o in ins]
                    inits = [a for a in walk_no_nested(g.node) if isinstance(a, ast.Assign) and isinstance(a.targets[0], ast.Name) and a.targets[0].id in flag and isinstance(a.value, ast.Constant) and a.value.value is False]
                    others = [a for a in walk_no_nested(g.node) if isinstance(a, ast.Assign) and isinstance(a.targets[0], ast.Name) and a.targets[0].id in {i.targets[0].id for i in inits} and a not in inits]
                    ok = bool(inits) and not others
            run.check(ok, g.qualname, 'the flag starts False and is only replaced by what the sender returns', g.loc(), 'the first batch of a session must not carry withdraws for routes the peer never had; every later one must')
