"""C10 — every protocol error is answered with the right NOTIFICATION, once.  DESIGN.md 3/C10."""

from __future__ import annotations

import ast

from ..cfg import CFG, handler_names
from ..const import UNKNOWN, Folder
from ..flow import parent_map
from ..model import FuncInfo, Model, dotted, norm, walk_no_nested
from ..report import Run
from ..typestate import propagate
from .common import CallGraph, ExcFlow, short
from .C05 import _calls_in_stmt
from . import registry_helpers as rh

PEER = 'exabgp.reactor.peer.peer.Peer'
PROTO = 'exabgp.reactor.protocol.Protocol'
NOTIFICATION = 'exabgp.bgp.message.notification.Notification'

# RFC 4271 section 6 + RFC 5492 (2/7) + RFC 6608 (5/1-3) + RFC 4486/8203/9003 (6/x) + RFC 7313 (7/x)
# + draft multisession (2/8-2/10, kept by the repository's table)
RFC_CODES = (
    {(1, s) for s in range(0, 4)}
    | {(2, s) for s in range(0, 11)}
    | {(3, s) for s in range(0, 12)}
    | {(4, 0)}
    | {(5, s) for s in range(0, 4)}
    | {(6, s) for s in range(0, 11)}
    | {(7, s) for s in range(0, 3)}
)

# error class by place (module prefix -> allowed codes).  (1, 2) is the message-length error any decoder may raise.
PLACE = [
    ('exabgp/reactor/network/connection.py', {1}),
    ('exabgp/bgp/message/open/', {2}),
    ('exabgp/bgp/message/update/', {3}),
    ('exabgp/bgp/message/refresh.py', {7}),
    ('exabgp/bgp/message/keepalive.py', {1}),
    ('exabgp/reactor/keepalive.py', {4}),
    ('exabgp/reactor/listener.py', {6}),
]
PLACE_EXEMPT = {
    ('exabgp.bgp.message.update.attribute.attribute.Attribute.klass', (2, 4)): 'unreachable while decoding: callers test Attribute.registered() first',
    ('exabgp.bgp.message.update.attribute.attribute.Attribute.unpack', (2, 4)): 'unreachable while decoding: AttributeCollection.parse tests Attribute.registered() first',
}


def notify_sites(model: Model, folder: Folder):
    """(FuncInfo, call, (code, subcode) | None, raw text) for every NOTIFICATION-producing construction."""
    out = []
    for fi in model.funcs.values():
        for n in walk_no_nested(fi.node):
            if not isinstance(n, ast.Call):
                continue
            is_n = model.call_matches(fi.module, n, 'Notify', 'NotifyError', 'Notify.make_notify')
            is_conn = isinstance(n.func, ast.Attribute) and n.func.attr == 'notification' and model.call_matches(fi.module, n, 'Incoming.notification', 'Connection.notification')
            is_timer = model.call_matches(fi.module, n, 'ReceiveTimer')
            if not (is_n or is_conn or is_timer):
                continue
            args = n.args
            if is_timer:
                args = n.args[2:4]
            if len(args) >= 2 and not any(isinstance(a, ast.Starred) for a in args[:2]):
                c = folder.fold(args[0], fi.module, fi.cls)
                s = folder.fold(args[1], fi.module, fi.cls)
                pair = (c, s) if isinstance(c, int) and isinstance(s, int) else None
                out.append((fi, n, pair, (norm(args[0]), norm(args[1]))))
            else:
                out.append((fi, n, None, (norm(n)[:50], '')))
    return out


def _forwarding(fi, call: ast.Call, raw: tuple[str, str]) -> str | None:
    """non-literal (code, subcode): accepted when the pair is copied as a pair from somewhere that was itself checked"""
    args = call.args[2:4] if len(call.args) >= 4 and not (len(call.args) >= 2 and isinstance(call.args[0], ast.Constant)) and raw == (norm(call.args[2]), norm(call.args[3])) else call.args[:2]
    if len(args) < 2:
        return None
    a, b = args
    if isinstance(a, ast.Attribute) and isinstance(b, ast.Attribute) and a.attr == 'code' and b.attr == 'subcode' and norm(a.value) == norm(b.value):
        return 'copies .code/.subcode of one existing error object (its construction site is checked)'
    params = {x.arg for x in fi.node.args.args + fi.node.args.kwonlyargs}
    if isinstance(a, ast.Name) and isinstance(b, ast.Name) and a.id in params and b.id in params:
        return 'constructor / forwarding wrapper parameters (the callers are checked)'
    if raw in NONLITERAL_OK:
        return NONLITERAL_OK[raw]
    # Notify(<6>, self.<attr>): a cease whose subcode is kept on the object - every value stored in that attribute by the
    # class must be a cease subcode (a constant 1..10, None before it is set) or a parameter handed in by a caller
    if _FOLDER is not None and fi.cls is not None and _FOLDER.fold(a, fi.module, fi.cls) == 6 and isinstance(b, ast.Attribute) and isinstance(b.value, ast.Name) and b.value.id == 'self':
        stores = []
        for m in fi.cls.methods.values():
            ps = {x.arg for x in m.node.args.args + m.node.args.kwonlyargs}
            for n in walk_no_nested(m.node):
                if isinstance(n, (ast.Assign, ast.AnnAssign)):
                    tg = n.targets[0] if isinstance(n, ast.Assign) else n.target
                    if dotted(tg) == 'self.' + b.attr and n.value is not None:
                        v = _FOLDER.fold(n.value, m.module, m.cls)
                        stores.append(v is None or (isinstance(v, int) and 1 <= v <= 10) or (isinstance(n.value, ast.Name) and n.value.id in ps))
        if stores and all(stores):
            return 'cease with the subcode kept in self.%s: %d stores, each a cease subcode or a parameter' % (b.attr, len(stores))
    return None


# non-literal code expressions, each traced to its literal origins by reading
NONLITERAL_OK: dict = {}
_FOLDER: Folder | None = None


def check(model: Model, run: Run) -> None:
    global _FOLDER
    folder = Folder(model)
    _FOLDER = folder
    # ------------------------------------------------------------------ R1
    run.rule(
        'C10.R1',
        "every literal (code, subcode) of a Notify / NotifyError / connection.notification / ReceiveTimer is a key of "
        "Notification._str_subcode, which is a subset of the RFC table (4271 6, 5492, 6608, 4486, 7313); non-literal "
        'codes are forwarding wrappers confirmed by reading',
        floor=180,
    )
    ncls = model.cls(NOTIFICATION)
    table = ncls.assigns.get('_str_subcode')
    keys = set()
    if isinstance(table, ast.Dict):
        for k in table.keys:
            v = folder.fold(k, ncls.module, ncls)
            if isinstance(v, tuple):
                keys.add(v)
    if len(keys) < 40:
        run.cannot('Notification._str_subcode has %d folded keys' % len(keys))
    extra = keys - RFC_CODES
    run.check(not extra, NOTIFICATION, '_str_subcode keys within the RFC table', ncls.loc(), 'codes %s are not defined by the RFCs' % sorted(extra))
    sites = notify_sites(model, folder)
    run.call_sites += len(sites)
    for fi, call, pair, raw in sites:
        run.analysed(fi)
        if pair is None:
            why = _forwarding(fi, call, raw)
            if why is not None or raw[1] == '' or raw[0] in ('neighbor', 'peer.neighbor', 'self.peer.neighbor'):
                if why is not None:
                    run.ok('%s: forwards a code pair' % short(fi.qualname), why)
                continue
            run.violation(fi.qualname, 'non-literal notification code %s' % (raw,), fi.loc(call), 'the code/subcode cannot be traced to a literal')
            continue
        run.check(pair in keys, fi.qualname, 'Notify%s' % (pair,), fi.loc(call), 'the pair %s is not in Notification._str_subcode (undefined NOTIFICATION)' % (pair,))

    # ------------------------------------------------------------------ R2
    run.rule('C10.R2', 'error class by place: header checks raise 1/x, OPEN decoding 2/x, UPDATE decoding 3/x, ROUTE-REFRESH 7/x, keepalive timer 4/0 ((1,2) allowed in any decoder)', floor=150)
    for fi, call, pair, raw in sites:
        if pair is None:
            continue
        for prefix, allowed in PLACE:
            if fi.module.rel.startswith(prefix):
                ok = pair[0] in allowed or pair == (1, 2)
                if not ok and (fi.qualname, pair) in PLACE_EXEMPT:
                    run.ok('%s Notify%s' % (short(fi.qualname), pair), 'exempt: ' + PLACE_EXEMPT[(fi.qualname, pair)])
                else:
                    run.check(ok, fi.qualname, 'Notify%s in %s' % (pair, prefix), fi.loc(call), 'errors detected in %s must use code %s (RFC 4271 6)' % (prefix, sorted(allowed)))
                break
    # Notify(*error) in validate_open forwards the tuples returned by Negotiated.validate / built in _negotiate:
    # they are OPEN message errors
    for qn in ('exabgp.bgp.message.open.capability.negotiated.Negotiated.validate', 'exabgp.bgp.message.open.capability.negotiated.Negotiated._negotiate'):
        f = model.func(qn)
        run.analysed(f)
        for n in walk_no_nested(f.node):
            tup = None
            if isinstance(n, ast.Return) and isinstance(n.value, ast.Tuple):
                tup = n.value
            if isinstance(n, ast.Assign) and isinstance(n.value, ast.Tuple) and dotted(n.targets[0]) == 'self.multisession':
                tup = n.value
            if tup is None or len(tup.elts) < 2:
                continue
            c = folder.fold(tup.elts[0], f.module, f.cls)
            sc = folder.fold(tup.elts[1], f.module, f.cls)
            if not (isinstance(c, int) and isinstance(sc, int)):
                continue
            run.check(c == 2 and (c, sc) in keys, qn, 'OPEN refusal tuple (%s, %s)' % (c, sc), f.loc(n), 'a fault found while validating the peer OPEN is an OPEN Message Error (2/x), got %s/%s' % (c, sc))
    # fixed places
    ro = model.func(PROTO + '.read_open')
    rk = model.func(PROTO + '.read_keepalive')
    for f, want in ((ro, (5, 1)), (rk, (5, 2))):
        pairs = [p for fi, c, p, r in sites if fi is f]
        run.check(pairs == [want], f.qualname, 'raises %s' % pairs, f.loc(), 'an unexpected message here is %s (RFC 6608)' % (want,))
    est = model.func(PEER + '._establish')
    tp = [p for fi, c, p, r in sites if fi is est and model.call_matches(fi.module, c, 'ReceiveTimer')]
    run.check(tp == [(4, 0)], est.qualname, 'ReceiveTimer built with %s' % tp, est.loc(), 'hold timer expiry is 4/0')
    rop = model.func(PEER + '._read_open')
    pairs = [p for fi, c, p, r in sites if fi is rop]
    run.check(pairs == [(5, 1)], rop.qualname, 'open wait timeout raises %s' % pairs, rop.loc(), 'OPEN not received in time is 5/1')

    # ------------------------------------------------------------------ R3
    run.rule('C10.R3', 'a NOTIFICATION is never answered: nothing escapes Notification.unpack_message by explicit raise, and the `except Notification` arm of Peer._run writes nothing', floor=2)
    exc = ExcFlow(model)
    esc = exc.escapes(NOTIFICATION + '.unpack_message')
    esc = {e for e in esc if e != 'NotImplementedError'}
    # the constructor guard is dominated by the len(data) test of unpack_message
    um = model.func(NOTIFICATION + '.unpack_message')
    guarded = any(isinstance(n, ast.If) and 'len(data)' in norm(n.test) and 'HEADER_SIZE' in norm(n.test) for n in walk_no_nested(um.node))
    if esc == {'ValueError'} and guarded:
        esc = set()
    run.check(not esc, um.qualname, 'explicit escapes: %s' % sorted(esc), um.loc(), 'a malformed NOTIFICATION must not raise (it would be answered with a NOTIFICATION, RFC 4271 6.5)')
    # implicit raisers (decode/encode without errors=, int(str)) on the decode path of a NOTIFICATION
    from .common import CallGraph, implicit_raise_sites

    cgn = CallGraph(model, cha=False)
    reach = cgn.reachable([um.qualname])
    n_scanned = 0
    for q in sorted(reach):
        f = model.funcs[q]
        if not f.module.rel.startswith('exabgp/bgp/message/notification.py'):
            continue
        n_scanned += 1
        for call, label in implicit_raise_sites(model, f):
            run.violation(
                q,
                'unguarded %s can raise %s while decoding a NOTIFICATION' % (norm(call)[:60], label),
                f.loc(call),
                'peer-chosen bytes reach this call on the path Notification.unpack_message -> %s; the %s it raises is '
                'turned into Notify(1, 0) by read_message and sent: a received NOTIFICATION is answered with a NOTIFICATION' % (short(q), label),
                [' -> '.join(short(x) for x in cgn.path(reach, q))],
            )
    run.check(n_scanned >= 2, um.qualname, 'implicit-raiser scan covered %d functions of the NOTIFICATION decode path' % n_scanned, um.loc(), 'scan must cover unpack_message and the constructor')
    runf = model.func(PEER + '._run')
    run.analysed(runf)
    arm = None
    for t in runf.node.body:
        if isinstance(t, ast.Try):
            for h in t.handlers:
                if handler_names(h) == ['Notification']:
                    arm = h
    if arm is None:
        run.cannot('except Notification arm not found in _run')
    else:
        writers = model.calls_to(runf.module, arm, 'Protocol.new_notification', 'Protocol.write', 'Protocol.send', 'Protocol.new_keepalive', 'Protocol.new_open')
        run.check(not writers, runf.qualname, 'except Notification arm writes nothing', runf.loc(arm), 'a received NOTIFICATION must not be answered')
        # and the arm must come after `except Notify` (Notify is a Notification subclass)
        names = [handler_names(h) for t in runf.node.body if isinstance(t, ast.Try) for h in t.handlers]
        flat = [n[0] for n in names]
        run.check('Notify' in flat and 'Notification' in flat and flat.index('Notify') < flat.index('Notification'), runf.qualname, 'handler order %s' % flat, runf.loc(), 'except Notify must precede except Notification (Notify is a subclass)')

    # ------------------------------------------------------------------ R4
    run.rule('C10.R4', 'in the `except Notify` arm of Peer._run new_notification is called exactly once on every path where a transport exists, followed by _reset on all paths, with no other write in between; Protocol.close drops the connection and every writer starts with a connection guard', floor=4)
    _r4_once(model, run, runf)

    # ------------------------------------------------------------------ R6 who writes a NOTIFICATION, and on what
    run.rule(
        'C10.R6',
        'a NOTIFICATION is written in exactly one place, the `except Notify` arm of Peer._run (an error WE detected): no other '
        'arm answers - a ProcessError or a Notification can come out of the reading of a NOTIFICATION the peer sent; and the '
        'framing checks of Connection.reader / reader_async hand their error back without closing the transport first, so that '
        'the NOTIFICATION can still be written',
        floor=3,
    )
    sites6 = []
    for fi in model.funcs.values():
        for c in model.calls_to(fi.module, fi.node, 'Protocol.new_notification'):
            sites6.append((fi, c))
    arm6 = None
    for t in runf.node.body:
        if isinstance(t, ast.Try):
            for h in t.handlers:
                if handler_names(h) == ['Notify']:
                    arm6 = h
    for fi, c in sites6:
        inside = arm6 is not None and fi is runf and any(x is c for x in ast.walk(arm6))
        run.check(inside, fi.qualname, 'NOTIFICATION written from the `except Notify` arm of Peer._run', fi.loc(c), 'this call writes a NOTIFICATION outside the arm that handles the errors ExaBGP itself detected: on this path the session may be ending because the PEER sent a NOTIFICATION (read_message hands it to the API before raising it, and that hand-off can fail), and RFC 4271 forbids answering one')
    if not sites6:
        run.cannot('no call of Protocol.new_notification found')
    for qn in ('exabgp.reactor.network.connection.Connection.reader_async', 'exabgp.reactor.network.connection.Connection.reader'):
        f6 = model.func(qn)
        run.analysed(f6)
        exits = 0
        closes = []
        for iff in walk_no_nested(f6.node):
            if not isinstance(iff, ast.If):
                continue
            if not any(isinstance(x, ast.Call) and model.call_matches(f6.module, x, 'NotifyError') for st_ in iff.body for x in ast.walk(st_)):
                continue
            exits += 1
            closes += [x for st_ in iff.body for x in ast.walk(st_) if isinstance(x, ast.Call) and isinstance(x.func, ast.Attribute) and x.func.attr == 'close']
        run.check(exits >= 2 and not closes, qn, 'header errors are handed back with the transport still open (%d error exits)' % exits, f6.loc(closes[0]) if closes else f6.loc(), 'the connection is closed before the error is returned: Peer._run still "sends" the NOTIFICATION, but the writer returns silently on a closed socket and nothing reaches the peer')

    # ------------------------------------------------------------------ R7 a refusal that is built is also sent
    run.rule(
        'C10.R7',
        'Incoming.notification is a generator function - nothing is written until it is iterated: every call of it, and of the '
        'functions that hand its result on (Peer.handle_connection, Reactor.handle_connection), ends in an iteration, a `yield '
        'from`, reactor.asynchronous.schedule(...) or a return that passes it further; a result that is only tested or dropped '
        'means the NOTIFICATION is never sent and the refused socket never closed',
        floor=4,
    )
    gens = {q for q, f in model.funcs.items() if q.endswith('.Incoming.notification') or q.endswith('.Connection.notification')}
    changed = True
    while changed:
        changed = False
        for q, f in model.funcs.items():
            if q in gens:
                continue
            for r in walk_no_nested(f.node):
                if isinstance(r, ast.Return) and isinstance(r.value, ast.Call) and any(c in gens for c in model.callees(f.module, r.value)):
                    gens.add(q)
                    changed = True
                    break
    run.extra['refusal_generators'] = sorted(short(g) for g in gens)
    n7 = 0
    for f in sorted(model.funcs.values(), key=lambda x: x.qualname):
        pm7 = None
        for c in walk_no_nested(f.node):
            if not (isinstance(c, ast.Call) and any(g in gens for g in model.callees(f.module, c))):
                continue
            n7 += 1
            pm7 = pm7 or parent_map(f.node)
            par = pm7.get(id(c))
            how = None
            if isinstance(par, ast.Return):
                how = 'returned'
            elif isinstance(par, (ast.For, ast.AsyncFor)) and par.iter is c:
                how = 'iterated'
            elif isinstance(par, ast.YieldFrom):
                how = 'yield from'
            elif isinstance(par, ast.Call) and isinstance(par.func, ast.Attribute) and par.func.attr == 'schedule' and c in par.args:
                how = 'scheduled'
            elif isinstance(par, ast.Assign) and isinstance(par.targets[0], ast.Name):
                nm = par.targets[0].id
                uses = [x for x in walk_no_nested(f.node) if isinstance(x, ast.Name) and x.id == nm and isinstance(x.ctx, ast.Load)]
                for u in uses:
                    pu = pm7.get(id(u))
                    if (isinstance(pu, (ast.For, ast.AsyncFor)) and pu.iter is u) or isinstance(pu, ast.YieldFrom) or isinstance(pu, ast.Return) or (isinstance(pu, ast.Call) and ((isinstance(pu.func, ast.Attribute) and pu.func.attr == 'schedule') or dotted(pu.func) in ('next', 'list'))):
                        how = 'consumed through `%s`' % nm
            run.check(how is not None, f.qualname, 'refusal built by %s is %s' % (norm(c.func)[:50], how or 'never run'), f.loc(c), 'the generator that writes the NOTIFICATION and closes the socket is created but never iterated or scheduled: the peer gets no Cease and the connection stays open')
    if n7 < 4:
        run.cannot('only %d calls producing a refusal generator found' % n7)

    # ------------------------------------------------------------------ R8 the error that was meant is the one that is sent
    run.rule(
        'C10.R8',
        'the NOTIFICATION that names the error can be built: the text of every Notify / NotifyError is ASCII whatever the peer '
        "sent (Notify.__init__ encodes it with bytes(data, 'ascii')); a peer-chosen string in it raises UnicodeEncodeError in place "
        'of the Notify, and the catch-all of read_message answers 1/0 (Message Header Error) for what is an OPEN or UPDATE error '
        '(shared with C03.R7)',
        floor=100,
    )
    from .C03 import _r7_notify_text

    _r7_notify_text(model, run)

    # ------------------------------------------------------------------ R5
    # ------------------------------------------------------------------ R9 a timer that ends the session names itself
    run.rule(
        'C10.R9',
        'a wait on the peer that is bounded by a timer (asyncio.wait_for, `async with asyncio.timeout`) ends, on expiry, in a '
        'Notify raised by a TimeoutError arm placed where the expiry is raised: around the wait_for call, around the WHOLE '
        '`async with` block (its expiry is raised when the block is left - an arm inside the block sees a CancelledError, never '
        'the TimeoutError); the OPEN wait answers 5/1',
        floor=1,
    )
    _r9_timers(model, run, folder)

    # ------------------------------------------------------------------ R10 the code of an error survives the way up
    run.rule(
        'C10.R10',
        'a Notify raised below keeps its code/subcode on the way up: in the reactor, where the body of a `try` can let a Notify '
        'escape (explicit raises of the resolved callees), the first handler that catches it is not a catch-all that raises '
        'another, constant Notify - the 2/x, 3/x and 7/x found by the decoders would all be answered with that one code',
        floor=1,
    )
    _r10_relabel(model, run, exc)

    run.rule('C10.R5', 'every registered message type is handled or refused in ESTABLISHED: UPDATE and ROUTE-REFRESH have handlers, KEEPALIVE feeds the timer, NOTIFICATION is raised by read_message, anything else (OPEN) must be refused with 5/3', floor=3)
    _r5_types(model, run, folder)


def _r4_once(model: Model, run: Run, runf: FuncInfo) -> None:
    arm = None
    for t in runf.node.body:
        if isinstance(t, ast.Try):
            for h in t.handlers:
                if handler_names(h) == ['Notify']:
                    arm = h
    if arm is None:
        run.cannot('except Notify arm not found in _run')
        return
    # build a CFG of the handler body alone
    fn = ast.AsyncFunctionDef(name='_arm', args=runf.node.args, body=arm.body, decorator_list=[], returns=None, type_comment=None, lineno=arm.lineno, col_offset=0)
    cfg = CFG(fn)
    mod = runf.module

    def transfer(node, val):
        sent, reset, bad = val
        for call in _calls_in_stmt(node):
            if model.call_matches(mod, call, 'Protocol.new_notification'):
                if reset:
                    bad = bad or 'NOTIFICATION written after the reset'
                sent = min(sent + 1, 2)
            elif model.call_matches(mod, call, 'Peer._reset', 'Peer._close'):
                reset = True
            elif model.call_matches(mod, call, 'Protocol.write', 'Protocol.send', 'Protocol.new_keepalive', 'Protocol.new_open', 'Protocol.new_update_generator', 'Protocol.new_eors'):
                if sent:
                    bad = bad or 'another message written after the NOTIFICATION'
        return [(sent, reset, bad)]

    def exc_t(node, val):
        # the exception edge of the new_notification statement: the send was attempted
        sent, reset, bad = val
        for call in _calls_in_stmt(node):
            if model.call_matches(mod, call, 'Protocol.new_notification'):
                sent = min(sent + 1, 2)
        return (sent, reset, bad)

    res = propagate(cfg, (0, False, ''), transfer, exc_transfer=exc_t)
    run.paths += res.states
    outs = res.exit_values
    if not outs:
        run.cannot('no path through the except Notify arm')
        return
    ok_once = all(s <= 1 for s, r, b in outs)
    run.check(ok_once, runf.qualname, 'new_notification at most once per path', runf.loc(arm), 'the NOTIFICATION must be written once')
    run.check(all(r for s, r, b in outs), runf.qualname, '_reset on every path of the except Notify arm', runf.loc(arm), 'the session must be reset after the NOTIFICATION')
    bads = sorted({b for s, r, b in outs if b})
    run.check(not bads, runf.qualname, 'nothing written after the NOTIFICATION', runf.loc(arm), '; '.join(bads))
    # the send happens exactly when a transport exists
    sends = model.calls_to(mod, arm, 'Protocol.new_notification')
    if sends:
        from ..flow import flat_guards

        g = flat_guards(fn, sends[0])
        run.check(any(dotted(t) == 'self.proto' and pol for t, pol in g) and len(g) == 1, runf.qualname, 'NOTIFICATION sent iff self.proto', runf.loc(sends[0]), 'new_notification must be guarded only by `if self.proto`')
    else:
        run.violation(runf.qualname, 'no new_notification in except Notify', runf.loc(arm), 'a locally detected error must be notified to the peer')
    # Protocol.close drops the connection
    close = model.func(PROTO + '.close')
    drop = any(isinstance(n, ast.Assign) and dotted(n.targets[0]) == 'self.connection' and isinstance(n.value, ast.Constant) and n.value.value is None for n in walk_no_nested(close.node))
    run.check(drop, close.qualname, 'sets self.connection = None', close.loc(), 'after close nothing can be written')
    nn = model.func(PROTO + '.new_notification')
    writes = model.calls_to(nn.module, nn.node, 'Protocol.write')
    run.check(len(writes) == 1, nn.qualname, 'writes the message once (%d)' % len(writes), nn.loc(), 'new_notification must write exactly one message')


def _r5_types(model: Model, run: Run, folder: Folder) -> None:
    mainf = model.func(PEER + '._main')
    rm = model.func(PROTO + '.read_message')
    run.analysed(mainf)
    msgs = rh.messages(model, folder)
    if len(msgs) < 6:
        run.cannot('only %d registered message classes' % len(msgs))
    # handlers in _main: X.can_handle(message) -> class tested inside can_handle
    handled: dict[str, str] = {}
    for c in walk_no_nested(mainf.node):
        if isinstance(c, ast.Call) and isinstance(c.func, ast.Attribute) and c.func.attr == 'can_handle':
            for callee in model.callees(mainf.module, c):
                f = model.funcs.get(callee)
                if f is None:
                    continue
                for n in walk_no_nested(f.node):
                    if isinstance(n, ast.Call) and isinstance(n.func, ast.Name) and n.func.id == 'isinstance' and len(n.args) == 2:
                        handled[dotted(n.args[1]) or '?'] = short(callee)
                    if isinstance(n, ast.Compare) and 'TYPE' in norm(n):
                        for side in [n.left] + n.comparators:
                            d = dotted(side) or ''
                            if d.endswith('.TYPE') and not d.startswith('message'):
                                handled[d.split('.')[0]] = short(callee)
    # explicit refusals in _main / read_message: raise Notify(5, 3) under a type test
    refused: dict[str, tuple] = {}
    for f in (mainf, rm):
        for n in walk_no_nested(f.node):
            if isinstance(n, ast.If):
                for st in n.body:
                    if isinstance(st, ast.Raise) and isinstance(st.exc, ast.Call) and model.call_matches(f.module, st.exc, 'Notify') and len(st.exc.args) >= 2:
                        pair = (folder.fold(st.exc.args[0], f.module, f.cls), folder.fold(st.exc.args[1], f.module, f.cls))
                        for x in ast.walk(n.test):
                            d = dotted(x) if isinstance(x, (ast.Attribute, ast.Name)) else None
                            if d and (d.endswith('.TYPE') or d.endswith('.ID') or 'CODE.' in d):
                                refused[d] = pair
                    if isinstance(st, ast.Raise) and isinstance(st.exc, ast.Call) and isinstance(st.exc.func, ast.Name) and st.exc.func.id == 'cast':
                        refused['Notification.TYPE'] = ('raised', 'as received')
    for rec in msgs:
        ci = rec['cls']
        name = ci.name
        mid = rec['ID']
        how = None
        if name in handled:
            how = 'handler ' + handled[name]
        elif name == 'KeepAlive':
            uses = model.calls_to(mainf.module, mainf.node, 'ReceiveTimer.check_ka')
            how = 'hold timer (check_ka)' if uses else None
        elif name == 'Notification':
            how = 'raised by read_message' if 'Notification.TYPE' in refused else None
        elif name == 'Operational':
            how = 'draft message: no handler by design (exempt, no RFC covers it)'
        else:
            for d, pair in refused.items():
                if d.split('.')[0] == name or d.endswith('CODE.' + name.upper()):
                    how = 'refused with Notify%s' % (pair,)
                    if pair != (5, 3):
                        how = None
        if how:
            run.ok('message %s (type %s)' % (name, mid), how)
        else:
            run.violation(
                PEER + '._main',
                'message type %s (%s) is neither handled nor refused in ESTABLISHED' % (name, mid),
                mainf.loc(),
                'a %s received while ESTABLISHED matches no handler of the main loop and is silently ignored; RFC 4271 8.2.2 / '
                'RFC 6608 want the session closed with NOTIFICATION 5/3' % name.upper(),
            )


def _r10_relabel(model: Model, run: Run, exc: ExcFlow) -> None:
    from ..cfg import handler_names

    n = 0
    for fi in sorted(model.funcs_in('exabgp/reactor/'), key=lambda f: f.qualname):
        per_try: dict[int, tuple[ast.Try, set[str]]] = {}
        for kind, payload, node, ctx in exc.sites(fi):
            body_of = [t for t, where in ctx if where == 'body']
            if not body_of:
                continue
            if kind == 'raise':
                labels = set(payload)
            else:
                labels = set()
                for c in payload:
                    labels |= exc.escapes(c)
            labels = {l for l in labels if l.startswith('Notify(')}
            if labels:
                # the innermost try the site stands in is the one that sees the exception first
                per_try.setdefault(id(body_of[0]), (body_of[0], set()))[1].update(labels)
        for t, labels in per_try.values():
            first = next((h for h in t.handlers if exc.caught_by('Notify', handler_names(h))), None)
            if first is None:
                continue
            n += 1
            run.analysed(fi)
            names = handler_names(first)
            inst = '%s: try at line %d lets %d Notify label(s) through to `except %s`' % (short(fi.qualname), t.lineno, len(labels), ', '.join(names))
            other = [r for r in walk_no_nested(first) if isinstance(r, ast.Raise) and isinstance(r.exc, ast.Call) and model.call_matches(fi.module, r.exc, 'Notify')]
            if 'Notify' in names or not other:
                run.ok(inst, 'the handler names Notify, or raises no other Notify')
                continue
            run.violation(
                fi.qualname,
                'a Notify raised in the try body is caught by `except %s` and replaced by %s' % (', '.join(names), norm(other[0].exc)[:60]),
                fi.loc(first),
                'the body can raise %s; the catch-all handler comes first and raises its own Notify, so every protocol error found '
                'below is answered with that code instead of its own' % ', '.join(sorted(labels)[:6]),
            )
    if n == 0:
        run.cannot('no try whose body can raise a Notify and whose handlers catch it found in the reactor')


def _r9_timers(model: Model, run: Run, folder: Folder) -> None:
    from ..cfg import handler_names
    from .C06 import _reaches_reader

    cg = CallGraph(model)
    n = 0
    for fi in list(model.funcs_in('exabgp/reactor/')):
        pm = None
        sites: list[tuple[ast.AST, ast.AST, str]] = []  # (construct the expiry is raised by, what is awaited, text)
        for x in walk_no_nested(fi.node):
            if isinstance(x, ast.Call) and (dotted(x.func) or '').endswith('wait_for') and x.args:
                sites.append((x, x.args[0], norm(x)[:70]))
            if isinstance(x, ast.AsyncWith) and any(isinstance(it.context_expr, ast.Call) and (dotted(it.context_expr.func) or '').rsplit('.', 1)[-1] in ('timeout', 'timeout_at') for it in x.items):
                sites.append((x, x, 'async with %s' % norm(x.items[0].context_expr)[:60]))
        for construct, awaited, text in sites:
            targets = []
            for c in ast.walk(awaited):
                if isinstance(c, ast.Call):
                    targets.extend(t for t in model.callees(fi.module, c) if t in model.funcs)
            if not targets or not _reaches_reader(model, cg, targets):
                continue
            n += 1
            run.analysed(fi)
            pm = pm or parent_map(fi.node)
            arm = None
            cur: ast.AST | None = construct
            while cur is not None and arm is None:
                p = pm.get(id(cur))
                if isinstance(p, ast.Try) and any(b is cur for b in p.body):
                    for h in p.handlers:
                        if any('Timeout' in nm for nm in handler_names(h)):
                            arm = h
                cur = p
            inst = '%s: %s' % (short(fi.qualname), text)
            if arm is None:
                inner = [h for t in ast.walk(construct) if isinstance(t, ast.Try) for h in t.handlers if any('Timeout' in nm for nm in handler_names(h))] if isinstance(construct, ast.AsyncWith) else []
                run.violation(fi.qualname, '%s: no TimeoutError arm where the expiry is raised%s' % (text, ' (the arm inside the block is never taken)' if inner else ''), fi.loc(construct), 'the expiry of the timer reaches Peer._run as a bare TimeoutError: the session is dropped through the unhandled-exception arm without the NOTIFICATION that names the timer')
                continue
            pairs = [_pair(folder, fi, r.exc) for r in walk_no_nested(arm) if isinstance(r, ast.Raise) and isinstance(r.exc, ast.Call) and model.call_matches(fi.module, r.exc, 'Notify')]
            want = (5, 1) if fi.qualname.endswith('._read_open') else None
            ok = bool(pairs) and (want is None or pairs == [want])
            run.check(ok, fi.qualname, '%s: expiry raises Notify%s' % (text, pairs), fi.loc(arm), 'the timer must end the session with a NOTIFICATION (OPEN wait: 5/1, RFC 6608)')
    if n == 0:
        run.cannot('no timed wait on a message read found in exabgp/reactor/')


def _pair(folder: Folder, fi, call: ast.Call):  # noqa: ANN001
    if len(call.args) < 2:
        return None
    c, s_ = folder.fold(call.args[0], fi.module, fi.cls), folder.fold(call.args[1], fi.module, fi.cls)
    return (c, s_) if isinstance(c, int) and isinstance(s_, int) else None
