"""Thin re-export so rule modules can import registries as `rh`."""
from ..registry import attributes, capabilities, class_flag, decorated, messages, nlris  # noqa: F401
