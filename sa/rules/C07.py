"""C07 — negotiated parameters are the RFC function of the two OPENs.  DESIGN.md 3/C07."""

from __future__ import annotations

import ast
import re

from ..alpha import Loc, afind, amatch
from ..const import UNKNOWN, Folder
from ..flow import Slicer, flat_guards, guards, parent_map
from ..model import FuncInfo, Model, dotted, norm, walk_no_nested
from ..report import Run
from .common import short

NEG = 'exabgp.bgp.message.open.capability.negotiated.Negotiated'
RP = 'exabgp.bgp.message.open.capability.negotiated.RequirePath'
CAPS = 'exabgp.bgp.message.open.capability.capabilities.Capabilities'
OPEN = 'exabgp.bgp.message.open.Open'


def _sides(model: Model, fi: FuncInfo) -> dict[str, str]:
    """local name -> 'sent' | 'recv' for names bound to <x>_open.capabilities / <x>_open."""
    out: dict[str, str] = {}
    for n in walk_no_nested(fi.node):
        if isinstance(n, ast.Assign) and isinstance(n.targets[0], ast.Name):
            d = dotted(n.value) or ''
            if d.endswith('sent_open.capabilities'):
                out[n.targets[0].id] = 'sent'
            elif d.endswith('received_open.capabilities'):
                out[n.targets[0].id] = 'recv'
    return out


def _side_of(expr: ast.AST, sides: dict[str, str]) -> str | None:
    d = dotted(expr) or ''
    if d in sides:
        return sides[d]
    if 'sent_open' in d:
        return 'sent'
    if 'received_open' in d:
        return 'recv'
    return None


def cap_terms(expr: ast.AST, sides: dict[str, str]) -> tuple[set[tuple[str, str]], bool]:
    """{(side, CAPABILITY CODE name)} of the `X.announced(Capability.CODE.K)` calls in expr, and whether an `or`
    / `not` joins them."""
    terms: set[tuple[str, str]] = set()
    weak = False
    for n in ast.walk(expr):
        if isinstance(n, ast.BoolOp) and isinstance(n.op, ast.Or):
            weak = True
        if isinstance(n, ast.UnaryOp) and isinstance(n.op, ast.Not):
            weak = True
        if isinstance(n, ast.Call) and isinstance(n.func, ast.Attribute) and n.func.attr == 'announced' and n.args:
            side = _side_of(n.func.value, sides)
            code = (dotted(n.args[0]) or '?').rsplit('.', 1)[-1]
            terms.add((side or '?', code))
    return terms, weak


BOTH = lambda code: {('sent', code), ('recv', code)}  # noqa: E731


def check(model: Model, run: Run) -> None:
    folder = Folder(model)
    neg = model.func(NEG + '._negotiate')
    run.analysed(neg)
    sides = _sides(model, neg)
    if set(sides.values()) != {'sent', 'recv'}:
        run.cannot('sent/received capability aliases not found in _negotiate: %s' % sides)
        return

    # ------------------------------------------------------------------ R1 both-sides formulas
    run.rule(
        'C07.R1',
        'each negotiated option is set exactly when BOTH OPENs announce its capability code (conjunction of a sent and a '
        'received term of the same code, no `or`, no missing side); families / nexthop are members of both lists; hold '
        'time is the minimum of the two; defaults folded',
        floor=9,
    )
    want_assign = {
        'asn4': 'FOUR_BYTES_ASN',
        'operational': 'OPERATIONAL',
        'linklocal_nexthop': 'LINK_LOCAL_NEXTHOP',
    }
    assigns: dict[str, list[ast.Assign]] = {}
    for n in walk_no_nested(neg.node):
        if isinstance(n, (ast.Assign, ast.AugAssign)):
            tg = n.targets[0] if isinstance(n, ast.Assign) else n.target
            d = dotted(tg) or ''
            if d.startswith('self.'):
                assigns.setdefault(d[5:], []).append(n)
    for field, code in want_assign.items():
        sts = assigns.get(field, [])
        if len(sts) != 1:
            run.violation(neg.qualname, 'self.%s assigned %d times' % (field, len(sts)), neg.loc(), 'exactly one assignment expected')
            continue
        terms, weak = cap_terms(sts[0].value, sides)
        g = flat_guards(neg.node, sts[0])
        run.check(
            terms == BOTH(code) and not weak and not g,
            neg.qualname,
            'self.%s <= %s%s' % (field, sorted(terms), ' (or/not)' if weak else ''),
            neg.loc(sts[0]),
            '%s must be sent AND received %s, unconditionally assigned' % (field, code),
        )
    # guarded assignments
    def guard_terms(st: ast.AST):
        terms: set = set()
        weak = False
        for t, pol in flat_guards(neg.node, st):
            tt, w = cap_terms(t, sides)
            if tt and not pol:
                # an `elif`: the earlier test being false is not a requirement of this branch
                continue
            terms |= tt
            weak = weak or w
        return terms, weak

    guarded = {
        'msg_size': ('EXTENDED_MESSAGE', lambda v: folder.fold(v, neg.module, neg.cls) == 65535),
    }
    for field, (code, okval) in guarded.items():
        sts = assigns.get(field, [])
        ok = len(sts) == 1
        if ok:
            terms, weak = guard_terms(sts[0])
            ok = terms == BOTH(code) and not weak and okval(sts[0].value)
        run.check(ok, neg.qualname, 'self.%s raised under %s' % (field, sorted(guard_terms(sts[0])[0]) if sts else None), neg.loc(sts[0]) if sts else neg.loc(), '%s may change only when both sides announce %s' % (field, code))
    rsts = assigns.get('refresh', [])
    got = {}
    for st in rsts:
        terms, weak = guard_terms(st)
        got[(dotted(st.value) or '').rsplit('.', 1)[-1]] = (terms, weak)
    run.check(
        got.get('ENHANCED') == (BOTH('ENHANCED_ROUTE_REFRESH'), False) and got.get('NORMAL') == (BOTH('ROUTE_REFRESH'), False) and len(rsts) == 2,
        neg.qualname,
        'refresh flavours: %s' % {k: sorted(v[0]) for k, v in got.items()},
        neg.loc(rsts[0]) if rsts else neg.loc(),
        'ENHANCED needs both ENHANCED_ROUTE_REFRESH, NORMAL both ROUTE_REFRESH',
    )
    # ENHANCED is tested before NORMAL
    if len(rsts) == 2:
        order = [(dotted(s.value) or '').rsplit('.', 1)[-1] for s in sorted(rsts, key=lambda s: s.lineno)]
        run.check(order == ['ENHANCED', 'NORMAL'], neg.qualname, 'refresh order %s' % order, neg.loc(rsts[0]), 'enhanced refresh takes precedence')
    # families / nexthop: appended inside `for x in recv_*: if x in sent_*` under both-side guards
    for field, code in (('families', 'MULTIPROTOCOL'), ('nexthop', 'NEXTHOP')):
        apps = [c for c in walk_no_nested(neg.node) if isinstance(c, ast.Call) and isinstance(c.func, ast.Attribute) and c.func.attr == 'append' and dotted(c.func.value) == 'self.' + field]
        ok = len(apps) == 1
        detail = ''
        if ok:
            terms, weak = guard_terms(apps[0])
            pm = parent_map(neg.node)
            loop = None
            cur: ast.AST | None = apps[0]
            while cur is not None:
                cur = pm.get(id(cur))
                if isinstance(cur, ast.For):
                    loop = cur
                    break
            member = False
            for t, pol in flat_guards(neg.node, apps[0]):
                if isinstance(t, ast.Compare) and isinstance(t.ops[0], ast.In) and pol and loop is not None and dotted(t.left) == dotted(loop.target):
                    # iterating one side, testing membership in the other
                    it_side = _var_side(neg, dotted(loop.iter) or '', sides)
                    in_side = _var_side(neg, dotted(t.comparators[0]) or '', sides)
                    member = {it_side, in_side} == {'sent', 'recv'}
            arg_ok = loop is not None and apps[0].args and dotted(apps[0].args[0]) == dotted(loop.target)
            ok = terms == BOTH(code) and not weak and member and bool(arg_ok)
            detail = 'guards %s member-of-both %s' % (sorted(terms), member)
        comps = [s for s in assigns.get(field, []) if isinstance(s, ast.Assign) and isinstance(s.value, ast.ListComp)]
        if not apps and len(comps) == 1:
            # the same intersection spelt as a comprehension: [x for x in <one side> if x in <other side>]
            lc = comps[0].value
            apps = [comps[0]]  # type: ignore[list-item]
            terms, weak = guard_terms(comps[0])
            member = False
            if len(lc.generators) == 1 and len(lc.generators[0].ifs) == 1 and dotted(lc.elt) == dotted(lc.generators[0].target):
                t = lc.generators[0].ifs[0]
                if isinstance(t, ast.Compare) and len(t.ops) == 1 and isinstance(t.ops[0], ast.In) and dotted(t.left) == dotted(lc.elt):
                    it_side = _var_side(neg, dotted(lc.generators[0].iter) or '', sides, comps[0])
                    in_side = _var_side(neg, dotted(t.comparators[0]) or '', sides, comps[0])
                    member = {it_side, in_side} == {'sent', 'recv'}
            ok = terms == BOTH(code) and not weak and member
            detail = 'comprehension, guards %s member-of-both %s' % (sorted(terms), member)
        resets = [s for s in assigns.get(field, []) if isinstance(s, ast.Assign) and isinstance(s.value, ast.List) and not s.value.elts]
        if comps and apps == [comps[0]]:
            # assigned whole: every other store is the empty list (one before it, or one per refusing branch)
            reset_ok = len(resets) >= 1 and len(resets) + 1 == len(assigns.get(field, []))
        else:
            reset_ok = len(resets) == 1
        run.check(ok and reset_ok, neg.qualname, 'self.%s = intersection (%s)' % (field, detail), neg.loc(apps[0]) if apps else neg.loc(), '%s must be reset then filled with the entries present in both %s capabilities' % (field, code))
    # hold time
    hs = assigns.get('holdtime', [])
    okh = False
    if len(hs) == 1 and isinstance(hs[0].value, ast.Call) and hs[0].value.args:
        inner = hs[0].value.args[0]
        if isinstance(inner, ast.Call) and isinstance(inner.func, ast.Name) and inner.func.id == 'min' and len(inner.args) == 2:
            nl_ = Loc(model, neg)
            ds = sorted(nl_.expand(a) for a in inner.args)
            okh = ds == ['self.received_open.hold_time', 'self.sent_open.hold_time']
    run.check(okh, neg.qualname, 'holdtime = %s' % (norm(hs[0].value) if hs else None), neg.loc(hs[0]) if hs else neg.loc(), 'RFC 4271 4.2: the smaller of the two hold times')
    # defaults in __init__
    init = model.func(NEG + '.__init__')
    defaults = {}
    for n in walk_no_nested(init.node):
        if isinstance(n, (ast.Assign, ast.AnnAssign)):
            tg = n.targets[0] if isinstance(n, ast.Assign) else n.target
            d = dotted(tg) or ''
            if d.startswith('self.') and n.value is not None:
                defaults[d[5:]] = folder.fold(n.value, init.module, init.cls)
    refresh_absent = folder.resolve_dotted('REFRESH.ABSENT', init.module, init.cls, {})
    run.check(
        defaults.get('msg_size') == 4096 and defaults.get('asn4') is False and defaults.get('operational') is False and defaults.get('refresh') == refresh_absent and defaults.get('families') == [],
        init.qualname,
        'defaults msg_size=%s asn4=%s refresh=%s families=%s' % (defaults.get('msg_size'), defaults.get('asn4'), defaults.get('refresh'), defaults.get('families')),
        init.loc(),
        'before negotiation: 4096 bytes, no ASN4, no refresh, no family',
    )
    # sent()/received() negotiate only once both OPENs are known
    for nm, other in (('sent', 'received_open'), ('received', 'sent_open')):
        f = model.func(NEG + '.' + nm)
        calls = model.calls_to(f.module, f.node, 'Negotiated._negotiate')
        ok = len(calls) == 1 and any(dotted(t) == 'self.' + other and pol for t, pol in flat_guards(f.node, calls[0]))
        stores = [n for n in walk_no_nested(f.node) if isinstance(n, ast.Assign) and dotted(n.targets[0]) == 'self.%s_open' % nm and isinstance(n.value, ast.Name) and n.value.id == f.node.args.args[1].arg]
        run.check(ok and len(stores) == 1 and stores[0].lineno < calls[0].lineno, f.qualname, 'stores its OPEN then negotiates iff the other is known', f.loc(), 'negotiation needs both OPENs')

    # ------------------------------------------------------------------ R2 ADD-PATH directions
    run.rule('C07.R2', 'ADD-PATH: we send iff (our capability has SEND) and (theirs has RECEIVE); we receive iff (ours has RECEIVE) and (theirs has SEND); SEND = 2, RECEIVE = 1; Negotiated.required maps IN -> receive, OUT -> send; setup() is called with (received_open, sent_open) in parameter order', floor=5)
    _r2_addpath(model, run, folder, neg)

    # ------------------------------------------------------------------ R3 AS symmetry
    run.rule(
        'C07.R3',
        'both AS numbers are the true 4-byte values: Open.asn is the 2-octet field (AS_TRANS for a large AS), so each '
        'Negotiated AS field taken from <open>.asn needs the AS_TRANS fix-up from that same OPEN\'s FOUR_BYTES_ASN capability',
        floor=2,
    )
    _r3_as(model, run, neg, sides)

    # ------------------------------------------------------------------ R4 refusals
    run.rule('C07.R4', 'OPEN refusals carry the RFC 4271 6.2 subcode of the fault their guard tests: peer AS 2/2, router-id 2/3 (0.0.0.0 and iBGP collision), hold time 1..2 -> 2/6 with MIN = 3, version 2/1, short OPEN 1/2; validate_open raises what validate returns', floor=6)
    _r4_refusals(model, run, folder)

    # ------------------------------------------------------------------ R5 codec agreement
    run.rule('C07.R5', 'pack_capabilities and Capabilities.unpack describe the same two layouts: standard [len][2,len,(code,len,value)...] below 255 bytes, RFC 9072 [255,255,len16][2,len16,...] from 255; header widths agree', floor=6)
    _r5_codec(model, run, folder)

    # ------------------------------------------------------------------ R6 advertise what is configured
    run.rule('C07.R6', 'Capabilities.new inserts each capability code only under its own neighbor.capability.<flag> guard (MULTIPROTOCOL and HOSTNAME unconditional)', floor=10)
    _r6_new(model, run)

    run.rule(
        'C07.R7',
        'the code octet pack_capabilities writes for a capability is the key it is stored under - the key announced() and the '
        'negotiation look up - in the standard and in the RFC 9072 encoding: a code taken from the object can differ from it '
        '(RouteRefresh and MultiSession are registered under two codes and Capability.klass rewrites their ID, finding F18)',
        floor=1,
    )
    _r7_written_code(model, run)


def _var_side(fi: FuncInfo, name: str, sides: dict[str, str], at: ast.AST | None = None) -> str | None:
    """side of a local bound to recv_capa[...] / sent_capa[...]; with `at`, of its last binding before that statement
    (an inlined helper used twice binds the same local twice)"""
    if name in sides:
        return sides[name]
    defs = [n for n in walk_no_nested(fi.node) if isinstance(n, ast.Assign) and isinstance(n.targets[0], ast.Name) and n.targets[0].id == name]
    defs.sort(key=lambda n: (n.lineno, n.col_offset))
    if at is not None:
        before = [n for n in defs if (n.lineno, n.col_offset) < (at.lineno, at.col_offset)]  # type: ignore[attr-defined]
        defs = before[-1:] or defs
    for n in defs:
        for x in ast.walk(n.value):
            d = dotted(x) if isinstance(x, (ast.Name, ast.Attribute)) else None
            if d in sides:
                return sides[d]
    return None


def msg_size_rule(model: Model, run: Run, folder: Folder) -> None:
    """shared by C07.R1 and C01.R13: the message size is raised to 65535 only when BOTH OPENs announce Extended Message"""
    neg = model.func(NEG + '._negotiate')
    run.analysed(neg)
    sides = _sides(model, neg)
    sts = [n for n in walk_no_nested(neg.node) if isinstance(n, ast.Assign) and dotted(n.targets[0]) == 'self.msg_size']
    ok = len(sts) == 1
    terms: set = set()
    if ok:
        weak = False
        for t, pol in guards(neg.node, sts[0]):
            tt, w = cap_terms(t, sides)
            if tt and not pol:
                continue
            terms |= tt
            weak = weak or w
        ok = terms == BOTH('EXTENDED_MESSAGE') and not weak and folder.fold(sts[0].value, neg.module, neg.cls) == 65535
    run.check(ok, neg.qualname, 'self.msg_size raised under %s' % (sorted(terms) if sts else None), neg.loc(sts[0]) if sts else neg.loc(), 'msg_size may change only when both sides announce EXTENDED_MESSAGE: raised on our own announcement alone, UPDATEs of up to 65535 octets are packed for a peer that reads at most 4096 (RFC 8654)')


def required_maps_directions(model: Model, req: FuncInfo) -> bool:
    """Negotiated.required answers addpath.receive exactly when the direction is IN and addpath.send otherwise: every
    value it can return is listed with the facts it is returned under (whichever way the choice is written)."""
    from ..alpha import Loc, value_cases

    rloc = Loc(model, req)
    cases: list[tuple[set[str], str]] = []
    for n in walk_no_nested(req.node):
        if isinstance(n, ast.Return) and n.value is not None:
            cases += [(fs, norm(v)) for fs, v in value_cases(rloc, n, n.value)]
    IN_ = {'self.direction == Direction.IN', 'self.direction is Direction.IN', 'Direction.IN == self.direction', 'self.direction != Direction.OUT', 'self.direction is not Direction.OUT'}
    OUT_ = {'self.direction != Direction.IN', 'self.direction is not Direction.IN', 'Direction.IN != self.direction', 'self.direction == Direction.OUT', 'self.direction is Direction.OUT'}
    okr = len(cases) >= 2
    for fs, txt in cases:
        if 'addpath.receive' in txt and 'addpath.send' not in txt:
            okr = okr and bool(fs & IN_) and not (fs & OUT_)
        elif 'addpath.send' in txt and 'addpath.receive' not in txt:
            okr = okr and bool(fs & OUT_) and not (fs & IN_)
        else:
            okr = False
    return okr


def _r2_addpath(model: Model, run: Run, folder: Folder, neg: FuncInfo) -> None:
    setup = model.func(RP + '.setup')
    run.analysed(setup)
    send_c = folder.class_attr(RP, 'SEND')
    recv_c = folder.class_attr(RP, 'RECEIVE')
    run.check(send_c == 2 and recv_c == 1, RP, 'SEND=%s RECEIVE=%s' % (send_c, recv_c), model.cls(RP).loc(), 'RFC 7911 4: 1 = receive, 2 = send')
    params = [a.arg for a in setup.node.args.args]
    from ..alpha import Loc

    loc = Loc(model, setup)
    side_of_param = {params[1]: 'recv', params[2]: 'sent'} if len(params) >= 3 else {}

    def and_terms(e: ast.AST) -> tuple[set, bool]:
        """{(side, mask)} of the `<capability of one OPEN> & SEND|RECEIVE` tests in e once its locals are written out,
        and whether e is their plain conjunction (bool() wrappers aside, no `or` / `not`)"""
        x = loc.expanded(e, depth=8)
        got = set()
        for b_ in ast.walk(x):
            if isinstance(b_, ast.BinOp) and isinstance(b_.op, ast.BitAnd):
                for m_, o_ in ((b_.right, b_.left), (b_.left, b_.right)):
                    mask = (dotted(m_) or '').rsplit('.', 1)[-1]
                    if mask not in ('SEND', 'RECEIVE'):
                        continue
                    who = {side_of_param[n_.id] for n_ in ast.walk(o_) if isinstance(n_, ast.Name) and n_.id in side_of_param}
                    got.add((who.pop() if len(who) == 1 else '?', mask))
        top = x
        while isinstance(top, ast.Call) and isinstance(top.func, ast.Name) and top.func.id == 'bool' and len(top.args) == 1:
            top = top.args[0]
        conj = isinstance(top, ast.BoolOp) and isinstance(top.op, ast.And)
        conj = conj and not any((isinstance(n_, ast.BoolOp) and isinstance(n_.op, ast.Or)) or (isinstance(n_, ast.UnaryOp) and isinstance(n_.op, ast.Not)) for n_ in ast.walk(x))
        return got, conj

    want = {'_send': {('sent', 'SEND'), ('recv', 'RECEIVE')}, '_receive': {('sent', 'RECEIVE'), ('recv', 'SEND')}}
    for field, w in want.items():
        st = None
        for n in walk_no_nested(setup.node):
            if isinstance(n, ast.Assign) and isinstance(n.targets[0], ast.Subscript) and dotted(n.targets[0].value) == 'self.' + field:
                st = n
        if st is None:
            run.cannot('assignment to self.%s[k] not found' % field)
            continue
        got, conj = and_terms(st.value)
        run.check(got == w and conj, setup.qualname, 'self.%s[k] <= %s' % (field, sorted(got)), setup.loc(st), 'RFC 7911: %s needs %s' % (field, sorted(w)))
    # call site argument order
    calls = model.calls_to(neg.module, neg.node, 'RequirePath.setup')
    ok = False
    if calls and len(calls[0].args) == 2 and len(params) >= 3:
        a0, a1 = dotted(calls[0].args[0]) or '', dotted(calls[0].args[1]) or ''
        ok = a0.endswith(params[1]) and a1.endswith(params[2])
    run.check(ok, neg.qualname, 'addpath.setup(%s) matches parameters %s' % (', '.join(norm(a) for a in calls[0].args) if calls else '', params[1:]), neg.loc(calls[0]) if calls else neg.loc(), 'the received and the sent OPEN must not be swapped')
    req = model.func(NEG + '.required')
    run.analysed(req)
    okr = required_maps_directions(model, req)
    run.check(okr, req.qualname, 'IN -> receive, otherwise send', req.loc(), 'decoding (direction IN) uses the receive side of ADD-PATH, encoding the send side')
    # send()/receive() read their own table
    for nm in ('send', 'receive'):
        f = model.func(RP + '.' + nm)
        ok = any(isinstance(r, ast.Return) and ('self._%s.get' % nm) in norm(r) for r in walk_no_nested(f.node))
        run.check(ok, f.qualname, 'reads self._%s' % nm, f.loc(), '%s() must read the %s table' % (nm, nm))


def _r3_as(model: Model, run: Run, neg: FuncInfo, sides: dict[str, str]) -> None:
    for field, side, openname in (('local_as', 'sent', 'sent_open'), ('peer_as', 'recv', 'received_open')):
        base = None
        fixes = []
        for n in walk_no_nested(neg.node):
            if isinstance(n, ast.Assign) and dotted(n.targets[0]) == 'self.' + field:
                d = dotted(n.value) or ''
                if d == 'self.%s.asn' % openname:
                    base = n
                else:
                    fixes.append(n)
        if base is None:
            # the field comes from somewhere else: must not be a 2-octet source
            srcs = [norm(n.value) for n in fixes]
            run.check(bool(fixes) and not any('.asn' in s and 'open' in s for s in srcs), neg.qualname, 'self.%s <= %s' % (field, srcs), neg.loc(), 'unknown AS source')
            continue
        good = False
        for fx in fixes:
            g = flat_guards(neg.node, fx)
            trans_guard = any('AS_TRANS' in norm(t) and openname in norm(t) and pol for t, pol in g)
            sl = Slicer(model, neg)
            atoms = sl.atoms(fx.value)
            from_cap = False
            if isinstance(fx.value, ast.Name):
                for v, _ in sl.defs.get(fx.value.id, []):
                    txt = norm(v)
                    if 'FOUR_BYTES_ASN' in txt and (openname in txt or any(k in txt for k, s in sides.items() if s == side)):
                        from_cap = True
            else:
                txt = norm(fx.value)
                from_cap = 'FOUR_BYTES_ASN' in txt and (openname in txt or any(k in txt for k, s in sides.items() if s == side))
            if trans_guard and from_cap:
                good = True
                if side == 'sent':
                    # what WE are does not depend on what the peer announced
                    foreign = [norm(t) for t, pol in g if 'self.asn4' in norm(t) or 'received_open' in norm(t) or any(k in norm(t) for k, s_ in sides.items() if s_ == 'recv')]
                    run.check(not foreign, neg.qualname, 'the local AS is taken from our own OPEN whatever the peer supports', neg.loc(fx), 'the fix-up of self.local_as is conditioned on the peer (%s): towards a peer without 4-byte AS support our AS stays 23456, so the default AS_PATH prepends AS_TRANS and an iBGP session between 4-byte ASes is treated as eBGP' % '; '.join(foreign))
        run.check(
            good,
            neg.qualname,
            'self.%s = self.%s.asn %s' % (field, openname, 'with AS_TRANS fix-up' if good else 'without AS_TRANS fix-up'),
            neg.loc(base),
            'Open.asn is the 2-octet My-AS field: for an AS above 65535 it holds AS_TRANS (23456). self.%s keeps 23456 '
            'unless it is replaced by the value of the %s OPEN\'s FOUR_BYTES_ASN capability when the field equals AS_TRANS; '
            'the default AS_PATH on eBGP and the iBGP/eBGP decision then use the wrong AS' % (field, side),
        )
    # Open.asn really is the 2-octet field, and make_open writes trans()
    asn = model.func(OPEN + '.asn')
    folder = Folder(model)
    ok = False
    for r in walk_no_nested(asn.node):
        if not isinstance(r, ast.Return) or r.value is None:
            continue
        text = Loc(model, asn).expand(r.value)
        for sub in ast.walk(ast.parse(text, mode='eval')):
            if isinstance(sub, ast.Subscript) and dotted(sub.value) == 'self._packed':
                # octets 1..2, written [1:3] or through a named slice(1, 3)
                if isinstance(sub.slice, ast.Slice):
                    lo = folder.fold(sub.slice.lower, asn.module, asn.cls) if sub.slice.lower is not None else 0
                    hi = folder.fold(sub.slice.upper, asn.module, asn.cls) if sub.slice.upper is not None else None
                    where = (lo, hi) if sub.slice.step is None else None
                else:
                    sl = folder.fold(sub.slice, asn.module, asn.cls)
                    where = (sl.start or 0, sl.stop) if isinstance(sl, slice) and sl.step is None else None
                ok = ok or (where == (1, 3) and "'!H'" in text)
    run.check(ok, asn.qualname, 'reads the 2-octet field', asn.loc(), 'Open.asn decodes bytes 1..2')


def _ret_tuple(folder: Folder, fi: FuncInfo, r: ast.Return):
    if isinstance(r.value, ast.Tuple) and len(r.value.elts) >= 2:
        c = folder.fold(r.value.elts[0], fi.module, fi.cls)
        s = folder.fold(r.value.elts[1], fi.module, fi.cls)
        if isinstance(c, int) and isinstance(s, int):
            return (c, s)
    return None


def _r4_refusals(model: Model, run: Run, folder: Folder) -> None:
    val = model.func(NEG + '.validate')
    run.analysed(val)
    # each refusal is looked up by the facts it is returned under (locals written out, conjunctions split, == / != operands
    # in one order), so it does not matter how the tests are nested or what the intermediate values are called
    from ..alpha import facts

    vloc = Loc(model, val)

    def sym(f: str) -> str:
        for op in (' == ', ' != '):
            if op in f and not f.startswith('not '):
                l_, r_ = f.split(op, 1)
                return op.join(sorted((l_, r_)))
        return f

    rets: list[tuple[tuple, set[str], ast.Return]] = []
    for r in walk_no_nested(val.node):
        if not isinstance(r, ast.Return):
            continue
        pair = _ret_tuple(folder, val, r)
        if pair is None:
            continue
        rets.append((pair, {sym(f) for f in facts(vloc, r)}, r))
    want = {
        'peer-as': ((2, 2), {'neighbor.session.peer_as', 'self.peer_as != neighbor.session.peer_as'}),
        'router-id-zero': ((2, 3), {"self.received_open.router_id == RouterID('0.0.0.0')"}),
        'router-id-collision': ((2, 3), {'self.received_open.router_id == neighbor.session.router_id'}),
        'hold-time': ((2, 6), {'self.received_open.hold_time < HoldTime.MIN'}),
    }
    found: dict[str, tuple] = {}
    for k, (w, need) in want.items():
        need = {sym(f) for f in need}
        got = [x for x in rets if need <= x[1]]
        found[k] = got[0] if got else None
        run.check(len(got) == 1 and got[0][0] == w, val.qualname, '%s -> %s' % (k, [x[0] for x in got]), val.loc(got[0][2]) if got else val.loc(), 'RFC 4271 6.2: %s (a refusal under %s) must be refused with %s' % (k, sorted(need), w))
    ht = found.get('hold-time')
    if ht is not None:
        ok = 'self.received_open.hold_time' in ht[1]
        mn = folder.class_attr('exabgp.bgp.message.open.holdtime.HoldTime', 'MIN')
        run.check(bool(ok) and mn == 3, val.qualname, 'hold time refused when non-zero and below MIN=%s' % mn, val.loc(ht[2]), 'a hold time of 0 is acceptable, 1 and 2 are not')
    # collision guard needs the iBGP condition
    col = found.get('router-id-collision')
    if col is not None:
        ibgp = {f for f in col[1] if f.endswith(' == neighbor.session.local_as') or f.startswith('neighbor.session.local_as == ')}
        run.check(bool(ibgp), val.qualname, 'router-id collision only inside one AS', val.loc(col[2]), 'RFC 6286: identical router-ids are refused only on iBGP')
        # "inside one AS" is decided with the peer's TRUE AS (self.peer_as, fixed up from the 4-byte capability), not with the
        # 2-octet My-AS field, which holds AS_TRANS for every AS above 65535
        run.check(sym('self.peer_as == neighbor.session.local_as') in col[1] and not any('received_open.asn' in f for f in ibgp), val.qualname, 'the iBGP test of the router-id collision uses the negotiated peer AS', val.loc(col[2]), 'Open.asn is the 2-octet field: between two speakers of a 4-byte AS it is 23456 on both sides and never equals the local AS, so an OPEN carrying our own BGP Identifier is accepted on an internal session')
    # validate_open
    vo = model.func('exabgp.reactor.protocol.Protocol.validate_open')
    run.analysed(vo)
    ok = False
    for n in walk_no_nested(vo.node):
        if isinstance(n, ast.Raise) and isinstance(n.exc, ast.Call) and model.call_matches(vo.module, n.exc, 'Notify') and n.exc.args and isinstance(n.exc.args[0], ast.Starred):
            g = flat_guards(vo.node, n)
            ok = any('is not None' in norm(t) and pol for t, pol in g)
    first = vo.node.body[0]
    run.check(ok and 'negotiated.validate' in norm(first), vo.qualname, 'raises Notify(*error) when validate returns an error', vo.loc(), 'the refusal computed by Negotiated.validate must end the attempt')
    # Open.unpack_message
    um = model.func(OPEN + '.unpack_message')
    run.analysed(um)
    pairs = []
    uml = Loc(model, um)
    for n in walk_no_nested(um.node):
        if isinstance(n, ast.Raise) and isinstance(n.exc, ast.Call) and len(n.exc.args) >= 2:
            c = folder.fold(n.exc.args[0], um.module, um.cls)
            s = folder.fold(n.exc.args[1], um.module, um.cls)
            g = ' && '.join(uml.expand(t) for t, pol in flat_guards(um.node, n) if pol)
            pairs.append(((c, s), g))
    dp = um.node.args.args[1].arg if len(um.node.args.args) > 1 else '?'
    okv = any(p == (2, 1) and ('%s[0] != Version.BGP_4' % dp) in g for p, g in pairs)
    okl = any(p == (1, 2) and ('len(%s) <' % dp) in g for p, g in pairs)
    v4 = folder.resolve_dotted('Version.BGP_4', um.module, um.cls, {})
    run.check(okv and v4 == 4, um.qualname, 'version != 4 -> 2/1', um.loc(), 'unsupported version is 2/1')
    mb = folder.class_attr(OPEN, 'MINIMUM_BODY_SIZE')
    run.check(okl and mb == 10, um.qualname, 'short OPEN -> 1/2 (minimum body %s)' % mb, um.loc(), 'an OPEN body below 10 octets is a Bad Message Length')


def _r5_codec(model: Model, run: Run, folder: Folder) -> None:
    pk = model.func(CAPS + '.pack_capabilities')
    un = model.func(CAPS + '.unpack')
    run.analysed(pk)
    run.analysed(un)
    mod = pk.module
    # encoder: names do not matter, the shapes do
    rets = [r for r in walk_no_nested(pk.node) if isinstance(r, ast.Return) and r.value is not None]
    std = [(r, b) for r in rets for b in [amatch('bytes([len(V_p)]) + V_p', r.value)] if b is not None]
    run.check(len(std) == 1, pk.qualname, 'standard form = [len] + parameters', pk.loc(), 'one length octet precedes the parameters')
    thr = None
    if std:
        for t, pol in flat_guards(pk.node, std[0][0]):
            b = amatch('len(V_p) < E_max', t, {'V_p': std[0][1]['V_p']})
            if b is not None and pol and isinstance(t, ast.Compare):
                thr = ('Lt', folder.fold(t.comparators[0], mod, pk.cls), t)
    run.check(thr is not None and thr[1] == 255, pk.qualname, 'standard form iff len(parameters) < %s' % (thr[1] if thr else None), pk.loc(thr[2]) if thr else pk.loc(), 'the one-octet length holds at most 254 once 255 is the RFC 9072 marker')
    ext = [(r, b) for r in rets for b in [amatch('pack(E_fmt, E_a, E_b, len(V_q)) + V_q', r.value)] if b is not None]
    okx = False
    if len(ext) == 1:
        c = ext[0][0].value.left
        okx = folder.fold(c.args[0], mod, pk.cls) == '!BBH' and folder.fold(c.args[1], mod, pk.cls) == 255 and folder.fold(c.args[2], mod, pk.cls) == 255
    run.check(okx, pk.qualname, 'extended form = pack(!BBH, 255, 255, len) + parameters', pk.loc(ext[0][0]) if ext else pk.loc(), 'RFC 9072 2: 255, 255, two-octet length')
    # parameter headers: standard bytes([2, len]) ; extended pack('!BH', 2, len)  (2 = Parameter.CAPABILITIES)
    h1 = h2 = 0
    for n in walk_no_nested(pk.node):
        if isinstance(n, ast.AugAssign) and isinstance(n.op, ast.Add) and isinstance(n.target, ast.Name):
            for pat, which in (('bytes([E_t, len(V_e)]) + V_e', 1), ("pack('!BH', E_t, len(V_e)) + V_e", 2)):
                b = amatch(pat, n.value)
                if b is not None:
                    tcode = folder.fold(ast.parse(str(b['E_t']), mode='eval').body, mod, pk.cls)
                    if tcode == 2:
                        if which == 1 and std and n.target.id == std[0][1]['V_p']:
                            h1 += 1
                        if which == 2 and ext and n.target.id == ext[0][1]['V_q']:
                            h2 += 1
    run.check(h1 == 1 and h2 == 1, pk.qualname, 'parameter headers: %d x [2, len8] in the standard form, %d x [2, len16] in the extended form' % (h1, h2), pk.loc(), 'type 2 (capabilities) with a 1-octet then a 2-octet length')
    # decoder: marker test twice against 0xFF, 2-byte length at [2:4], +4
    ext_len = folder.class_attr(CAPS, 'EXTENDED_LENGTH')
    ul = Loc(model, un)
    dparam = un.node.args.args[0].arg if un.node.args.args else '?'

    def marker_index(t: ast.AST) -> int | None:
        """`<byte i of the buffer> == Capabilities.EXTENDED_LENGTH` -> i"""
        if not (isinstance(t, ast.Compare) and len(t.ops) == 1 and isinstance(t.ops[0], ast.Eq) and norm(t.comparators[0]) == 'Capabilities.EXTENDED_LENGTH'):
            return None
        cands = [t.left] + (ul.values(t.left.id) if isinstance(t.left, ast.Name) else [])
        for c in cands:
            if isinstance(c, ast.Subscript) and dotted(c.value) == dparam and not isinstance(c.slice, ast.Slice):
                i = folder.fold(c.slice, mod, un.cls)
                if i in (0, 1):
                    return i
        return None

    def deep_guards(node: ast.AST, depth: int = 2) -> list[tuple[ast.AST, bool]]:
        out = []
        for t, pol in flat_guards(un.node, node):
            out.append((t, pol))
            if isinstance(t, ast.Name) and pol and depth:
                for v, _, st in ul.defs.get(t.id, []):
                    if v is not None and folder.fold(v, mod, un.cls) is not False:
                        out.append((v, True))
                        out.extend(deep_guards(st, depth - 1))
        return out

    tests = {marker_index(n.test) for n in walk_no_nested(un.node) if isinstance(n, ast.If)} | {marker_index(v) for vs in ul.defs.values() for v, _, _ in vs if v is not None}
    run.check(ext_len == 255 and {0, 1} <= tests, un.qualname, 'extended marker tested on both octets (EXTENDED_LENGTH=%s)' % ext_len, un.loc(), 'RFC 9072: both octets are 255')
    # the extended branch re-reads the length from [2:4] and keeps [4:len+4]; the standard one keeps [1:len+1]
    lens = [n for n in walk_no_nested(un.node) if isinstance(n, ast.Assign) and amatch("unpack('!H', V_d[2:4])[0]", n.value, {'V_d': dparam}) is not None and isinstance(n.targets[0], ast.Name)]
    lv = lens[0].targets[0].id if lens else '?'
    cut_x = [n for n, _ in afind('V_d = V_d[4:V_l + 4]', un.node, {'V_d': dparam, 'V_l': lv})]
    cut_s = [n for n, _ in afind('V_d = V_d[1:V_l + 1]', un.node, {'V_d': dparam, 'V_l': lv})]
    run.check(len(lens) == 1 and len(cut_x) == 1, un.qualname, 'extended length read from data[2:4], parameters from data[4:len+4]', un.loc(), 'reader offsets must mirror pack(!BBH)')
    run.check(len(cut_s) >= 1, un.qualname, 'standard parameters from data[1:len+1]', un.loc(), 'reader offsets must mirror [len] + parameters')
    # nested helper widths
    ext_h = model.funcs.get(CAPS + '.unpack._extended_type_length')
    kv_h = model.funcs.get(CAPS + '.unpack._key_values')
    if ext_h is None or kv_h is None:
        run.cannot('decoder helper closures not found')
        return

    def tlv_layout(h: FuncInfo) -> tuple[list[str], bool]:
        """(returned (key, value, rest) with the locals inlined and the buffer written $d, bounds test present)"""
        hl = Loc(model, h)
        d = h.node.args.args[1].arg if len(h.node.args.args) > 1 else '?'
        sub = lambda e: re.sub(r'\b%s\b' % re.escape(d), '$d', hl.expand(e, depth=6))  # noqa: E731
        rr = [r for r in walk_no_nested(h.node) if isinstance(r, ast.Return) and isinstance(r.value, ast.Tuple)]
        shape = [sub(e) for e in rr[-1].value.elts] if rr else []
        upper = shape[2][3:-2] if len(shape) == 3 and shape[2].startswith('$d[') and shape[2].endswith(':]') else None
        bounded = False
        for n in walk_no_nested(h.node):
            if isinstance(n, ast.If) and upper is not None and sub(n.test) == 'len($d) < %s' % upper and any(isinstance(x, ast.Raise) for x in n.body):
                bounded = True
        return shape, bounded

    se, be = tlv_layout(ext_h)
    sk, bk = tlv_layout(kv_h)
    run.check(se == ['$d[0]', "$d[3:unpack('!H', $d[1:3])[0] + 3]", "$d[unpack('!H', $d[1:3])[0] + 3:]"] and be, ext_h.qualname, 'extended TLV: type(1) len(2) value, bounds checked %s' % se, ext_h.loc(), "must mirror pack('!BH', ...)")
    run.check(sk == ['$d[0]', '$d[2:$d[1] + 2]', '$d[$d[1] + 2:]'] and bk, kv_h.qualname, 'standard TLV: type(1) len(1) value, bounds checked %s' % sk, kv_h.loc(), 'must mirror bytes([k, len])')
    # capability TLVs keep the RFC 5492 layout code(1) len(1) value in BOTH forms: encoder and decoder
    # (the TLV may be built in the loop of each form, or once in a generator both loops iterate)
    def is_cap_tlv(e: ast.AST | None) -> bool:
        b_ = amatch('bytes([E_k, len(V_c)]) + V_c', e) if e is not None else None
        return b_ is not None and folder.fold(ast.parse(str(b_['E_k']), mode='eval').body, mod, pk.cls) != 2

    def yields_cap_tlvs(call: ast.AST) -> bool:
        if not isinstance(call, ast.Call):
            return False
        for q in model.callees(pk.module, call):
            h = model.funcs.get(q)
            if h is None or h.module is not pk.module:
                return False
            ys = [y for y in walk_no_nested(h.node) if isinstance(y, (ast.Yield, ast.YieldFrom))]
            hl = Loc(model, h)
            if ys and all(isinstance(y, ast.Yield) and y.value is not None and is_cap_tlv(hl.resolve(y.value)) for y in ys):
                run.analysed(h)
                return True
        return False

    pl = Loc(model, pk)
    n_caps = 0
    for n in walk_no_nested(pk.node):
        if isinstance(n, ast.AugAssign) and isinstance(n.op, ast.Add) and isinstance(n.target, ast.Name):
            for pat in ('bytes([E_t, len(V_e)]) + V_e', "pack('!BH', E_t, len(V_e)) + V_e"):
                b = amatch(pat, n.value)
                if b is None or folder.fold(ast.parse(str(b['E_t']), mode='eval').body, mod, pk.cls) != 2:
                    continue
                ds = pl.defs.get(str(b['V_e']), [])
                # the definition of the wrapped value that reaches this statement: the last one before it
                ds = [d for d in ds if getattr(d[2], 'lineno', 0) <= n.lineno]
                if ds and ((ds[-1][1] == 'assign' and is_cap_tlv(ds[-1][0])) or (ds[-1][1] == 'for' and yields_cap_tlvs(ds[-1][0]))):
                    n_caps += 1
    run.check(n_caps == 2, pk.qualname, 'capability TLV = [code, len] + value in both forms', pk.loc(), 'RFC 5492 4: capability length is one octet, also inside RFC 9072 extended parameters')
    from ..alpha import facts

    inner = None
    for w in walk_no_nested(un.node):
        if isinstance(w, ast.While) and any(f.endswith(' == Parameter.CAPABILITIES') for f in facts(ul, w)):
            inner = w
    ok_inner = False
    if inner is not None:
        calls = [c for c in walk_no_nested(inner) if isinstance(c, ast.Call) and isinstance(c.func, ast.Name) and c.args and isinstance(c.args[0], ast.Constant) and c.args[0].value == 'capability']
        ok_inner = len(calls) == 1 and calls[0].func.id == '_key_values'
    run.check(ok_inner, un.qualname, 'capabilities inside a parameter are read with the 1-octet-length decoder (_key_values)', un.loc(inner) if inner is not None else un.loc(), 'the parameter-level decoder (2-octet length in the RFC 9072 form) must not be reused for the capability TLVs, whose length stays one octet')
    # decoder selection: the 2-octet TLV decoder only when both marker octets are 255
    sel = [(n, dotted(n.value)) for n in walk_no_nested(un.node) if isinstance(n, ast.Assign) and isinstance(n.value, ast.Name) and n.value.id in ('_extended_type_length', '_key_values')]
    okd = any(v == '_extended_type_length' for _, v in sel) and any(v == '_key_values' for _, v in sel)
    for n, v in sel:
        if v == '_extended_type_length':
            marks = {marker_index(t) for t, pol in deep_guards(n) if pol}
            okd = okd and {0, 1} <= marks
    run.check(okd, un.qualname, 'decoder per form: %s' % [v for _, v in sel], un.loc(), 'the 2-octet TLV decoder is used only in the extended form (both marker octets 255)')


FLAGS = {
    '_asn4': ('asn4', ['FOUR_BYTES_ASN']),
    '_nexthop': ('nexthop', ['NEXTHOP']),
    '_addpath': ('add_path', ['ADD_PATH']),
    '_graceful': ('graceful_restart', ['GRACEFUL_RESTART']),
    '_refresh': ('route_refresh', ['ROUTE_REFRESH', 'ENHANCED_ROUTE_REFRESH']),
    '_extended_message': ('extended_message', ['EXTENDED_MESSAGE']),
    '_software_version': ('software_version', ['SOFTWARE_VERSION']),
    '_operational': ('operational', ['OPERATIONAL']),
    '_linklocal': ('link_local_nexthop', ['LINK_LOCAL_NEXTHOP']),
    '_session': ('multi_session', ['MULTISESSION']),
    '_protocol': (None, ['MULTIPROTOCOL']),
    '_hostname': (None, ['HOSTNAME']),
}


def _r7_written_code(model: Model, run: Run) -> None:
    top = model.func(CAPS + '.pack_capabilities')
    # ... and the methods of the class it calls on itself (a generator of TLVs shared by the two encodings)
    todo = [top]
    for c0 in walk_no_nested(top.node):
        if isinstance(c0, ast.Call) and isinstance(c0.func, ast.Attribute) and dotted(c0.func.value) in ('self', 'cls'):
            todo += [model.funcs[q] for q in model.callees(top.module, c0) if q in model.funcs and q.startswith(CAPS + '.') and model.funcs[q] not in todo]
    n = 0
    for fi in todo:
        n += _r7_headers(model, run, fi)
    if n < 1:
        run.cannot('no capability TLV header found in pack_capabilities or the methods it calls')


def _r7_headers(model: Model, run: Run, fi: FuncInfo) -> int:
    run.analysed(fi)
    loc = Loc(model, fi)
    pm = parent_map(fi.node)

    def enclosing_fors(n: ast.AST) -> list[ast.For]:
        out = []
        cur: ast.AST | None = n
        while cur is not None:
            cur = pm.get(id(cur))
            if isinstance(cur, ast.For):
                out.append(cur)
        return out

    n = 0
    for c in walk_no_nested(fi.node):
        if not isinstance(c, ast.Call):
            continue
        # a TLV header: bytes([code, len(value)]) or pack('!BB', code, len(value)) inside the loop over the values of one capability
        if isinstance(c.func, ast.Name) and c.func.id == 'bytes' and len(c.args) == 1 and isinstance(c.args[0], (ast.List, ast.Tuple)):
            fields = list(c.args[0].elts)
        elif (dotted(c.func) or '').rsplit('.', 1)[-1] == 'pack' and len(c.args) >= 3:
            fields = list(c.args[1:])
        else:
            continue
        fors = enclosing_fors(c)
        inner = next((f for f in fors if isinstance(f.iter, ast.Call) and isinstance(f.iter.func, ast.Attribute) and f.iter.func.attr == 'extract_capability_bytes' and isinstance(f.target, ast.Name)), None)
        if inner is None:
            continue
        at = next((i for i, e in enumerate(fields) if norm(e) == 'len(%s)' % inner.target.id), None)  # type: ignore[union-attr]
        if at is None or at == 0:
            continue
        n += 1
        code = fields[at - 1]
        src = loc.resolve(code) if isinstance(code, ast.Name) else code
        key_ok = False
        if isinstance(src, ast.Name):
            for f in fors:
                it = norm(f.iter)
                if isinstance(f.target, ast.Tuple) and f.target.elts and isinstance(f.target.elts[0], ast.Name) and f.target.elts[0].id == src.id and re.fullmatch(r'(sorted\()?self\.items\(\)\)?', it):
                    key_ok = True
                if isinstance(f.target, ast.Name) and f.target.id == src.id and re.fullmatch(r'(sorted\()?self(\.keys\(\))?\)?', it):
                    key_ok = True
        run.check(key_ok, fi.qualname, 'capability TLV header %s: the code is %s' % (norm(c)[:50], 'the key of the iteration over self' if key_ok else norm(code)), fi.loc(c), 'the peer must read the code the capability is stored under; %s is not that key' % norm(code))
    return n


def _r6_new(model: Model, run: Run) -> None:
    new = model.func(CAPS + '.new')
    run.analysed(new)
    called = [c.func.attr for c in walk_no_nested(new.node) if isinstance(c, ast.Call) and isinstance(c.func, ast.Attribute) and dotted(c.func.value) == 'self']
    for helper, (flag, codes) in FLAGS.items():
        f = model.funcs.get(CAPS + '.' + helper)
        if f is None:
            run.cannot('helper %s vanished' % helper)
            continue
        run.analysed(f)
        stores = [n for n in walk_no_nested(f.node) if isinstance(n, ast.Assign) and isinstance(n.targets[0], ast.Subscript) and dotted(n.targets[0].value) == 'self']
        got = sorted((dotted(s.targets[0].slice) or '?').rsplit('.', 1)[-1] for s in stores)
        ok = got == sorted(codes) and helper in called and all(flat_guards(new.node, c) == [] for c in walk_no_nested(new.node) if isinstance(c, ast.Call) and isinstance(c.func, ast.Attribute) and c.func.attr == helper)
        if flag is None:
            ok = ok and all(not flat_guards(f.node, s) for s in stores)
        else:
            for s in stores:
                g = flat_guards(f.node, s)
                ok = ok and any(('neighbor.capability.' + flag) in norm(t) and pol for t, pol in g)
        run.check(ok, f.qualname, 'inserts %s under %s' % (got, ('neighbor.capability.' + flag) if flag else 'no condition'), f.loc(), 'the OPEN must advertise exactly what the configuration enables')
    # which of the neighbor's lists (families / add-path families / extended next hop triples) each capability is filled from
    ACCESSORS = {'families', 'addpaths', 'nexthops'}
    WANT_LIST = {'_protocol': {'families'}, '_nexthop': {'nexthops'}, '_addpath': {'addpaths'}, '_graceful': {'families'}}
    for helper in list(FLAGS) + ['_pathslimit']:
        f = model.funcs.get(CAPS + '.' + helper)
        if f is None:
            continue
        params = [a.arg for a in f.node.args.args]
        nb = params[1] if len(params) > 1 else 'neighbor'
        fl = Loc(model, f)
        got = set()
        for c in walk_no_nested(f.node):
            if isinstance(c, ast.Call) and isinstance(c.func, ast.Attribute) and c.func.attr in ACCESSORS:
                if fl.expand(c.func.value) == nb:
                    got.add(c.func.attr)
        want = WANT_LIST.get(helper, set())
        run.check(got == want, f.qualname, 'filled from the neighbor\'s %s' % (sorted(got) or 'scalar settings only'), f.loc(), 'the capability must list what the configuration enables for it (%s), not another of the neighbor\'s lists: %s' % (sorted(want) or 'no list', 'ADD-PATH for a family the operator left out of add-path { } makes the peers exchange path identifiers nobody asked for' if helper == '_addpath' else 'the OPEN advertises what was not configured'))
    # the 2-octet AS written into the OPEN
    mo = model.func(OPEN + '.make_open')
    ml = Loc(model, mo)
    asn_p = mo.node.args.args[2].arg if len(mo.node.args.args) > 2 else 'asn'
    ok = any(isinstance(c, ast.Call) and isinstance(c.func, ast.Attribute) and c.func.attr == 'pack_asn2' and ml.expand(c.func.value, depth=6) == '%s.trans()' % asn_p for c in walk_no_nested(mo.node))
    ok = ok and not any(isinstance(c, ast.Call) and isinstance(c.func, ast.Attribute) and c.func.attr in ('pack_asn2', 'pack_asn4', 'pack_asn') and ml.expand(c.func.value, depth=6) != '%s.trans()' % asn_p for c in walk_no_nested(mo.node))
    run.check(ok, mo.qualname, 'My-AS field = asn.trans() packed on 2 octets', mo.loc(), 'RFC 6793: AS_TRANS in the fixed field for a 4-byte AS')
