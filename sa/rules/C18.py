"""C18 — route text is accepted iff it can be sent.  DESIGN.md 3/C18."""

from __future__ import annotations

import ast
import math

from ..cfg import handler_names
from ..alpha import Loc
from ..const import UNKNOWN, Folder
from ..flow import flat_guards, parent_map
from ..model import FuncInfo, Model, dotted, norm, walk_no_nested, walk_with_lambdas
from ..report import Run
from .common import ExcFlow, short

PARSER_MODULES = (
    'exabgp/configuration/static/parser.py',
    'exabgp/configuration/static/mpls.py',
    'exabgp/configuration/flow/parser.py',
    'exabgp/configuration/l2vpn/parser.py',
)
INF = math.inf
WIDTH = {'B': 1, 'b': 1, 'H': 2, 'h': 2, 'L': 4, 'l': 4, 'I': 4, 'i': 4, 'Q': 8, 'q': 8}


class Bounds:
    """Upper bounds of non-negative integer expressions from the early-exit range guards that dominate a use."""

    def __init__(self, model: Model, folder: Folder, fi: FuncInfo) -> None:
        self.model = model
        self.folder = folder
        self.fi = fi

    def guard_ub(self, name: str, at: ast.AST) -> float:
        best = INF
        for t, pol in flat_guards(self.fi.node, at):
            for cmp_ in ([t] if isinstance(t, ast.Compare) else []):
                if len(cmp_.ops) != 1:
                    continue
                l, r, op = cmp_.left, cmp_.comparators[0], cmp_.ops[0]
                if isinstance(l, ast.Name) and l.id == name:
                    k = self.folder.fold(r, self.fi.module, self.fi.cls)
                    if not isinstance(k, int):
                        continue
                    if not pol and isinstance(op, ast.Gt):
                        best = min(best, k)
                    elif not pol and isinstance(op, ast.GtE):
                        best = min(best, k - 1)
                    elif pol and isinstance(op, ast.Lt):
                        best = min(best, k - 1)
                    elif pol and isinstance(op, ast.LtE):
                        best = min(best, k)
                    elif pol and isinstance(op, ast.Eq):
                        best = min(best, k)
                if isinstance(r, ast.Name) and r.id == name:
                    k = self.folder.fold(l, self.fi.module, self.fi.cls)
                    if not isinstance(k, int):
                        continue
                    if not pol and isinstance(op, ast.Lt):
                        best = min(best, k)
                    elif pol and isinstance(op, ast.GtE):
                        best = min(best, k)
                    elif pol and isinstance(op, ast.Gt):
                        best = min(best, k - 1)
        # loop form: for i in [a, b, c]: if i > K: raise   (bounds every element of the list)
        return best

    def list_guard_ub(self, name: str, at: ast.AST) -> float:
        best = INF
        for loop in walk_no_nested(self.fi.node):
            if isinstance(loop, ast.For) and isinstance(loop.iter, (ast.List, ast.Tuple)) and isinstance(loop.target, ast.Name) and loop.lineno < getattr(at, 'lineno', 0):
                if any(isinstance(e, ast.Name) and e.id == name for e in loop.iter.elts):
                    for st in loop.body:
                        if isinstance(st, ast.If) and isinstance(st.test, ast.Compare) and isinstance(st.test.left, ast.Name) and st.test.left.id == loop.target.id and isinstance(st.body[-1], ast.Raise):
                            k = self.folder.fold(st.test.comparators[0], self.fi.module, self.fi.cls)
                            if isinstance(k, int):
                                if isinstance(st.test.ops[0], ast.Gt):
                                    best = min(best, k)
                                elif isinstance(st.test.ops[0], ast.GtE):
                                    best = min(best, k - 1)
        return best

    def ub(self, e: ast.AST, at: ast.AST, depth: int = 0) -> float:
        if depth > 8:
            return INF
        v = self.folder.fold(e, self.fi.module, self.fi.cls)
        if isinstance(v, bool):
            return int(v)
        if isinstance(v, int):
            return v
        if isinstance(e, ast.Name):
            g = min(self.guard_ub(e.id, at), self.list_guard_ub(e.id, at))
            if g is INF:
                # a plain copy of another local (the result of a checking helper that was inlined: code = number): the
                # bound the source had where the copy was made
                ds = Loc(self.model, self.fi).defs.get(e.id, [])
                if len(ds) == 1 and isinstance(ds[0][0], ast.Name) and ds[0][1] == 'assign':
                    return self.ub(ds[0][0], ds[0][2], depth + 1)
            return g
        if isinstance(e, ast.BinOp):
            a = self.ub(e.left, at, depth + 1)
            if isinstance(e.op, ast.BitAnd):
                b = self.ub(e.right, at, depth + 1)
                return min(a, b)
            if isinstance(e.op, ast.RShift):
                k = self.folder.fold(e.right, self.fi.module, self.fi.cls)
                return a if a is INF or not isinstance(k, int) else (int(a) >> k)
            b = self.ub(e.right, at, depth + 1)
            if a is INF or b is INF:
                if isinstance(e.op, ast.Mod) and b is not INF:
                    return b - 1
                return INF
            if isinstance(e.op, ast.Add):
                return a + b
            if isinstance(e.op, ast.LShift):
                return int(a) << int(b) if b < 128 else INF
            if isinstance(e.op, ast.Mult):
                return a * b
            if isinstance(e.op, ast.BitOr):
                return (1 << max(int(a).bit_length(), int(b).bit_length())) - 1
            if isinstance(e.op, ast.Mod):
                return b - 1
            if isinstance(e.op, ast.Sub):
                return a
            return INF
        if isinstance(e, ast.IfExp):
            return max(self.ub(e.body, at, depth + 1), self.ub(e.orelse, at, depth + 1))
        if isinstance(e, ast.Call) and isinstance(e.func, ast.Name) and e.func.id in ('len',):
            return INF
        if isinstance(e, ast.Call) and depth < 4:
            # a checking helper: the bound of what it returns, in its own body
            for cal in self.model.callees(self.fi.module, e):
                h = self.model.funcs.get(cal)
                if h is not None and h.module.rel in PARSER_MODULES:
                    hb = Bounds(self.model, self.folder, h)
                    rets = [r for r in walk_no_nested(h.node) if isinstance(r, ast.Return) and r.value is not None]
                    if rets:
                        return max(hb.ub(r.value, r, depth + 1) for r in rets)
        if isinstance(e, ast.Call) and isinstance(e.func, ast.Name) and e.func.id == 'int' and e.args and isinstance(e.args[0], ast.Name):
            return INF
        if isinstance(e, ast.Subscript):
            # element of a list: the largest thing ever appended to it (each judged where it is appended), or the guard on
            # the list as a whole (components[0])
            if isinstance(e.value, ast.Name):
                apps = [c for c in walk_no_nested(self.fi.node) if isinstance(c, ast.Call) and isinstance(c.func, ast.Attribute) and c.func.attr == 'append' and isinstance(c.func.value, ast.Name) and c.func.value.id == e.value.id and c.args]
                if apps:
                    return max(self.ub(c.args[0], c, depth + 1) for c in apps)
                return self.guard_ub(e.value.id, at)
            return INF
        return INF


def _protected(pm: dict, node: ast.AST, flow: ExcFlow) -> bool:
    cur: ast.AST | None = node
    while cur is not None:
        p = pm.get(id(cur))
        if isinstance(p, ast.Try) and any(x is cur for x in p.body):
            for h in p.handlers:
                names = handler_names(h)
                if '*' in names or 'Exception' in names or 'error' in names:
                    # converts to ValueError?
                    if any(isinstance(r, ast.Raise) and r.exc is not None and 'ValueError' in norm(r.exc) for r in walk_no_nested(h)):
                        return True
        cur = p
    return False


def check(model: Model, run: Run) -> None:
    folder = Folder(model)
    exc = ExcFlow(model)

    parsers: list[FuncInfo] = []
    for fi in model.funcs.values():
        if fi.module.rel in PARSER_MODULES and fi.cls is None:
            parsers.append(fi)
    parsers.sort(key=lambda f: f.qualname)
    if len(parsers) < 60:
        run.cannot('only %d parser functions found (floor 60)' % len(parsers))

    # ------------------------------------------------------------------ R1 explicit raises are ValueError
    run.rule('C18.R1', 'the value parsers of route / flow / l2vpn text raise only ValueError explicitly (Section.parse converts it into a located error)', floor=60)
    other_raises: list = []
    for fi in parsers:
        run.analysed(fi)
        bad = []
        for r in walk_no_nested(fi.node):
            if isinstance(r, ast.Raise) and r.exc is not None:
                nm = None
                if isinstance(r.exc, ast.Call):
                    nm = (dotted(r.exc.func) or '?').rsplit('.', 1)[-1]
                elif isinstance(r.exc, ast.Name):
                    nm = r.exc.id
                if nm is not None and nm not in ('ValueError',) and 'ValueError' not in exc.ancestors(nm):
                    # re-raise of a caught variable is fine when the handler caught ValueError
                    pm = parent_map(fi.node)
                    h = pm.get(id(r))
                    while h is not None and not isinstance(h, ast.ExceptHandler):
                        h = pm.get(id(h))
                    if h is not None and h.name == nm:
                        continue
                    bad.append((r, nm))
        # a generic Exception is still answered (Configuration.reload and the API callbacks have catch-alls, C14.R1 / C17.R1);
        # what is armed is an exception that those catch-alls do not cover
        fatal = [(r, nm) for r, nm in bad if 'Exception' not in exc.ancestors(nm)]
        if fatal:
            for r, nm in fatal:
                run.violation(fi.qualname, 'raises %s' % nm, fi.loc(r), 'this is not an Exception subclass: neither Section.parse nor the catch-alls of reload() / the API callbacks turn it into an error message')
        else:
            run.ok(short(fi.qualname), 'non-ValueError raises answered by the catch-alls: %s' % sorted({nm for _, nm in bad}) if bad else '')
        other_raises.extend((fi, r, nm) for r, nm in bad)
    sp = model.func('exabgp.configuration.core.section.Section.parse')
    run.analysed(sp)
    conv = any(isinstance(h, ast.ExceptHandler) and 'ValueError' in handler_names(h) and any(isinstance(s, ast.Return) and 'self.error.set' in norm(s) for s in h.body) for h in walk_no_nested(sp.node))
    run.check(conv, sp.qualname, 'ValueError -> located error', sp.loc(), 'the conversion point of parse errors')

    # ------------------------------------------------------------------ R3 pack-width guards
    run.rule(
        'C18.R3',
        'a value the wire format cannot hold is never wrapped: every integer a text parser packs goes through struct.pack / '
        'bytes([x]), which raise on overflow (inventory with the upper bound derived from the dominating range guards; an '
        'unguarded pack is refused by exception and is listed in the evidence, not reported)',
        floor=18,
    )
    n_pack = 0
    unbounded: list[str] = []
    for fi in parsers:
        pm = parent_map(fi.node)
        bd = Bounds(model, folder, fi)
        for c in walk_with_lambdas(fi.node):
            if not isinstance(c, ast.Call):
                continue
            ops: list[tuple[ast.AST, int]] = []
            d = dotted(c.func) or ''
            if d in ('pack', 'struct.pack') and c.args and isinstance(c.args[0], ast.Constant) and isinstance(c.args[0].value, str):
                fmt = [ch for ch in c.args[0].value if ch in WIDTH or ch in 'sfd']
                args = c.args[1:]
                if len(fmt) == len(args):
                    for ch, a in zip(fmt, args):
                        if ch in WIDTH:
                            ops.append((a, WIDTH[ch]))
            elif d == 'bytes' and len(c.args) == 1 and isinstance(c.args[0], ast.List):
                for a in c.args[0].elts:
                    ops.append((a, 1))
            if not ops:
                continue
            st = c
            while st is not None and not isinstance(st, ast.stmt):
                st = pm.get(id(st))
            for a, w in ops:
                n_pack += 1
                limit = (1 << (8 * w)) - 1
                ub = bd.ub(a, st or c)
                inst = '%s: %s as %d byte(s)' % (short(fi.qualname), norm(a)[:40], w)
                if ub is not INF and int(ub) == limit - 1 and isinstance(a, ast.Name):
                    run.violation(
                        fi.qualname,
                        'the range guard stops one short of what the field holds: %s <= %d packed on %d byte(s)' % (norm(a)[:30], int(ub), w),
                        fi.loc(c),
                        'the dominating guard allows %s up to %d, the field written here holds up to %d: the largest value the RFC allows (all ones) is '
                        'refused although it is encodable - an off-by-one between `<` and `<=` on a bound that changed from 2^n to 2^n - 1' % (norm(a)[:30], int(ub), limit),
                    )
                elif ub <= limit:
                    run.ok(inst, 'upper bound %s' % (int(ub) if ub is not INF else ub))
                elif _protected(pm, c, exc):
                    run.ok(inst, 'struct.error converted to ValueError by the enclosing handler')
                elif (fi.qualname, norm(a)) in PACK_TRIAGED:
                    run.ok(inst, 'triaged: ' + PACK_TRIAGED[(fi.qualname, norm(a))])
                else:
                    # struct.pack / bytes([x]) RAISE on overflow (struct.error / ValueError): the text is refused - through the
                    # catch-alls, with a poor message - but never wrapped.  Recorded, not a violation of the property.
                    unbounded.append('%s %s: %s on %d byte(s), bound %s' % (fi.loc(c), short(fi.qualname), norm(a)[:40], w, 'none' if ub is INF else int(ub)))
                    run.ok(inst, 'not range-guarded: overflow raises at parse time (refused via the catch-alls)')
    run.extra['pack_operands'] = n_pack
    run.extra['packs_refused_by_exception_only'] = unbounded
    run.extra['non_valueerror_raises'] = ['%s %s raises %s' % (f.loc(r), short(f.qualname), nm) for f, r, nm in other_raises]

    # lossy factories: Labels.make_labels keeps 3 of the 4 packed bytes
    run.rule('C18.R3b', 'factories that encode by truncating are range-guarded on every parser path: each label handed to Labels.make_labels by the text parsers is checked against Labels.MAX (2^20 - 1)', floor=2)
    mx = folder.class_attr('exabgp.bgp.message.update.nlri.qualifier.labels.Labels', 'MAX')
    run.check(mx == (1 << 20) - 1, 'exabgp.bgp.message.update.nlri.qualifier.labels.Labels', 'MAX = %s' % mx, 'src/exabgp/bgp/message/update/nlri/qualifier/labels.py', 'a label is 20 bits')
    n_lab = 0
    for fi in parsers:
        calls = [c for c in walk_no_nested(fi.node) if isinstance(c, ast.Call) and model.call_matches(fi.module, c, 'Labels.make_labels')]
        for c in calls:
            if not c.args or not isinstance(c.args[0], (ast.Name, ast.List)):
                continue
            lst = c.args[0].id if isinstance(c.args[0], ast.Name) else None
            bd = Bounds(model, folder, fi)
            # the list handed over: a local that is appended to, or a literal whose elements are the labels
            sites = [app for app in walk_no_nested(fi.node) if lst is not None and isinstance(app, ast.Call) and isinstance(app.func, ast.Attribute) and app.func.attr == 'append' and dotted(app.func.value) == lst and app.args]
            if isinstance(c.args[0], ast.List):
                sites = [ast.copy_location(ast.Call(func=ast.Name(id='append', ctx=ast.Load()), args=[e], keywords=[]), e) for e in c.args[0].elts]
            for app in sites:
                if True:
                    n_lab += 1
                    pm = parent_map(fi.node)
                    st = app
                    while st is not None and not isinstance(st, ast.stmt):
                        st = pm.get(id(st))
                    ub = bd.ub(app.args[0], st or app)
                    neg = True
                    if isinstance(app.args[0], ast.Call):
                        # checked inside the helper that produces the value
                        neg = False
                        for cal in model.callees(fi.module, app.args[0]):
                            h = model.funcs.get(cal)
                            if h is not None:
                                for r in walk_no_nested(h.node):
                                    if isinstance(r, ast.Return) and isinstance(r.value, ast.Name):
                                        neg = neg or any(isinstance(t, ast.Compare) and isinstance(t.left, ast.Name) and t.left.id == r.value.id and isinstance(t.ops[0], ast.Lt) and folder.fold(t.comparators[0], h.module) == 0 and not pol for t, pol in flat_guards(h.node, r))
                    if isinstance(app.args[0], ast.Name):
                        neg = any(isinstance(t, ast.Compare) and isinstance(t.left, ast.Name) and t.left.id == app.args[0].id and isinstance(t.ops[0], ast.Lt) and folder.fold(t.comparators[0], fi.module) == 0 and not pol for t, pol in flat_guards(fi.node, st or app))
                    run.check(
                        isinstance(mx, int) and ub <= mx and neg,
                        fi.qualname,
                        'label %s appended with bounds [%s, %s]' % (norm(app.args[0]), 0 if neg else '-inf', 'unbounded' if ub is INF else int(ub)),
                        fi.loc(app),
                        'Labels.make_labels packs label << 4 on 4 bytes and keeps the last 3: a label above %s silently wraps (1048676 is sent as 100) and a huge or negative one raises struct.error' % mx,
                    )
    if n_lab < 2:
        run.cannot('only %d label insertion sites found' % n_lab)

    # ------------------------------------------------------------------ R3c values keep their place
    run.rule(
        'C18.R3c',
        'a number typed by the operator is carried as written or refused, never folded into something else: where a parser '
        'assembles (high << k) + low, low is bounded below 2^k by a dominating guard; where it hands a number to a factory that '
        'keeps only the low bits (PathInfo.make_from_integer: 32), the number is bounded accordingly',
        floor=2,
    )
    MASKING = {'PathInfo.make_from_integer': (0, 32), 'GenericAttribute.make_generic': (0, 8), 'GenericAttribute.make_generic#flag': (1, 8)}
    # prefix lengths handed to the flow components: bounded by the size of the address, not by a number of bits
    LIMITS = {'IPrefix4.make_prefix4': (1, 32), 'IPrefix6.make_prefix6': (1, 128)}
    n3c = 0
    for fi in parsers:
        bd = Bounds(model, folder, fi)
        for e in walk_no_nested(fi.node):
            if isinstance(e, ast.BinOp) and isinstance(e.op, (ast.Add, ast.BitOr)) and isinstance(e.left, ast.BinOp) and isinstance(e.left.op, ast.LShift):
                k = folder.fold(e.left.right, fi.module, fi.cls)
                if not isinstance(k, int):
                    continue
                n3c += 1
                u = bd.ub(e.right, e)
                run.check(u <= (1 << k) - 1, fi.qualname, 'low part of (x << %d) + y bounded by %s' % (k, 'nothing' if u is INF else int(u)), fi.loc(e), 'the low part can exceed %d bits (it is only bounded by %s): it carries into the high part and the value sent differs from the one written (community 1:65536 goes out as 2:0)' % (k, 'nothing' if u is INF else int(u)))
            if isinstance(e, ast.Call):
                for suf, (argi, top) in LIMITS.items():
                    if model.call_matches(fi.module, e, suf, suf.split('.')[-1]) and len(e.args) > argi and isinstance(e.func, ast.Attribute) and e.func.attr == suf.split('.')[-1]:
                        n3c += 1
                        a = e.args[argi]
                        u = INF if (isinstance(a, ast.Call) and dotted(a.func) == 'int') else bd.ub(a, e)
                        if u is INF and isinstance(a, ast.Call):
                            u = _helper_upper_bound(model, folder, fi, a)
                        run.check(u <= top, fi.qualname, '%s receives a prefix length bounded by %s' % (e.func.attr, 'nothing' if u is INF else int(u)), fi.loc(e), 'a prefix length above %d is accepted, encoded and sent as written (`source 10.0.0.0/33`); the peer refuses the NLRI and rendering the route raises' % top)
                for suf, (argi, bits) in MASKING.items():
                    suf = suf.split('#')[0]
                    if model.call_matches(fi.module, e, suf) and len(e.args) > argi:
                        n3c += 1
                        a = e.args[argi]
                        if isinstance(a, ast.Call) and dotted(a.func) == 'int' and a.args:
                            # int(<token>): bounded only by a guard on a variable holding the same conversion
                            u = INF
                        else:
                            u = bd.ub(a, e)
                        run.check(u <= (1 << bits) - 1, fi.qualname, '%s receives a value bounded by %s' % (suf, 'nothing' if u is INF else int(u)), fi.loc(e), '%s holds argument %d on %d bits: a larger number is accepted and then silently becomes another one (path-information 4294967296 is sent as 0.0.0.0) or can not be encoded at all (attribute code 0x100 raises when the UPDATE is built)' % (suf, argi, bits))
    if n3c < 2:
        run.cannot('only %d value-assembling sites found in the parsers' % n3c)
    # the factory really masks (the table above stays in step with the code)
    mk = model.func('exabgp.bgp.message.update.nlri.qualifier.path.PathInfo.make_from_integer')
    run.check(any(isinstance(x, ast.BinOp) and isinstance(x.op, ast.BitAnd) and folder.fold(x.right, mk.module, mk.cls) == 0xFF for x in ast.walk(mk.node)), mk.qualname, 'keeps 4 x 8 bits of its argument', mk.loc(), 'masking factory table out of date')

    gp = model.func('exabgp.bgp.message.update.attribute.generic.GenericAttribute.pack_attribute')
    run.check(any(isinstance(x, ast.Call) and dotted(x.func) == 'bytes' and x.args and isinstance(x.args[0], ast.List) and len(x.args[0].elts) == 2 for x in ast.walk(gp.node)), gp.qualname, 'writes flag and code on one octet each', gp.loc(), 'masking factory table out of date')

    # ------------------------------------------------------------------ R4 shared validity check, 4-byte ASNs
    run.rule('C18.R4', 'validate_announce_nlri is used both at parse time (API route handlers) and at encode time (messages()); ASN.from_string accepts 0..2^32-1; AS paths built from text are 4 bytes wide', floor=4)
    msgs = model.func('exabgp.bgp.message.update.collection.UpdateCollection.messages')
    run.check(bool(model.calls_to(msgs.module, msgs.node, 'validate_announce_nlri')), msgs.qualname, 'encode side calls validate_announce_nlri', msgs.loc(), 'the shared check must run when encoding')
    va = model.func('exabgp.reactor.api.command.announce.validate_announce')
    run.check(bool(model.calls_to(va.module, va.node, 'validate_announce_nlri')), va.qualname, 'API side delegates to validate_announce_nlri', va.loc(), 'the shared check must run when a command is parsed')
    users = [f for f in model.funcs.values() if f.module.rel.startswith('exabgp/reactor/api/command/') and model.calls_to(f.module, f.node, 'validate_announce')]
    run.check(len(users) >= 3, 'exabgp.reactor.api.command', 'validate_announce used by %d API route handlers' % len(users), 'src/exabgp/reactor/api/command/announce.py', 'route handlers must validate before announcing')
    cfg_users = [f for f in model.funcs.values() if f.module.rel.startswith('exabgp/configuration/') and not f.module.rel.endswith('check.py') and model.calls_to(f.module, f.node, 'validate_announce_nlri', 'validate_announce')]
    post = model.func('exabgp.configuration.static.route.ParseStaticRoute.post')
    if cfg_users:
        run.ok('configuration file routes go through the shared validity check', short(cfg_users[0].qualname))
    else:
        run.violation(
            post.qualname,
            'configuration-file routes are not passed to validate_announce_nlri',
            post.loc(),
            'the shared parse-time/encode-time check runs for API commands and when encoding, but not when a configuration file is '
            'parsed: `route 10.0.0.0/24 med 5;` (no next-hop) is accepted by reload() and raises ValueError("announce requires '
            'nexthop") only when the UPDATE is built for the session',
        )
    # every handler that installs announced routes runs the shared check on each of them first
    n_inst = 0
    for f in sorted(model.funcs.values(), key=lambda f: f.qualname):
        if not f.module.rel.startswith('exabgp/reactor/api/command/'):
            continue
        inst = model.calls_to(f.module, f.node, '_Configuration.announce_route', '_Configuration.announce_route_indexed')
        if not inst:
            continue
        run.analysed(f)
        pm4 = parent_map(f.node)

        def loop_of(x: ast.AST):  # noqa: ANN202
            cur = x
            while cur is not None and cur is not f.node:
                cur = pm4.get(id(cur))
                if isinstance(cur, (ast.For, ast.AsyncFor)):
                    return cur
            return None

        vcalls = model.calls_to(f.module, f.node, 'validate_announce', 'validate_announce_nlri')
        for c in inst:
            n_inst += 1
            li = loop_of(c)
            okv = False
            for vc in vcalls:
                lv = loop_of(vc)
                # the check runs over the same collection, on the loop variable, before the installation
                if li is not None and lv is not None and norm(lv.iter) == norm(li.iter) and vc.args and norm(vc.args[0]) == norm(lv.target) and (vc.lineno, vc.col_offset) < (c.lineno, c.col_offset):
                    okv = True
            run.check(
                okv,
                f.qualname,
                'routes are validated before %s' % norm(c)[:50],
                f.loc(c),
                'the handler installs what parsed without the shared validity check (validate_announce): a definition the encoder can not '
                'send (a VPLS or labelled route without next hop) is answered done and raises ValueError when the UPDATE is built',
            )
    if n_inst < 6:
        run.cannot('only %d installing API handlers found' % n_inst)
    # the parse-time check asks for a next hop exactly where the encoder needs one: every family but FlowSpec
    vn = model.func('exabgp.bgp.message.update.collection.validate_announce_nlri')
    run.analysed(vn)
    safi_cls = model.classes.get('exabgp.protocol.family.SAFI')
    nh_ret = [r for r in walk_no_nested(vn.node) if isinstance(r, ast.Return) and r.value is not None and 'nexthop' in norm(r.value).lower() and not isinstance(r.value, ast.Constant)]
    if safi_cls is None or len(nh_ret) != 1:
        run.cannot('validate_announce_nlri: the "requires nexthop" return was not found')
    else:
        pnames = [a.arg for a in vn.node.args.args]
        codes = {}
        for st in safi_cls.node.body:
            if isinstance(st, ast.AnnAssign) and isinstance(st.target, ast.Name) and st.target.id.isupper() and isinstance(st.value, ast.Constant) and isinstance(st.value.value, int):
                codes[st.target.id] = st.value.value
        # the singletons: `SAFI.unicast = SAFI.from_int(SAFI.UNICAST)` at module level of protocol/family.py
        fam = safi_cls.module
        singles: dict[str, dict[str, int]] = {'SAFI': {}, 'AFI': {}}
        for st in fam.tree.body:
            if isinstance(st, ast.Assign) and isinstance(st.targets[0], ast.Attribute) and isinstance(st.targets[0].value, ast.Name) and st.targets[0].value.id in singles and isinstance(st.value, ast.Call) and st.value.args:
                v = folder.fold(st.value.args[0], fam, None)
                if isinstance(v, int):
                    singles[st.targets[0].value.id][st.targets[0].attr] = v
        und = singles['AFI'].get('undefined', UNKNOWN)
        refused, unknown = set(), set()
        vnl = Loc(model, vn)
        for nm, code in sorted(codes.items()):
            env = {pnames[0]: {'safi': code}, pnames[1]: {'afi': und}, 'SAFI': dict(singles['SAFI']), 'AFI': dict(singles['AFI'])}
            verdict = True
            for t_, pol in flat_guards(vn.node, nh_ret[0]):
                try:
                    t_ = ast.parse(vnl.expand(t_), mode='eval').body  # locals such as `safi = nlri.safi` replaced by their definition
                except SyntaxError:
                    pass
                v = folder.fold(t_, vn.module, None, env)
                if v is UNKNOWN:
                    verdict = None
                    break
                if bool(v) != pol:
                    verdict = False
                    break
            (refused if verdict else unknown if verdict is None else set()).add(nm)
        need = set(codes) - {'FLOW_IP', 'FLOW_VPN', 'UNDEFINED'}
        missing = sorted(need - refused - unknown)
        if unknown:
            run.cannot('validate_announce_nlri: next-hop test not evaluable for %s' % sorted(unknown))
        run.check(not missing, vn.qualname, 'a missing next hop is refused for every family but FlowSpec (refused for %d SAFI)' % len(refused), vn.loc(nh_ret[0]), 'accepted without next hop: %s - UpdateCollection.messages() can encode none of them without one ("unexpected nlri definition"), so the definition is accepted and can not be sent' % missing)
        over = sorted(refused & {'FLOW_IP', 'FLOW_VPN'})
        run.check(not over, vn.qualname, 'a FlowSpec rule needs no next hop (refused without one: %s)' % (over or 'none'), vn.loc(nh_ret[0]), 'RFC 8955: a flow rule carries no next hop, and UpdateCollection.messages() sends both flow and flow-vpn rules without one: refusing %s at parse time makes `announce flow route { rd 65000:1; match {..} then {discard;} }` an error on the API, while the same rule from a configuration file loads and is then refused by the encoder' % over)
    asn = model.func('exabgp.bgp.message.open.asn.ASN.from_string')
    run.analysed(asn)
    mx4 = folder.class_attr('exabgp.bgp.message.open.asn.ASN', 'MAX_4BYTE')
    t = norm(asn.node)
    run.check(mx4 in (4294967295, UNKNOWN) and ('cls.MAX_4BYTE' in t or '4294967295' in t or '0xFFFFFFFF' in t.upper()), asn.qualname, 'plain ASN accepted up to 2^32-1', asn.loc(), 'RFC 6793: 4-byte AS numbers are valid')
    # as-path built 4 bytes wide (shared with C01.R7)
    ap = model.func('exabgp.configuration.static.parser.as_path')
    mk = [c for c in walk_no_nested(ap.node) if isinstance(c, ast.Call) and isinstance(c.func, ast.Attribute) and c.func.attr == 'make_aspath']
    for c in mk:
        wide = None
        if len(c.args) >= 2:
            wide = folder.fold(c.args[1], ap.module)
        for k in c.keywords:
            if k.arg == 'asn4':
                wide = folder.fold(k.value, ap.module)
        run.check(wide is True, ap.qualname, '%s with asn4=%s' % (norm(c)[:50], wide), ap.loc(c), 'an AS number above 65535 in as-path text is valid (RFC 6793) and must be accepted: packed 2 bytes wide it raises struct.error')
    if not mk:
        run.cannot('make_aspath calls not found in as_path parser')

    # ------------------------------------------------------------------ R5 what is written is what is sent (flow lists)
    run.rule('C18.R5', 'a FlowSpec list `[ a&b c ]` is sent as written: in the text parser the AND flag is reassigned before every operator, so an `&` seen earlier does not leak onto a later alternative (shared with C16.R7)', floor=1)
    from .C16 import and_flag_rule

    and_flag_rule(model, run)

    # ------------------------------------------------------------------ R8 a conversion that fails is a refusal
    run.rule(
        'C18.R8',
        'text that does not convert is refused, not replaced by a default: in the configuration parsers an `except ValueError` arm '
        'that goes on with a default value does not guard a conversion of operator text (int(...), float(...)) - `route 10.0.0.1/abc` '
        'must not be announced as 10.0.0.1/32 because int("abc") failed in the same try as the missing "/"',
        floor=15,
    )
    R8_TRIAGED = {
        'exabgp.configuration.static.attributes': 'look-ahead on the last token to guess the family of an attributes-only command: the token is parsed again, and refused, by the real parser',
    }
    n8 = 0
    for fi in parsers + [f for f in model.funcs.values() if f.module.rel.startswith('exabgp/configuration/') and f not in parsers]:
        for t in walk_no_nested(fi.node):
            if not isinstance(t, ast.Try):
                continue
            convs = [c for st in t.body for c in ast.walk(st) if isinstance(c, ast.Call) and isinstance(c.func, ast.Name) and c.func.id in ('int', 'float')]
            if not convs:
                continue
            for h in t.handlers:
                hn = set(handler_names(h))
                if not hn & {'ValueError', 'Exception', '*'}:
                    continue
                n8 += 1
                leaves = any(isinstance(x, (ast.Raise, ast.Return, ast.Continue, ast.Break)) for st in h.body for x in ast.walk(st))
                inst = '%s: try around %s' % (short(fi.qualname), norm(convs[0])[:30])
                if leaves:
                    run.ok(inst, 'the arm refuses or leaves')
                elif fi.qualname in R8_TRIAGED:
                    run.ok(inst, 'triaged: ' + R8_TRIAGED[fi.qualname])
                else:
                    run.violation(
                        fi.qualname,
                        'a failed %s falls back to a default (%s)' % (norm(convs[0])[:30], '; '.join(norm(x)[:30] for x in h.body)[:70]),
                        fi.loc(h),
                        'the except arm continues with a default value, and the try it belongs to also holds the conversion of operator text: '
                        'when that conversion fails the text is accepted with the default in its place (a mask that is not a number becomes /32)',
                    )
    if n8 < 15:
        run.cannot('only %d try/except around conversions found in the configuration parsers' % n8)

    # ------------------------------------------------------------------ R9 what one definition leaves in the tokeniser does not decide the next
    run.rule(
        'C18.R9',
        'the verdict on a definition does not depend on the one parsed before it: state the parsers keep on the shared Tokeniser '
        '(the family of the last static prefix) and that the flow parser reads is reset when a flow route starts (or by '
        'Tokeniser.clear()) - otherwise `protocol tcp` is refused as "IPv6-only" after an IPv6 static route',
        floor=1,
    )
    tk = model.classes.get('exabgp.configuration.core.parser.Tokeniser')
    if tk is None or '__init__' not in tk.methods:
        run.cannot('Tokeniser class not found')
    else:
        state = sorted({t.attr for n in walk_no_nested(tk.methods['__init__'].node) if isinstance(n, (ast.Assign, ast.AnnAssign)) for t in (n.targets if isinstance(n, ast.Assign) else [n.target]) if isinstance(t, ast.Attribute) and dotted(t.value) == 'self'})
        cleared = set()
        if 'clear' in tk.methods:
            cleared = {t.attr for n in walk_no_nested(tk.methods['clear'].node) if isinstance(n, ast.Assign) for t in n.targets if isinstance(t, ast.Attribute) and dotted(t.value) == 'self'}
        n9 = 0
        for attr in state:
            writers = [f for f in model.funcs.values() if f.module.rel.startswith('exabgp/configuration/') and f.cls is not tk and any(isinstance(a, ast.Assign) and any(isinstance(t, ast.Attribute) and t.attr == attr and isinstance(t.value, (ast.Name, ast.Attribute)) and 'tokeniser' in (dotted(t.value) or '') for t in a.targets) for a in walk_no_nested(f.node))]
            readers = [f for f in model.funcs.values() if f.module.rel.startswith('exabgp/configuration/flow/') and any(isinstance(a, ast.Attribute) and isinstance(a.ctx, ast.Load) and a.attr == attr and 'tokeniser' in (dotted(a.value) or '') for a in walk_no_nested(f.node))]
            static_writers = [f for f in writers if not f.module.rel.startswith('exabgp/configuration/flow/')]
            if not (static_writers and readers):
                continue
            n9 += 1
            flow_resets = [f for f in writers if f.module.rel.startswith('exabgp/configuration/flow/') and f.name in ('pre', '__init__', 'clear')]
            run.check(
                attr in cleared or bool(flow_resets),
                readers[0].qualname,
                'Tokeniser.%s, written by %s and read by the flow parser, is reset before a flow route is parsed' % (attr, short(static_writers[0].qualname)),
                readers[0].loc(),
                '%s reads tokeniser.%s, which only %s writes and nothing resets: whether a flow component is accepted depends on the family '
                'of the last static route parsed on the same tokeniser' % (short(readers[0].qualname), attr, ', '.join(short(f.qualname) for f in static_writers[:3])),
            )
        if n9 < 1:
            run.cannot('no tokeniser state shared between the static and the flow parsers found')

    # ------------------------------------------------------------------ R6 the family of the prefix is recorded for what follows
    run.rule(
        'C18.R6',
        'a function that records the family of the prefix it parsed (tokeniser.afi, read later by `next-hop self` and by the flow '
        'components) records it on every path that returns normally: an assignment that sits in a `try` after the statement that '
        'can fail is skipped on the fall-back path, and `route 192.0.2.1 next-hop self` (a host route written without its mask) is '
        'refused with "announce requires nexthop"',
        floor=1,
    )
    from ..cfg import CFG as _CFG

    n6 = 0
    for fi in sorted(model.funcs.values(), key=lambda f: f.qualname):
        if not fi.module.rel.startswith('exabgp/configuration/'):
            continue
        recs = [a for a in walk_no_nested(fi.node) if isinstance(a, ast.Assign) and any(isinstance(t, ast.Attribute) and t.attr == 'afi' and isinstance(t.value, ast.Name) and t.value.id in {p_.arg for p_ in fi.node.args.args} - {'self', 'cls'} for t in a.targets)]
        if not recs:
            continue
        n6 += 1
        run.analysed(fi)
        cfg6 = _CFG(fi.node)
        targets = {x.id for a in recs for x in cfg6.nodes_of(a)}
        rets = {x.id for r in walk_no_nested(fi.node) if isinstance(r, ast.Return) for x in cfg6.nodes_of(r)}
        # a normal return: reached without passing the recording
        seen = {cfg6.entry.id}
        work = [cfg6.entry.id]
        miss = None
        while work and miss is None:
            i = work.pop()
            for j, lab in cfg6.nodes[i].succ:
                if j in seen or j in targets:
                    continue
                seen.add(j)
                if j in rets or (j == cfg6.exit.id and lab != 'exc' and cfg6.nodes[i].kind not in ('raise',) and not isinstance(cfg6.nodes[i].ast, ast.Raise)):
                    miss = j
                    break
                work.append(j)
        run.check(miss is None, fi.qualname, 'the family is recorded on every path that returns', fi.loc(recs[0]), 'a path reaches the end of the function without passing `%s`' % norm(recs[0])[:50])
    if n6 < 1:
        run.cannot('no function recording tokeniser.afi found')

    # ------------------------------------------------------------------ R10 a flow value fits the octets of its component
    run.rule(
        'C18.R10',
        'the value of a FlowSpec operator written in text fits the widest encoding of its component (VALUE_SIZES: one octet for '
        'protocol / icmp / dscp / traffic-class, two for ports / lengths / flags, four for the flow label): the component built by '
        '_generic_condition takes its value through a test against klass.VALUE_SIZES that raises; the per-keyword converters accept '
        'up to 65535 for one-octet fields',
        floor=2,
    )
    _r10_flow_value_width(model, run)

    # ------------------------------------------------------------------ R11 nothing written is silently left out
    run.rule(
        'C18.R11',
        'a value that is written is carried or refused, never dropped: the flow source / destination parsers yield or raise on every '
        'path (no if / elif chain that falls off its end), and a range test whose in-range branch collects the value has an else '
        '(or a raise) for the out-of-range case',
        floor=3,
    )
    _r11_no_silent_drop(model, run, folder)

    # ------------------------------------------------------------------ R12 exact sizes of raw values
    run.rule(
        'C18.R12',
        'an extended community given in hexadecimal is 8 octets: _extended_community_hex is evaluated on a 2 octet and a 9 octet '
        'value and must refuse both (a 9 octet value was cut to 8, a 2 octet one sent as a 2 octet attribute)',
        floor=2,
    )
    _r12_hex_sizes(model, run, folder)


def _r10_flow_value_width(model: Model, run: Run) -> None:
    from ..alpha import facts

    gc = model.func('exabgp.configuration.flow.parser._generic_condition')
    run.analysed(gc)
    gl = Loc(model, gc)
    kparam = gc.node.args.args[1].arg if len(gc.node.args.args) > 1 else 'klass'
    sites = [c for c in walk_no_nested(gc.node) if isinstance(c, ast.Call) and isinstance(c.func, ast.Name) and c.func.id == kparam and len(c.args) == 2]
    if len(sites) < 2:
        run.cannot('_generic_condition: fewer than 2 constructions of the component (%d)' % len(sites))
        return
    for c in sites:
        v = c.args[1]
        bounded = any('VALUE_SIZES' in f for f in facts(gl, c))
        if not bounded and isinstance(v, ast.Call):
            for q in model.callees(gc.module, v):
                h = model.funcs.get(q)
                if h is None or h.module is not gc.module:
                    continue
                run.analysed(h)
                hl = Loc(model, h)
                for r in walk_no_nested(h.node):
                    if isinstance(r, ast.Return) and r.value is not None and any('VALUE_SIZES' in f for f in facts(hl, r)):
                        bounded = True
        run.check(bounded, gc.qualname, 'the value of %s is tested against the widths of the component' % norm(c)[:60], gc.loc(c), 'klass.converter accepts what the keyword allows (0 to 65535 for every protocol / icmp / traffic-class name table), the encoder of a one octet component raises ValueError on 256: `protocol 256` is accepted and can not be sent')


def _r11_no_silent_drop(model: Model, run: Run, folder: Folder) -> None:
    from ..cfg import CFG

    # (a) generator parsers without a loop: every path yields or raises
    for q in ('exabgp.configuration.flow.parser.source', 'exabgp.configuration.flow.parser.destination'):
        fi = model.func(q)
        run.analysed(fi)
        cfg = CFG(fi.node)
        targets = {n.id for n in cfg.nodes if n.ast is not None and n.kind == 'stmt' and (isinstance(n.ast, ast.Raise) or any(isinstance(x, (ast.Yield, ast.YieldFrom)) for x in walk_no_nested(n.ast)))}
        ok, path = cfg.all_paths_pass(cfg.entry.id, targets, {cfg.exit.id}, skip_labels=('exc',))
        run.check(ok, q, 'every path yields a component or raises', fi.loc(), 'a path reaches the end without a yield: text that matches none of the forms (`source 10.0.0/24`) is accepted and the component is left out - the rule sent is broader than the one written: %s' % ' -> '.join(cfg.describe_path(path)[-4:]) if not ok else '')
    # (c) in-range test without an out-of-range branch
    n = 0
    for fi in sorted(model.funcs_in('exabgp/configuration/'), key=lambda f: f.qualname):
        if not fi.module.rel.startswith(('exabgp/configuration/static/', 'exabgp/configuration/flow/', 'exabgp/configuration/l2vpn/', 'exabgp/configuration/announce/')):
            continue
        for st in walk_no_nested(fi.node):
            if not (isinstance(st, ast.If) and isinstance(st.test, ast.Compare) and len(st.test.ops) == 1 and isinstance(st.test.ops[0], (ast.Lt, ast.LtE))):
                continue
            lim = folder.fold(st.test.comparators[0], fi.module, fi.cls)
            if not (isinstance(lim, int) and not isinstance(lim, bool) and lim >= 255) or folder.fold(st.test.left, fi.module, fi.cls) is not UNKNOWN:
                continue
            collects = any(isinstance(x, ast.Call) and isinstance(x.func, ast.Attribute) and x.func.attr in ('append', 'add', 'extend') for b in st.body for x in walk_no_nested(b)) or any(isinstance(b, (ast.Assign, ast.AugAssign)) for b in st.body)
            if not collects or any(isinstance(x, (ast.Raise, ast.Return)) for b in st.body for x in walk_no_nested(b)):
                continue
            n += 1
            run.analysed(fi)
            run.check(bool(st.orelse), fi.qualname, 'in-range branch `%s` has an out-of-range branch' % norm(st.test), fi.loc(st), 'a value at or above the limit is neither collected nor refused: the definition is accepted without it')
    if n < 1:
        run.cannot('no in-range test collecting a value found in the route text parsers')


def _r12_hex_sizes(model: Model, run: Run, folder: Folder) -> None:
    from ..evalfn import Raised, eval_function

    fi = model.func('exabgp.configuration.static.parser._extended_community_hex')
    run.analysed(fi)
    p0 = fi.node.args.args[0].arg
    for label, text, want_refused in (('2 octets', '0x0002', True), ('9 octets', '0x0002fde80000000100', True), ('8 octets', '0x0002fde800000001', False)):
        r = eval_function(folder, fi, {p0: text}, outcomes=True)
        refused = isinstance(r, Raised)
        run.check(refused == want_refused, fi.qualname, 'hexadecimal extended community of %s: %s' % (label, 'refused' if refused else 'not refused by the length test'), fi.loc(), 'an extended community is 8 octets: a longer value is cut by the decoder it is handed to, a shorter one is sent as it is and can not be printed')

    # ------------------------------------------------------------------ R13 the family of a prefix goes with the prefix
    run.rule(
        'C18.R13',
        'sibling agreement of the text parsers: wherever the settings of an NLRI take the prefix just read '
        '(`<s>.cidr = CIDR.create_cidr(<p>.pack_ip(), <p>.mask)`) they take its address family too (`<s>.afi = IP.toafi(<p>.top())`, '
        'or a settings object built for that prefix): a family kept from a template is the family of another prefix',
        floor=3,
    )
    from ..alpha import afind

    n13 = 0
    for fi in sorted(model.funcs_in('exabgp/configuration/'), key=lambda f: f.qualname):
        for st, b in afind('V_s.cidr = CIDR.create_cidr(V_p.pack_ip(), V_p.mask)', fi.node):
            n13 += 1
            run.analysed(fi)
            s_, p_ = str(b['V_s']), str(b['V_p'])
            same = [a for a, _ in afind('V_s.afi = IP.toafi(V_p.top())', fi.node, {'V_s': s_, 'V_p': p_})]
            pm13 = parent_map(fi.node)
            from ..flow import block_of

            blk = block_of(pm13, st)
            ok13 = any(blk is not None and any(x is a for x in blk[2]) for a in same)
            # ... or the family is named by the command and the prefix is refused when it is of the other one
            if not ok13 and blk is not None:
                for x in blk[2]:
                    if isinstance(x, ast.If) and x.lineno <= st.lineno and any(isinstance(r_, ast.Raise) for r_ in walk_no_nested(x)) and any(norm(c_) in ('%s.afi' % p_, 'IP.toafi(%s.top())' % p_) for c_ in ast.walk(x.test)) and isinstance(x.test, ast.Compare) and isinstance(x.test.ops[0], ast.NotEq):
                        ok13 = True
            run.check(ok13, fi.qualname, '%s.cidr and %s.afi are taken from the same prefix %s' % (s_, s_, p_), fi.loc(st), 'the prefix is stored without its family: with prefixes of two families in one command (`attributes ... nlri 10.0.0.0/24 2001:db8::/32`) an NLRI of one family carries the octets of the other')
    if n13 < 3:
        run.cannot('only %d sites storing a parsed prefix in NLRI settings found' % n13)

    # ------------------------------------------------------------------ R14 type octets and layout of an extended community
    run.rule(
        'C18.R14',
        'the type octets and the field layout of a route target / route origin written in text come from the same entry of the '
        'tables: _encode() is evaluated for a 2-byte AS, a 4-byte AS, an AS written with L and an IPv4 administrator, and must '
        'answer (_HEADER[k], "!" + _ENCODE[k]) with k the wide entry exactly for the last three',
        floor=6,
    )
    _r14_extended_community_tables(model, run, folder)


def _r14_extended_community_tables(model: Model, run: Run, folder: Folder) -> None:
    from ..evalfn import Raised, Undecided, eval_function

    fi = model.func('exabgp.configuration.static.parser._encode')
    run.analysed(fi)
    hdr = folder.fold(ast.Name(id='_HEADER', ctx=ast.Load()), fi.module, None)
    enc = folder.fold(ast.Name(id='_ENCODE', ctx=ast.Load()), fi.module, None)
    if not isinstance(hdr, dict) or not isinstance(enc, dict):
        run.cannot('_HEADER / _ENCODE tables not folded')
        return
    params = [a.arg for a in fi.node.args.args]
    for command in ('target', 'origin'):
        for label, comps, parts, wide in (
            ('2-byte AS 65000', [65000, 100], ['65000', '100'], False),
            ('4-byte AS 70000', [70000, 100], ['70000', '100'], True),
            ('AS written 65000L', [65000, 100], ['65000L', '100'], True),
            ('IPv4 administrator', [0x01020304, 5], ['1.2.3.4', '5'], True),
        ):
            r = eval_function(folder, fi, dict(zip(params, (command, comps, parts))), outcomes=True, max_steps=400)
            if isinstance(r, (Raised, Undecided)) or not isinstance(r, tuple):
                run.cannot('_encode(%s, %s): not evaluated (%s)' % (command, label, r))
                continue
            k = command + ('4' if wide else '')
            run.check(r == (hdr[k], '!' + enc[k]), fi.qualname, '%s %s -> type octets %s layout %s' % (command, label, r[0].hex() if isinstance(r[0], bytes) else r[0], r[1]), fi.loc(), 'expected the `%s` entry of both tables (%s, !%s): a 4-octet administrator sent under the 2-octet-AS type is read by the peer as another community (target:70000:100 sent 0002 0001 1170 0064 reads target:1:292552804)' % (k, hdr[k].hex(), enc[k]))


# (function, operand) -> why the packed operand is in range although no guard shows it
PACK_TRIAGED: dict[tuple[str, str], str] = {}


def _helper_upper_bound(model: Model, folder: Folder, fi: FuncInfo, call: ast.Call):  # noqa: ANN201
    """`helper(text, 32)` where the helper returns a local it has compared with that parameter (`if v < 0 or v > maximum: raise`):
    the value of the argument; INF when nothing of the kind is found."""
    cs = [c for c in model.callees(fi.module, call, by_name=False) if c in model.funcs]
    if len(cs) != 1:
        return INF
    h = model.funcs[cs[0]]
    params = [a.arg for a in h.node.args.args]
    best = INF
    for r in walk_no_nested(h.node):
        if not (isinstance(r, ast.Return) and isinstance(r.value, ast.Name)):
            continue
        for t, pol in flat_guards(h.node, r):
            if not (isinstance(t, ast.Compare) and len(t.ops) == 1 and isinstance(t.left, ast.Name) and t.left.id == r.value.id):
                continue
            op, rhs = t.ops[0], t.comparators[0]
            bound = None
            if isinstance(rhs, ast.Name) and rhs.id in params and params.index(rhs.id) < len(call.args):
                bound = folder.fold(call.args[params.index(rhs.id)], fi.module, fi.cls)
            else:
                bound = folder.fold(rhs, h.module, h.cls)
            if not isinstance(bound, int):
                continue
            if isinstance(op, ast.Gt) and not pol:
                best = min(best, bound)
            elif isinstance(op, ast.GtE) and not pol:
                best = min(best, bound - 1)
            elif isinstance(op, ast.LtE) and pol:
                best = min(best, bound)
            elif isinstance(op, ast.Lt) and pol:
                best = min(best, bound - 1)
    return best
