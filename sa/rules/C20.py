"""C20 — healthcheck rise/fall hysteresis.  DESIGN.md 3/C20."""

from __future__ import annotations

import ast
import itertools

from ..const import Folder
from ..flow import flat_guards
from ..model import FuncInfo, Model, dotted, norm, walk_no_nested
from ..report import Run

HC = 'exabgp.application.healthcheck'
STATES = ['INIT', 'DISABLED', 'RISING', 'FALLING', 'UP', 'DOWN']


class Undecidable(Exception):
    pass


def _state_name(e: ast.AST) -> str | None:
    d = dotted(e) or ''
    if d.startswith('States.'):
        return d.split('.', 1)[1]
    return None


def eval_test(t: ast.expr, env: dict) -> bool:
    """Evaluate a test of one() under an assignment of the finite predicates."""
    if isinstance(t, ast.BoolOp):
        vals = [eval_test(v, env) for v in t.values]
        return all(vals) if isinstance(t.op, ast.And) else any(vals)
    if isinstance(t, ast.UnaryOp) and isinstance(t.op, ast.Not):
        return not eval_test(t.operand, env)
    if isinstance(t, ast.Name):
        if t.id in ('successful', 'disabled'):
            return env[t.id]
        raise Undecidable(norm(t))
    if isinstance(t, ast.Compare) and len(t.ops) == 1:
        l, r, op = t.left, t.comparators[0], t.ops[0]
        ld, rd = dotted(l) or '', dotted(r) or ''
        if ld == 'state' and _state_name(r):
            if isinstance(op, ast.Eq):
                return env['state'] == _state_name(r)
            if isinstance(op, ast.NotEq):
                return env['state'] != _state_name(r)
        if ld in ('options.rise', 'options.fall') and isinstance(r, ast.Constant) and r.value == 1 and isinstance(op, ast.LtE):
            return env[ld.split('.')[1] + '_le1']
        if ld == 'checks' and rd in ('options.rise', 'options.fall'):
            # after the increment: does the counter reach the threshold?  `>=` is the RFC-free reference form;
            # anything else is reported through the operator recorded in env
            env.setdefault('_cmp', []).append((type(op).__name__, rd))
            if isinstance(op, ast.GtE):
                return env['reach']
            if isinstance(op, ast.Gt):
                return env['reach_strict']
            raise Undecidable(norm(t))
    raise Undecidable(norm(t))


def run_one(fn: ast.FunctionDef, env: dict) -> tuple[str | None, list[str]]:
    """Walk the FSM part of one() under env; returns (trigger target or None, counter operations in order)."""
    target: list[str | None] = [None]
    ops: list[str] = []

    def block(body: list[ast.stmt]) -> None:
        for st in body:
            if isinstance(st, ast.If):
                if eval_test(st.test, env):
                    block(st.body)
                else:
                    block(st.orelse)
            elif isinstance(st, ast.Assign) and dotted(st.targets[0]) == 'state' and isinstance(st.value, ast.Call) and dotted(st.value.func) == 'trigger':
                nm = _state_name(st.value.args[0]) if st.value.args else None
                if nm is None:
                    raise Undecidable(norm(st))
                target[0] = nm
            elif isinstance(st, ast.Assign) and dotted(st.targets[0]) == 'checks':
                if isinstance(st.value, ast.Constant):
                    ops.append('=%s' % st.value.value)
                else:
                    raise Undecidable(norm(st))
            elif isinstance(st, ast.AugAssign) and dotted(st.target) == 'checks' and isinstance(st.op, ast.Add) and isinstance(st.value, ast.Constant):
                ops.append('+%s' % st.value.value)
            elif isinstance(st, ast.Raise):
                target[0] = 'RAISE'
            elif isinstance(st, (ast.Expr, ast.Pass)):
                continue
            else:
                raise Undecidable(norm(st)[:60])

    fsm = [st for st in fn.body if isinstance(st, ast.If) and 'state' in norm(st.test)]
    if not fsm:
        raise Undecidable('state machine if-chain not found')
    block([fsm[0]])
    return target[0], ops


def reference(env: dict) -> tuple[str | None, list[str]]:
    s, dis, ok = env['state'], env['disabled'], env['successful']
    if s != 'DISABLED' and dis:
        return 'DISABLED', []
    if s == 'INIT':
        if ok and env['rise_le1']:
            return 'UP', []
        return ('RISING' if ok else 'FALLING'), ['=1']
    if s == 'DISABLED':
        return (None, []) if dis else ('INIT', [])
    if s == 'RISING':
        if ok:
            return ('UP' if env['reach'] else None), ['+1']
        return 'FALLING', ['=1']
    if s == 'FALLING':
        if not ok:
            return ('DOWN' if env['reach'] else None), ['+1']
        return 'RISING', ['=1']
    if s == 'UP':
        return (None, []) if ok else ('FALLING', ['=1'])
    if s == 'DOWN':
        return ('RISING', ['=1']) if ok else (None, [])
    return None, []


def check(model: Model, run: Run) -> None:
    folder = Folder(model)
    loop = model.func(HC + '.loop')
    one = model.func(HC + '.loop.one')
    trig = model.func(HC + '.loop.trigger')
    exa = model.func(HC + '.loop.exabgp')
    for f in (loop, one, trig, exa):
        run.analysed(f)

    # ------------------------------------------------------------------ R1 transition table
    run.rule(
        'C20.R1',
        'the rise/fall automaton of one(), extracted as a complete table over state x disabled x successful x (rise<=1) x '
        '(counter reaches threshold), equals the reference: RISING/FALLING entered with counter 1, UP only from RISING after '
        '`rise` successes, DOWN only from FALLING after `fall` failures, a contrary result flips RISING<->FALLING and resets '
        'the counter, DISABLED dominates',
        floor=60,
    )
    n_cases = 0
    for state, dis, okc, r1, reach in itertools.product(STATES, (False, True), (False, True), (False, True), (False, True)):
        succ = dis or okc  # successful = disabled or check(...)
        env = {'state': state, 'disabled': dis, 'successful': succ, 'rise_le1': r1, 'fall_le1': r1, 'reach': reach, 'reach_strict': False if not reach else None}
        try:
            got = run_one(one.node, dict(env))
        except Undecidable as e:
            run.cannot('one(): shape not understood: %s' % e)
            return
        want = reference(env)
        n_cases += 1
        inst = 'state=%s disabled=%s check=%s rise<=1=%s reached=%s' % (state, dis, okc, r1, reach)
        if got == want:
            run.ok(inst, '-> %s %s' % got)
        else:
            run.violation(
                one.qualname,
                '%s: trigger %s counter %s, reference trigger %s counter %s' % (inst, got[0], got[1], want[0], want[1]),
                one.loc(),
                'the automaton deviates from rise/fall hysteresis in this cell (a counter that is not reset on a flip carries the '
                'successes counted while rising into the fall count, and the other way round)',
            )
    run.extra['table_cells'] = n_cases
    # `successful` really includes the disabled short-cut, and the comparisons are >=
    sdef = [n for n in walk_no_nested(one.node) if isinstance(n, ast.Assign) and dotted(n.targets[0]) == 'successful']
    run.check(len(sdef) == 1 and norm(sdef[0].value).startswith('disabled or check('), one.qualname, 'successful = disabled or check(...)', one.loc(), 'the table above assumes it')
    cmps = [norm(n) for n in walk_no_nested(one.node) if isinstance(n, ast.Compare) and 'checks' in norm(n)]
    run.check(sorted(cmps) == ['checks >= options.fall', 'checks >= options.rise'], one.qualname, 'threshold tests %s' % sorted(cmps), one.loc(), 'UP after exactly `rise` successes, DOWN after exactly `fall` failures (>=)')
    # the RISING branch compares with rise, the FALLING branch with fall
    for st_name, thr in (('RISING', 'options.rise'), ('FALLING', 'options.fall')):
        okb = False
        for n in walk_no_nested(one.node):
            if isinstance(n, ast.If) and norm(n.test) == 'state == States.%s' % st_name:
                okb = any(isinstance(c, ast.Compare) and norm(c) == 'checks >= %s' % thr for c in ast.walk(n))
        run.check(okb, one.qualname, '%s compares the counter with %s' % (st_name, thr), one.loc(), 'rise counts successes, fall counts failures')
    # trigger(): shortcuts
    t_txt = [norm(st) for st in trig.node.body if isinstance(st, ast.If)]
    okt = bool(t_txt) and 'target == States.RISING and options.rise <= 1' in t_txt[0] and 'target = States.UP' in t_txt[0] and 'target == States.FALLING and options.fall <= 1' in t_txt[0] and 'target = States.DOWN' in t_txt[0]
    rets = [r for r in walk_no_nested(trig.node) if isinstance(r, ast.Return)]
    run.check(okt and len(rets) == 1 and dotted(rets[0].value) == 'target', trig.qualname, 'rise<=1 / fall<=1 shortcuts, returns the target', trig.loc(), 'with rise or fall of 1 the intermediate state is skipped')
    # initial state
    init = [n for n in loop.node.body if isinstance(n, ast.Assign) and dotted(n.targets[0]) in ('checks', 'state')]
    run.check({norm(n) for n in init} == {'checks = 0', 'state = States.INIT'}, loop.qualname, 'starts in INIT with counter 0', loop.loc(), 'initial state')
    # one() announces the (possibly new) state
    calls = [c for c in walk_no_nested(one.node) if isinstance(c, ast.Call) and dotted(c.func) == 'exabgp']
    okc2 = len(calls) == 1 and dotted(calls[0].args[0]) == 'state' and [norm(t) for t, p in flat_guards(one.node, calls[0])] == ['not options.debounce or state != state_before_iteration']
    run.check(okc2, one.qualname, 'exabgp(state) on change, or every round without debounce', one.loc(), 'announcement driven by the state')

    # ------------------------------------------------------------------ R2 what is announced
    run.rule('C20.R2', 'exabgp(target) writes nothing for INIT/RISING/FALLING; announces for UP; for DOWN/DISABLED withdraws iff withdraw_on_down else announces; EXIT always withdraws; SIGTERM and KeyboardInterrupt call exabgp(EXIT) unconditionally', floor=5)
    first = exa.node.body[1] if isinstance(exa.node.body[0], ast.Expr) else exa.node.body[0]
    okf = isinstance(first, ast.If) and norm(first.test) == 'target not in (States.UP, States.DOWN, States.DISABLED, States.EXIT, States.END)' and isinstance(first.body[-1], ast.Return)
    run.check(okf, exa.qualname, 'transitional states write nothing', exa.loc(first), 'a single contrary result (RISING/FALLING) must not change what is announced')
    act = None
    for n in walk_no_nested(exa.node):
        if isinstance(n, ast.If) and norm(n.test) == 'options.withdraw_on_down or target is States.EXIT':
            act = n
    oka = act is not None and norm(act.body[0]) == "action = 'announce' if target is States.UP else 'withdraw'" and norm(act.orelse[0]) == "action = 'announce'"
    run.check(oka, exa.qualname, 'action table (UP announce; EXIT withdraw; DOWN/DISABLED withdraw iff withdraw_on_down)', exa.loc(act) if act is not None else exa.loc(), 'what is announced per state')
    wr = [c for c in walk_no_nested(exa.node) if isinstance(c, ast.Call) and dotted(c.func) == 'sys.stdout.write']
    run.check(len(wr) == 1 and norm(wr[0].args[0]) == "f'{command} {announce}\\n'", exa.qualname, 'one line per prefix: command + announce + newline', exa.loc(), 'each command is one line')
    # exits
    sig = model.func(HC + '.loop.sigterm_handler')
    run.analysed(sig)
    def calls_exit_unconditionally(body: list[ast.stmt], where: FuncInfo) -> bool:
        for st in body:
            if isinstance(st, ast.Expr) and isinstance(st.value, ast.Call):
                c = st.value
                if dotted(c.func) == 'exabgp' and c.args and dotted(c.args[0]) == 'States.EXIT':
                    return True
                # one level of helper
                h = model.funcs.get(HC + '.loop.' + (dotted(c.func) or ''))
                if h is not None and calls_exit_unconditionally(h.node.body, h):
                    return True
            if isinstance(st, (ast.If, ast.Return, ast.Raise, ast.Break)):
                return False
        return False

    run.check(calls_exit_unconditionally(sig.node.body, sig), sig.qualname, 'SIGTERM: exabgp(States.EXIT) unconditionally', sig.loc(), 'routes must be withdrawn on exit whatever the state (also while RISING or FALLING)')
    ki = None
    for n in walk_no_nested(loop.node):
        if isinstance(n, ast.ExceptHandler) and n.type is not None and 'KeyboardInterrupt' in norm(n.type):
            ki = n
    run.check(ki is not None and calls_exit_unconditionally(ki.body, loop), loop.qualname, 'KeyboardInterrupt: exabgp(States.EXIT) unconditionally', loop.loc(ki) if ki is not None else loop.loc(), 'routes must be withdrawn on exit whatever the state')

    # ------------------------------------------------------------------ R3 grammar
    run.rule('C20.R3', 'every emitted line is in the daemon grammar: "peer <sel> announce|withdraw route ..." is a path of the v6 dispatch tree, and every attribute keyword is a key of the static route parser', floor=9)
    kws = set()
    for n in walk_no_nested(exa.node):
        if isinstance(n, ast.JoinedStr):
            for v in n.values:
                if isinstance(v, ast.Constant) and isinstance(v.value, str):
                    for w in v.value.replace('[', ' ').replace(']', ' ').split():
                        kws.add(w)
        if isinstance(n, ast.Constant) and n.value in ('announce', 'withdraw', 'peer *'):
            kws.update(str(n.value).split())
    kws -= {'*', ',', 'self'}
    prefix = {'peer', 'announce', 'withdraw', 'route'}
    route_cls = model.cls('exabgp.configuration.static.route.ParseStaticRoute')
    known = route_cls.assigns.get('known')
    keys = {k.value for k in known.keys if isinstance(k, ast.Constant)} if isinstance(known, ast.Dict) else set()
    if len(keys) < 15:
        run.cannot('ParseStaticRoute.known has %d literal keys' % len(keys))
    attr_kws = sorted(kws - prefix - {'send', 'announces', 'for', 'state', 'to', 'ExaBGP', 'exabgp:', 'service', 'up,', 'restoring', 'loopback', 'and', 'ip-ifname', 'ips'})
    for k in attr_kws:
        if not k.replace('-', '').isalpha():
            continue
        run.check(k in keys, exa.qualname, 'keyword `%s` is known to the static route parser' % k, exa.loc(), 'the daemon would refuse the command')
    # dispatch path
    v6 = model.func('exabgp.reactor.api.dispatch.v6._build_v6_tree')
    txt = norm(v6.node)
    run.check("'announce': announce_cmd.v6_announce" in txt and "'withdraw': announce_cmd.v6_withdraw" in txt and 'SELECTOR_KEY: peer_selector_tree' in txt, v6.qualname, 'peer <selector> announce|withdraw reaches v6_announce / v6_withdraw', v6.loc(), 'dispatch path of the emitted prefix')
    amod = model.module('exabgp/reactor/api/command/announce.py')
    ah = amod.assigns.get('_V6_ANNOUNCE_HANDLERS')
    wh = amod.assigns.get('_V6_WITHDRAW_HANDLERS')
    okr = isinstance(ah, ast.Dict) and isinstance(wh, ast.Dict) and any(isinstance(k, ast.Constant) and k.value == 'route' for k in ah.keys) and any(isinstance(k, ast.Constant) and k.value == 'route' for k in wh.keys)
    run.check(okr, 'exabgp.reactor.api.command.announce', '`route` handled for announce and withdraw', 'src/' + amod.rel, 'the route sub-command must exist')
    # prefix built from neighbors
    ptxt = norm(exa.node)
    run.check("', '.join((f'peer {neighbor}' for neighbor in options.neighbors))" in ptxt and "prefix = 'peer *'" in ptxt, exa.qualname, 'selector prefix: peer <neighbor>[, peer <neighbor>] or peer *', exa.loc(), 'selector syntax')
    # metric / state options
    run.check("vars(options).get(f'{target.value.lower()}_metric', 0)" in ptxt and 'metric += options.increase' in ptxt and "f'{announce} med {metric}'" in ptxt, exa.qualname, 'med = <state>_metric, increased per prefix', exa.loc(), 'the configured metric of the state is announced')
