"""C20 — healthcheck rise/fall hysteresis.  DESIGN.md 3/C20."""

from __future__ import annotations

import ast
import itertools

from ..alpha import Loc, amatch
from ..const import UNKNOWN, Folder
from ..flow import flat_guards
from ..model import FuncInfo, Model, dotted, norm, walk_no_nested
from ..report import Run

HC = 'exabgp.application.healthcheck'
STATES = ['INIT', 'DISABLED', 'RISING', 'FALLING', 'UP', 'DOWN']


class Undecidable(Exception):
    pass


def _state_name(e: ast.AST) -> str | None:
    d = dotted(e) or ''
    if d.startswith('States.'):
        return d.split('.', 1)[1]
    return None


def eval_test(t: ast.expr, env: dict) -> bool:
    """Evaluate a test of one() under an assignment of the finite predicates.  env['_roles'] says which local is the
    state, the counter, the success flag and the disabled flag (found by dataflow, see roles_of_one)."""
    R = env['_roles']
    if isinstance(t, ast.BoolOp):
        vals = [eval_test(v, env) for v in t.values]
        return all(vals) if isinstance(t.op, ast.And) else any(vals)
    if isinstance(t, ast.UnaryOp) and isinstance(t.op, ast.Not):
        return not eval_test(t.operand, env)
    if isinstance(t, ast.Name):
        if t.id == R['successful']:
            return env['successful']
        if t.id == R['disabled']:
            return env['disabled']
        raise Undecidable(norm(t))
    if isinstance(t, ast.Compare) and len(t.ops) == 1:
        l, r, op = t.left, t.comparators[0], t.ops[0]
        ld, rd = dotted(l) or '', dotted(r) or ''
        if ld == R['state'] and _state_name(r):
            if isinstance(op, ast.Eq):
                return env['state'] == _state_name(r)
            if isinstance(op, ast.NotEq):
                return env['state'] != _state_name(r)
        if ld in ('options.rise', 'options.fall') and isinstance(r, ast.Constant) and r.value == 1 and isinstance(op, ast.LtE):
            return env[ld.split('.')[1] + '_le1']
        if ld == R['counter'] and rd in ('options.rise', 'options.fall'):
            # after the increment: does the counter reach the threshold?  `>=` is the RFC-free reference form;
            # anything else is reported through the operator recorded in env
            env.setdefault('_cmp', []).append((type(op).__name__, rd))
            if isinstance(op, ast.GtE):
                return env['reach']
            if isinstance(op, ast.Gt):
                return env['reach_strict']
            raise Undecidable(norm(t))
    raise Undecidable(norm(t))


def run_one(fn: ast.FunctionDef, env: dict) -> tuple[str | None, list[str]]:
    """Walk the FSM part of one() under env; returns (trigger target or None, counter operations in order)."""
    target: list[str | None] = [None]
    ops: list[str] = []
    R = env['_roles']

    def block(body: list[ast.stmt]) -> None:
        for st in body:
            if isinstance(st, ast.If):
                if eval_test(st.test, env):
                    block(st.body)
                else:
                    block(st.orelse)
            elif isinstance(st, ast.Assign) and dotted(st.targets[0]) == R['state'] and isinstance(st.value, ast.Call) and dotted(st.value.func) == 'trigger':
                a0 = st.value.args[0] if st.value.args else None
                while isinstance(a0, ast.IfExp):
                    a0 = a0.body if eval_test(a0.test, env) else a0.orelse
                nm = _state_name(a0) if a0 is not None else None
                if nm is None:
                    raise Undecidable(norm(st))
                target[0] = nm
            elif isinstance(st, ast.Assign) and dotted(st.targets[0]) == R['counter']:
                if isinstance(st.value, ast.Constant):
                    ops.append('=%s' % st.value.value)
                else:
                    raise Undecidable(norm(st))
            elif isinstance(st, ast.AugAssign) and dotted(st.target) == R['counter'] and isinstance(st.op, ast.Add) and isinstance(st.value, ast.Constant):
                ops.append('+%s' % st.value.value)
            elif isinstance(st, ast.Raise):
                target[0] = 'RAISE'
            elif isinstance(st, (ast.Expr, ast.Pass)):
                continue
            else:
                raise Undecidable(norm(st)[:60])

    fsm = [st for st in fn.body if isinstance(st, ast.If) and R['state'] in {x.id for x in ast.walk(st.test) if isinstance(x, ast.Name)}]
    if not fsm:
        raise Undecidable('state machine if-chain not found')
    block([fsm[0]])
    return target[0], ops


def reference(env: dict) -> tuple[str | None, list[str]]:
    s, dis, ok = env['state'], env['disabled'], env['successful']
    if s != 'DISABLED' and dis:
        return 'DISABLED', []
    if s == 'INIT':
        if ok and env['rise_le1']:
            return 'UP', []
        return ('RISING' if ok else 'FALLING'), ['=1']
    if s == 'DISABLED':
        return (None, []) if dis else ('INIT', [])
    if s == 'RISING':
        if ok:
            return ('UP' if env['reach'] else None), ['+1']
        return 'FALLING', ['=1']
    if s == 'FALLING':
        if not ok:
            return ('DOWN' if env['reach'] else None), ['+1']
        return 'RISING', ['=1']
    if s == 'UP':
        return (None, []) if ok else ('FALLING', ['=1'])
    if s == 'DOWN':
        return ('RISING', ['=1']) if ok else (None, [])
    return None, []


def check(model: Model, run: Run) -> None:
    folder = Folder(model)
    loop = model.func(HC + '.loop')
    one = model.func(HC + '.loop.one')
    trig = model.func(HC + '.loop.trigger')
    exa = model.func(HC + '.loop.exabgp')
    for f in (loop, one, trig, exa):
        run.analysed(f)

    # ------------------------------------------------------------------ R1 transition table
    run.rule(
        'C20.R1',
        'the rise/fall automaton of one(), extracted as a complete table over state x disabled x successful x (rise<=1) x '
        '(counter reaches threshold), equals the reference: RISING/FALLING entered with counter 1, UP only from RISING after '
        '`rise` successes, DOWN only from FALLING after `fall` failures, a contrary result flips RISING<->FALLING and resets '
        'the counter, DISABLED dominates',
        floor=60,
    )
    # one(counter, state) - with the trigger() it calls - is RUN on the syntax tree (sa/evalfn.py) for every cell of
    # state x disable file x check result x counter x (rise, fall) x debounce, and compared with the reference automaton:
    # how the branches are nested, merged or named does not matter
    from ..evalfn import EnumMember, Raised, Undecided, eval_function

    op_ = [a.arg for a in one.node.args.args]
    tp = trig.node.args.args[0].arg if trig.node.args.args else '?'
    if len(op_) != 2:
        run.cannot('one(): counter / state parameters not found')
        return

    def reference(state: str, dis: bool, okc: bool, cnt: int, rise: int, fall: int) -> tuple[int, str]:
        ok = dis or okc

        def tr(t: str) -> str:
            return 'UP' if t == 'RISING' and rise <= 1 else 'DOWN' if t == 'FALLING' and fall <= 1 else t

        if state != 'DISABLED' and dis:
            return cnt, tr('DISABLED')
        if state == 'INIT':
            if ok and rise <= 1:
                return cnt, tr('UP')
            return (1, tr('RISING')) if ok else (1, tr('FALLING'))
        if state == 'DISABLED':
            return (cnt, tr('INIT')) if not dis else (cnt, state)
        if state == 'RISING':
            if ok:
                return (cnt + 1, tr('UP')) if cnt + 1 >= rise else (cnt + 1, state)
            return 1, tr('FALLING')
        if state == 'FALLING':
            if not ok:
                return (cnt + 1, tr('DOWN')) if cnt + 1 >= fall else (cnt + 1, state)
            return 1, tr('RISING')
        if state == 'UP':
            return (1, tr('FALLING')) if not ok else (cnt, state)
        return (1, tr('RISING')) if ok else (cnt, state)  # DOWN

    def run_trigger(target: str, opts: dict):  # noqa: ANN202
        r_ = eval_function(folder, trig, {tp: EnumMember(target), 'options': opts}, outcomes=True, max_steps=300, on_effect=lambda c_, e_: True)
        return r_

    n_cases = 0
    undecided = None
    for state, dis, okc, cnt, (rise, fall), deb in itertools.product(STATES, (False, True), (False, True), (0, 1, 2, 5), ((1, 1), (3, 3), (1, 3), (3, 1)), (False, True)):
        opts = {'disable': '/run/disable' if dis else None, 'rise': rise, 'fall': fall, 'debounce': deb, 'command': 'true', 'timeout': 5, 'execute': [], 'fast': 1, 'interval': 5}
        opts.update({'%s_execute' % k_.lower(): [] for k_ in ('UP', 'DOWN', 'DISABLED', 'RISING', 'FALLING', 'INIT', 'EXIT', 'END')})
        announced: list = []
        envd: dict = {}

        def unknown(e_: ast.AST, opts=opts, dis=dis, okc=okc, envd=envd):  # noqa: ANN202
            t_ = norm(e_)
            if isinstance(e_, ast.Call) and dotted(e_.func) == 'trigger' and e_.args:
                tg = folder.fold(e_.args[0], one.module, one.cls, envd)
                r_ = run_trigger(tg, opts) if isinstance(tg, str) else UNKNOWN
                return EnumMember(r_) if isinstance(r_, str) else UNKNOWN
            if 'os.path.exists' in t_:
                return dis if isinstance(e_, ast.Call) else (opts['disable'] is not None and dis)
            if isinstance(e_, ast.Call) and dotted(e_.func) == 'check':
                return okc
            if isinstance(e_, ast.BoolOp) and 'check(' in t_ and isinstance(e_.op, ast.Or):
                return bool(dis or okc)
            return UNKNOWN

        def effect(c_: ast.Call, env_: dict, announced=announced) -> bool:
            if dotted(c_.func) == 'exabgp' and c_.args:
                announced.append(folder.fold(c_.args[0], one.module, one.cls, env_))
                return True
            return (dotted(c_.func) or '').startswith('logger.')

        r = eval_function(folder, one, {op_[0]: cnt, op_[1]: EnumMember(state), 'options': opts}, outcomes=True, max_steps=400, on_unknown=unknown, on_effect=effect, env_out=envd)
        inst = 'state=%s disable-file=%s check=%s counter=%d rise=%d fall=%d debounce=%s' % (state, dis, okc, cnt, rise, fall, deb)
        if isinstance(r, (Undecided, Raised)) or not (isinstance(r, tuple) and len(r) == 2):
            undecided = '%s: %s' % (inst, r)
            continue
        n_cases += 1
        want = reference(state, dis, okc, cnt, rise, fall)
        got = (r[0], str(r[1]))
        want_ann = [want[1]] if (not deb or want[1] != state) else []
        if got == want and [str(x) for x in announced] == want_ann:
            run.ok(inst, '-> %s' % (got,))
        else:
            run.violation(one.qualname, '%s: (counter, state) %s announced %s, reference %s announced %s' % (inst, got, [str(x) for x in announced], want, want_ann), one.loc(), 'the automaton deviates from rise/fall hysteresis in this cell: UP only after `rise` consecutive successes, DOWN only after `fall` consecutive failures, a contrary result flips RISING <-> FALLING and restarts the count at 1, the disable file dominates, rise / fall of 1 skip the intermediate state; the state is announced on a change, or every round without --debounce')
    run.extra['table_cells'] = n_cases
    if undecided is not None:
        run.cannot('one(): not evaluated for %s' % undecided)
    # initial state
    ll = Loc(model, loop)
    oc = [c for c in walk_no_nested(loop.node) if isinstance(c, ast.Call) and dotted(c.func) == 'one' and len(c.args) == 2]
    init_ok = False
    if oc:
        c0, s0 = (dotted(a) or '?' for a in oc[0].args)
        first_c = ll.defs.get(c0, [(None, '', None)])[0][0]
        first_s = ll.defs.get(s0, [(None, '', None)])[0][0]
        init_ok = folder.fold(first_c, loop.module) == 0 and dotted(first_s) == 'States.INIT' if first_c is not None and first_s is not None else False
    run.check(init_ok, loop.qualname, 'starts in INIT with counter 0', loop.loc(), 'initial state')
    # ------------------------------------------------------------------ R2 what is announced
    run.rule('C20.R2', 'exabgp(target) writes nothing for INIT/RISING/FALLING; announces for UP; for DOWN/DISABLED withdraws iff withdraw_on_down else announces; EXIT always withdraws; SIGTERM and KeyboardInterrupt call exabgp(EXIT) unconditionally', floor=5)
    # what exabgp(target) does, as a table over target x withdraw_on_down, by walking the function with the tests on the
    # target evaluated and every other test taken both ways (such a branch must not decide the action or return)
    tpar = exa.node.args.args[0].arg if exa.node.args.args else '?'
    xl = Loc(model, exa)
    actions = xl.from_value(lambda v: any(isinstance(x, ast.Constant) and x.value in ('announce', 'withdraw') for x in ast.walk(v)) and not isinstance(v, ast.JoinedStr))
    ALL = ['INIT', 'DISABLED', 'RISING', 'FALLING', 'UP', 'DOWN', 'EXIT', 'END']

    comm_vars = set(xl.from_value(lambda v: dotted(v) in ('options.community', 'options.disabled_community')))
    CUR: dict = {}

    def ev(t: ast.expr, tgt: str, wod: bool):
        """True / False / None (does not depend on the target, withdraw_on_down or the community options)"""
        if isinstance(t, ast.BoolOp):
            vals = [ev(v, tgt, wod) for v in t.values]
            if isinstance(t.op, ast.And):
                return False if any(v is False for v in vals) else (None if any(v is None for v in vals) else True)
            return True if any(v is True for v in vals) else (None if any(v is None for v in vals) else False)
        if isinstance(t, ast.UnaryOp) and isinstance(t.op, ast.Not):
            v = ev(t.operand, tgt, wod)
            return None if v is None else not v
        if dotted(t) == 'options.withdraw_on_down':
            return wod
        if dotted(t) in ('options.community', 'options.disabled_community') and 'opts' in CUR:
            return CUR['opts'][dotted(t).split('.')[1]]
        if isinstance(t, ast.Name) and t.id in comm_vars and 'opts' in CUR:
            return CUR['opts'].get(CUR.get('comm'), False)
        if isinstance(t, ast.Compare) and len(t.ops) == 1 and isinstance(t.ops[0], (ast.Eq, ast.NotEq)) and dotted(t.left) in actions and isinstance(t.comparators[0], ast.Constant) and 'action' in CUR:
            return (CUR['action'] == t.comparators[0].value) == isinstance(t.ops[0], ast.Eq)
        if isinstance(t, ast.Name) and xl.single(t.id) is not None:
            return ev(xl.single(t.id), tgt, wod)
        if isinstance(t, ast.Compare) and len(t.ops) == 1 and dotted(t.left) == tpar:
            op, r = t.ops[0], t.comparators[0]
            if isinstance(op, (ast.In, ast.NotIn)) and isinstance(r, ast.Name) and isinstance(exa.module.assigns.get(r.id), (ast.Tuple, ast.List, ast.Set)):
                r = exa.module.assigns[r.id]  # a module-level tuple of states
            if isinstance(op, (ast.In, ast.NotIn)) and isinstance(r, (ast.Tuple, ast.List, ast.Set)):
                names = [_state_name(e) for e in r.elts]
                if None in names:
                    return None
                return (tgt in names) == isinstance(op, ast.In)
            nm = _state_name(r)
            if nm is not None and isinstance(op, (ast.Is, ast.Eq)):
                return tgt == nm
            if nm is not None and isinstance(op, (ast.IsNot, ast.NotEq)):
                return tgt != nm
        return None

    def value(e: ast.expr, tgt: str, wod: bool) -> str | None:
        while isinstance(e, ast.IfExp):
            v = ev(e.test, tgt, wod)
            if v is None:
                return None
            e = e.body if v else e.orelse
        return e.value if isinstance(e, ast.Constant) and isinstance(e.value, str) else None

    def walk_x(body: list[ast.stmt], tgt: str, wod: bool, st_: dict) -> bool:
        """returns True when the function returned; st_['action'] is the action in force, st_['wrote'] the actions written"""
        for st in body:
            if isinstance(st, ast.Return):
                return True
            if isinstance(st, ast.If):
                v = ev(st.test, tgt, wod)
                if v is None:
                    for br in (st.body, st.orelse):
                        for x in br:
                            for y in ast.walk(x):
                                if isinstance(y, ast.Return) or (isinstance(y, ast.Assign) and dotted(y.targets[0]) in actions):
                                    raise Undecidable('a test that does not read the target decides the action: %s' % norm(st.test)[:60])
                        walk_x(br, tgt, wod, st_)
                    continue
                if walk_x(st.body if v else st.orelse, tgt, wod, st_):
                    return True
            elif isinstance(st, (ast.For, ast.While)):
                if walk_x(st.body, tgt, wod, st_):
                    return True
            elif isinstance(st, (ast.Assign, ast.AnnAssign)) and dotted(st.targets[0] if isinstance(st, ast.Assign) else st.target) in actions:
                a = value(st.value, tgt, wod)
                if a is None:
                    raise Undecidable('action value not understood: %s' % norm(st.value)[:60])
                st_['action'] = a
                CUR['action'] = a
            elif isinstance(st, (ast.Assign, ast.AnnAssign)) and st.value is not None and dotted(st.targets[0] if isinstance(st, ast.Assign) else st.target) in comm_vars:
                e = st.value
                while isinstance(e, ast.IfExp):
                    v = ev(e.test, tgt, wod)
                    if v is None:
                        break
                    e = e.body if v else e.orelse
                d = dotted(e) or ''
                if d in ('options.community', 'options.disabled_community'):
                    CUR['comm'] = d.split('.')[1]
                elif isinstance(e, ast.Name) and e.id in comm_vars:
                    pass
                else:
                    CUR['comm'] = None
            elif isinstance(st, ast.Assign) and isinstance(st.value, ast.JoinedStr) and any(isinstance(v, ast.Constant) and str(v.value).endswith(' community [ ') and not str(v.value).endswith('-community [ ') for v in st.value.values):
                st_.setdefault('emitted', set()).add(CUR.get('comm'))
            elif isinstance(st, ast.Expr) and isinstance(st.value, ast.Call) and dotted(st.value.func) == 'sys.stdout.write':
                st_['wrote'].add(st_.get('action'))
            elif isinstance(st, (ast.Continue, ast.Break)):
                return False
        return False

    def want_action(tgt: str, wod: bool) -> set:
        if tgt in ('INIT', 'RISING', 'FALLING', 'END'):
            return set()
        if tgt == 'UP':
            return {'announce'}
        if tgt == 'EXIT':
            return {'withdraw'}
        return {'withdraw'} if wod else {'announce'}

    def want_comm(tgt: str, wod: bool, c: bool, d: bool) -> set:
        if want_action(tgt, wod) != {'announce'}:
            return set()
        if tgt in ('DOWN', 'DISABLED') and d:
            return {'disabled_community'}
        return {'community'} if c else set()

    # (which community an announcement carries is decided with the lines themselves: C20.R3 evaluates exabgp() for the four
    # combinations of --community / --disabled-community in every state)
    CUR.clear()
    if len(actions) != 1:
        run.cannot('exabgp(): the local holding the action (announce / withdraw) was not found')
    else:
        for tgt in ALL:
            for wod in (False, True):
                stt = {'wrote': set()}
                try:
                    walk_x(exa.node.body, tgt, wod, stt)
                except Undecidable as e:
                    run.cannot('exabgp(): %s' % e)
                    break
                got_a = {a for a in stt['wrote']}
                run.check(got_a == want_action(tgt, wod), exa.qualname, 'target=%s withdraw_on_down=%s writes %s' % (tgt, wod, sorted(map(str, got_a)) or 'nothing'), exa.loc(), 'transitional states write nothing; UP announces; EXIT withdraws; DOWN/DISABLED withdraw iff withdraw_on_down else announce (expected %s)' % (sorted(want_action(tgt, wod)) or 'nothing'))
    wr = [c for c in walk_no_nested(exa.node) if isinstance(c, ast.Call) and dotted(c.func) == 'sys.stdout.write']
    run.check(len(wr) == 1 and isinstance(wr[0].args[0], ast.JoinedStr) and isinstance(wr[0].args[0].values[-1], ast.Constant) and wr[0].args[0].values[-1].value == '\n' and sum(1 for v in wr[0].args[0].values if isinstance(v, ast.Constant) and '\n' in str(v.value)) == 1, exa.qualname, 'one line per prefix: command + announce + newline', exa.loc(), 'each command is one line')
    # exits
    sig = model.func(HC + '.loop.sigterm_handler')
    run.analysed(sig)
    def calls_exit_unconditionally(body: list[ast.stmt], where: FuncInfo) -> bool:
        for st in body:
            if isinstance(st, ast.Expr) and isinstance(st.value, ast.Call):
                c = st.value
                if dotted(c.func) == 'exabgp' and c.args and dotted(c.args[0]) == 'States.EXIT':
                    return True
                # one level of helper
                h = model.funcs.get(HC + '.loop.' + (dotted(c.func) or ''))
                if h is not None and calls_exit_unconditionally(h.node.body, h):
                    return True
            if isinstance(st, (ast.If, ast.Return, ast.Raise, ast.Break)):
                return False
        return False

    run.check(calls_exit_unconditionally(sig.node.body, sig), sig.qualname, 'SIGTERM: exabgp(States.EXIT) unconditionally', sig.loc(), 'routes must be withdrawn on exit whatever the state (also while RISING or FALLING)')
    ki = None
    for n in walk_no_nested(loop.node):
        if isinstance(n, ast.ExceptHandler) and n.type is not None and 'KeyboardInterrupt' in norm(n.type):
            ki = n
    run.check(ki is not None and calls_exit_unconditionally(ki.body, loop), loop.qualname, 'KeyboardInterrupt: exabgp(States.EXIT) unconditionally', loop.loc(ki) if ki is not None else loop.loc(), 'routes must be withdrawn on exit whatever the state')

    # ------------------------------------------------------------------ R3 grammar
    run.rule('C20.R3', 'every emitted line is in the daemon grammar: "peer <sel> announce|withdraw route ..." is a path of the v6 dispatch tree, and every attribute keyword is a key of the static route parser', floor=9)
    kws = set()
    for n in walk_no_nested(exa.node):
        if isinstance(n, ast.JoinedStr):
            for v in n.values:
                if isinstance(v, ast.Constant) and isinstance(v.value, str):
                    for w in v.value.replace('[', ' ').replace(']', ' ').split():
                        kws.add(w)
        if isinstance(n, ast.Constant) and n.value in ('announce', 'withdraw', 'peer *'):
            kws.update(str(n.value).split())
    kws -= {'*', ',', 'self'}
    prefix = {'peer', 'announce', 'withdraw', 'route'}
    route_cls = model.cls('exabgp.configuration.static.route.ParseStaticRoute')
    known = route_cls.assigns.get('known')
    keys = {k.value for k in known.keys if isinstance(k, ast.Constant)} if isinstance(known, ast.Dict) else set()
    if len(keys) < 15:
        run.cannot('ParseStaticRoute.known has %d literal keys' % len(keys))
    attr_kws = sorted(kws - prefix - {'send', 'announces', 'for', 'state', 'to', 'ExaBGP', 'exabgp:', 'service', 'up,', 'restoring', 'loopback', 'and', 'ip-ifname', 'ips'})
    for k in attr_kws:
        if not k.replace('-', '').isalpha():
            continue
        run.check(k in keys, exa.qualname, 'keyword `%s` is known to the static route parser' % k, exa.loc(), 'the daemon would refuse the command')
    # dispatch path
    v6 = model.func('exabgp.reactor.api.dispatch.v6._build_v6_tree')
    txt = norm(v6.node)
    run.check("'announce': announce_cmd.v6_announce" in txt and "'withdraw': announce_cmd.v6_withdraw" in txt and 'SELECTOR_KEY: peer_selector_tree' in txt, v6.qualname, 'peer <selector> announce|withdraw reaches v6_announce / v6_withdraw', v6.loc(), 'dispatch path of the emitted prefix')
    amod = model.module('exabgp/reactor/api/command/announce.py')
    ah = amod.assigns.get('_V6_ANNOUNCE_HANDLERS')
    wh = amod.assigns.get('_V6_WITHDRAW_HANDLERS')
    okr = isinstance(ah, ast.Dict) and isinstance(wh, ast.Dict) and any(isinstance(k, ast.Constant) and k.value == 'route' for k in ah.keys) and any(isinstance(k, ast.Constant) and k.value == 'route' for k in wh.keys)
    run.check(okr, 'exabgp.reactor.api.command.announce', '`route` handled for announce and withdraw', 'src/' + amod.rel, 'the route sub-command must exist')
    # prefix built from neighbors
    ptxt = norm(exa.node)
    star = {dotted(n.targets[0]) for n in walk_no_nested(exa.node) if isinstance(n, ast.Assign) and isinstance(n.value, ast.Constant) and n.value.value == 'peer *'}
    # the selector is evaluated for one, two and three neighbors: `peer <n>`, or ONE bracketed selector whose tokens stand
    # apart (`peer [ a , b ]`, what dispatch.common._parse_bracket_selector reads) - `peer a, peer b` is not a v6 command
    from ..evalfn import eval_function

    pre = sorted(star)
    good = bool(pre)
    shown = []
    for neighbors in (['192.0.2.1'], ['192.0.2.1', '192.0.2.2'], ['192.0.2.1', '2001:db8::2', '192.0.2.3']):
        envx: dict = {}
        eval_function(folder, exa, {'options': {'neighbors': neighbors}}, env_out=envx, outcomes=True, body=_prefix_statements(exa, pre[0] if pre else '?'))
        got = envx.get(pre[0]) if pre else None
        shown.append(got)
        toks = got.split() if isinstance(got, str) else []
        if len(neighbors) == 1:
            good = good and toks == ['peer', neighbors[0]]
        else:
            want = ['peer', '[']
            for k, nb in enumerate(neighbors):
                want += ([','] if k else []) + [nb]
            good = good and toks == want + [']']
    run.check(good, exa.qualname, 'selector prefix for 1 / 2 / 3 neighbors: %s' % shown, exa.loc(), 'the v6 dispatcher reads `peer <address>` or one bracketed list `peer [ a , b ]` (tokens apart); `peer a, peer b announce ...` is answered "unknown command: peer" and the route is never announced')
    # what is written, for every state: exabgp(target) is evaluated on the syntax tree for option sets and states, the lines it
    # hands to sys.stdout.write are parsed and compared with what the options ask for
    _r3_lines(model, run, folder, exa, tpar)


def _prefix_statements(exa, name: str) -> list[ast.stmt]:  # noqa: ANN001
    """the statement(s) of exabgp() that bind the selector prefix: the first top-level statement (of the function or of a
    loop body in it) that assigns it, with its branches"""
    def find(body: list[ast.stmt]) -> list[ast.stmt] | None:
        for st in body:
            if any(isinstance(x, ast.Assign) and any(isinstance(t, ast.Name) and t.id == name for t in x.targets) for x in ast.walk(st)):
                if isinstance(st, (ast.If, ast.Assign)):
                    return [st]
                for f in ('body', 'orelse'):
                    r = find(getattr(st, f, []) or [])
                    if r:
                        return r
        return None

    return find(exa.node.body) or []


def _parse_line(line: str) -> dict | None:
    """`peer <sel> announce|withdraw route <prefix> key value|[ list ] ...` -> {'action':..., 'route':..., key: value}"""
    toks = line.split()
    if len(toks) < 5 or toks[0] != 'peer':
        return None
    i = 1
    if toks[i] == '[':
        while i < len(toks) and toks[i] != ']':
            i += 1
    i += 1
    if i + 2 >= len(toks) or toks[i] not in ('announce', 'withdraw') or toks[i + 1] != 'route':
        return None
    out = {'action': toks[i], 'route': toks[i + 2]}
    i += 3
    while i < len(toks):
        key = toks[i]
        if i + 1 >= len(toks) or key in out:
            return None
        if toks[i + 1] == '[':
            j = i + 2
            vals = []
            while j < len(toks) and toks[j] != ']':
                vals.append(toks[j])
                j += 1
            if j >= len(toks):
                return None
            out[key] = ' '.join(vals)
            i = j + 1
        else:
            out[key] = toks[i + 1]
            i += 2
    return out


def _r3_lines(model: Model, run: Run, folder: Folder, exa, tpar: str) -> None:  # noqa: ANN001
    from ..evalfn import EnumMember, Raised, Undecided, eval_function

    ips = ['203.0.113.1/32', '203.0.113.2/32', '2001:db8::1/128']
    base = {
        'ips': ips, 'ip_ifnames': {}, 'label': None, 'label_exact_match': False, 'sudo': False, 'ip_dynamic': False, 'ip_setup': False,
        'next_hop': None, 'up_metric': 100, 'down_metric': 1000, 'disabled_metric': 500, 'increase': 10, 'local_preference': -1,
        'community': None, 'disabled_community': None, 'extended_community': None, 'large_community': None, 'as_path': None,
        'up_as_path': None, 'down_as_path': None, 'disabled_as_path': None, 'path_id': None, 'neighbors': None, 'withdraw_on_down': False,
        'no_ack': True,
    }
    variants = {
        'defaults': {},
        'attributes': {'next_hop': '192.0.2.254', 'local_preference': 200, 'community': '65000:1', 'disabled_community': '65000:666', 'extended_community': 'target:65000:1', 'large_community': '65000:1:2', 'as_path': '65001 65002', 'down_as_path': '65001 65001 65002', 'path_id': 7},
        'withdraw on down, path id': {'withdraw_on_down': True, 'path_id': 7, 'community': '65000:1'},
        'state as-path only': {'up_as_path': '65010', 'disabled_as_path': '65030 65030'},
        'community only': {'community': '65000:1'},
        'disabled community only': {'disabled_community': '65000:666'},
        'both communities, withdraw on down': {'community': '65000:1', 'disabled_community': '65000:666', 'withdraw_on_down': True},
        'generic as-path only': {'as_path': '65001'},
    }

    def ignore(call: ast.Call, env: dict, sink: list) -> bool:
        d = dotted(call.func) or ''
        if d == 'sys.stdout.write' and call.args:
            v = folder.fold(call.args[0], exa.module, exa.cls, env)
            sink.append(v)
            return True
        return d.startswith('logger.') or d in ('sys.stdout.flush', 'sys.stdin.readline', 'setup_ips', 'remove_ips', 'time.sleep')

    n = 0
    for vname, delta in variants.items():
        opts = dict(base, **delta)
        for state in ('UP', 'DOWN', 'DISABLED', 'EXIT', 'INIT', 'RISING', 'FALLING', 'END'):
            sink: list = []
            r = eval_function(folder, exa, {tpar: EnumMember(state), 'options': opts}, outcomes=True, max_steps=2000, on_effect=lambda c, e, sink=sink: ignore(c, e, sink), on_unknown=lambda e: (False if 'isatty' in norm(e) else UNKNOWN))
            inst = 'exabgp(%s) with %s' % (state, vname)
            if isinstance(r, (Undecided, Raised)) or any(not isinstance(x, str) for x in sink):
                run.cannot('%s: not evaluated (%s, %d lines)' % (inst, r, len(sink)))
                continue
            n += 1
            lines = [x for x in ''.join(sink).split('\n') if x]
            if state in ('INIT', 'RISING', 'FALLING', 'END'):
                run.check(not lines, exa.qualname, '%s writes nothing' % inst, exa.loc(), 'no announcement changes before the rise / fall count is reached: wrote %s' % lines[:2])
                continue
            withdraw = state == 'EXIT' or (opts['withdraw_on_down'] and state != 'UP')
            want = []
            key = {'UP': 'up', 'DOWN': 'down', 'DISABLED': 'disabled'}.get(state)
            for k, ip in enumerate(ips):
                w = {'action': 'withdraw' if withdraw else 'announce', 'route': ip, 'next-hop': opts['next_hop'] or 'self'}
                if not withdraw:
                    w['med'] = str(opts[key + '_metric'] + k * opts['increase'])
                    if opts['local_preference'] >= 0:
                        w['local-preference'] = str(opts['local_preference'])
                    comm = opts['disabled_community'] if state in ('DOWN', 'DISABLED') and opts['disabled_community'] else opts['community']
                    if comm:
                        w['community'] = comm
                    if opts['extended_community']:
                        w['extended-community'] = opts['extended_community']
                    if opts['large_community']:
                        w['large-community'] = opts['large_community']
                    ap = opts.get(key + '_as_path') or opts['as_path']
                    if ap:
                        w['as-path'] = ap
                if opts['path_id']:
                    w['path-information'] = str(opts['path_id'])
                want.append(w)
            got = [_parse_line(x) for x in lines]
            diff = next((('line %d' % (i + 1), g, w) for i, (g, w) in enumerate(zip(got, want)) if g != w), None)
            if diff is None and len(got) != len(want):
                diff = ('%d lines for %d addresses' % (len(got), len(want)), None, None)
            run.check(diff is None, exa.qualname, '%s: %d lines carry the configured values' % (inst, len(lines)), exa.loc(), 'each route is written with the action of the state, its next hop, the metric of the state increased per address, the communities / AS path of the state and - announce and withdraw alike, the Adj-RIB-Out is keyed on it - its path-information: %s wrote %s, expected %s' % (diff[0] if diff else '', diff[1] if diff else '', diff[2] if diff else ''))
    if n < 20:
        run.cannot('exabgp(): only %d of %d (state, options) cases evaluated' % (n, len(variants) * 8))
