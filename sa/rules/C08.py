"""C08 — malformed attributes never yield announced routes (RFC 7606).  DESIGN.md 3/C08."""

from __future__ import annotations

import ast

from ..alpha import Loc, afind, amatch
from ..cfg import CFG
from ..const import UNKNOWN, Folder
from ..flow import Slicer, always_exits, flat_guards, guards, parent_map
from ..model import Model, dotted, norm, walk_no_nested
from ..report import Run
from .. import registry
from . import common

PARSE = 'exabgp.bgp.message.update.attribute.collection.AttributeCollection.parse'
ATTR_UNPACK = 'exabgp.bgp.message.update.attribute.collection.AttributeCollection.unpack'
PAYLOAD = 'exabgp.bgp.message.update.collection.UpdateCollection._parse_payload'

# the chain between the attribute walk and the two announce sinks (API message, Adj-RIB-In)
CHAIN = [
    PAYLOAD,
    'exabgp.bgp.message.update.collection.UpdateCollection.unpack_message',
    'exabgp.bgp.message.update.Update.parse',
    'exabgp.bgp.message.update.Update.unpack_message',
    'exabgp.bgp.message.message.Message.unpack',
    'exabgp.reactor.protocol.Protocol.read_message',
]


def _mentions_marker(model: Model, folder: Folder, fi, expr: ast.AST, marker: str) -> bool:
    # a test hoisted into a local (`flag = MARKER in attributes; if flag:`) is the same test
    expr = Loc(model, fi).expanded(expr)
    for n in ast.walk(expr):
        if isinstance(n, ast.Attribute) and n.attr == marker:
            return True
        if isinstance(n, ast.Attribute) and n.attr == 'ID':
            d = dotted(n)
            if d and d.split('.')[0] in ('TreatAsWithdraw',) and marker == 'INTERNAL_TREAT_AS_WITHDRAW':
                return True
            if d and d.split('.')[0] in ('Discard',) and marker == 'INTERNAL_DISCARD':
                return True
    return False


def check(model: Model, run: Run) -> None:
    folder = Folder(model)
    # ------------------------------------------------------------------ R8 a malformed block is not answered from the memo
    run.rule('C08.R8', 'a block decoded as malformed (treat-as-withdraw) neither enters the one-entry block memo nor leaves its key pointing at an older collection (shared with C19.R1b)', floor=2)
    _r8_cache(model, run, folder)
    parse = model.func(PARSE)
    mod = parse.module
    run.analysed(parse)

    # ------------------------------------------------------------------ R1
    run.rule(
        'C08.R1',
        'every TreatAsWithdraw marker produced by AttributeCollection.parse is consumed on the chain to the announce '
        'sinks: some function of the chain tests INTERNAL_TREAT_AS_WITHDRAW and, under that test, empties/moves the '
        'announce list, or raises',
        floor=1,
    )
    producers = []
    for c in model.calls_to(mod, parse.node, 'AttributeCollection.add'):
        if c.args and isinstance(c.args[0], ast.Call) and model.call_matches(mod, c.args[0], 'TreatAsWithdraw'):
            producers.append(c)
    run.call_sites += len(producers)
    if len(producers) < 5:
        run.cannot('only %d TreatAsWithdraw producing sites found in parse (floor 5)' % len(producers))
    consumers = []
    for qn in CHAIN:
        fi = model.func(qn)
        run.analysed(fi)
        pm = parent_map(fi.node)
        for n in walk_no_nested(fi.node):
            if isinstance(n, ast.If) and _mentions_marker(model, folder, fi, n.test, 'INTERNAL_TREAT_AS_WITHDRAW'):
                if _branch_neutralises_announces(model, fi, n):
                    consumers.append((fi, n))
    if consumers:
        fi, n = consumers[0]
        late = _announce_additions_after(model, fi, n)
        if late:
            run.violation(
                fi.qualname,
                'announce list extended after the treat-as-withdraw decision: %s' % norm(late[0])[:80],
                fi.loc(late[0]),
                'the marker is tested at %s, but routes are still added to the announce list afterwards (%s): those routes '
                'of a malformed UPDATE stay announced' % (fi.loc(n), '; '.join('%s %s' % (fi.loc(x), norm(x)[:60]) for x in late)),
            )
        else:
            run.ok('marker consumed in %s' % fi.qualname, '%s: if %s (no later addition to the announce list)' % (fi.loc(n), norm(n.test)))
    else:
        run.violation(
            PARSE,
            'TreatAsWithdraw marker is never consumed',
            parse.loc(producers[0]) if producers else parse.loc(),
            '%d sites add the INTERNAL_TREAT_AS_WITHDRAW marker, but no function between the attribute walk and the '
            'announce sinks (%s) tests it and withdraws the routes: the announced NLRIs of a malformed UPDATE are '
            'reported as announced' % (len(producers), ', '.join(q.rsplit('.', 2)[-2] + '.' + q.rsplit('.', 1)[-1] for q in CHAIN)),
            ['producer %s: %s' % (parse.loc(p), norm(p)) for p in producers],
        )

    # ------------------------------------------------------------------ R2
    run.rule(
        'C08.R2',
        'in the attribute TLV walk the declared length is compared with what is left before the value slice is '
        'decoded (Python slicing silently shortens)',
        floor=1,
    )
    _r2_length_guard(model, run, parse)

    # ------------------------------------------------------------------ R3
    run.rule(
        'C08.R3',
        'every registered attribute class has an RFC 7606 disposition: TREAT_AS_WITHDRAW or DISCARD is set, or the '
        'class is a session-reset class whose decoder explicitly raises only Notify(3, x)',
        floor=13,
    )
    attrs = registry.attributes(model, folder)
    exc = common.ExcFlow(model)
    for rec in attrs:
        ci = rec['cls']
        taw, dis = rec['TREAT_AS_WITHDRAW'], rec['DISCARD']
        if taw is UNKNOWN or dis is UNKNOWN:
            run.cannot('cannot fold TREAT_AS_WITHDRAW/DISCARD of %s' % ci.qualname)
            continue
        unp = model.effective(ci.qualname, 'unpack_attribute')
        if unp is None:
            run.violation(ci.qualname, 'no unpack_attribute', ci.loc(), 'registered attribute without decoder')
            continue
        run.analysed(unp)
        if taw and dis:
            run.violation(ci.qualname, 'both flags', ci.loc(), 'TREAT_AS_WITHDRAW and DISCARD both set: parse honours the first only')
            continue
        if taw or dis:
            run.ok(ci.qualname, 'TREAT_AS_WITHDRAW' if taw else 'DISCARD')
            continue
        # session reset class: explicit escapes must be Notify(3, x) only
        esc = exc.escapes(unp.qualname)
        bad = sorted(e for e in esc if not e.startswith('Notify(3,') and e not in ('Notify(?)',))
        # `raise NotImplementedError` marks an abstract stub (class-hierarchy resolution reaches the base stubs)
        bad = [b for b in bad if b not in ('Notify', 'NotImplementedError')]
        if bad:
            run.violation(
                ci.qualname,
                'session-reset attribute decoder can raise ' + ', '.join(bad),
                unp.loc(),
                'the class has neither TREAT_AS_WITHDRAW nor DISCARD, so AttributeCollection.parse re-raises these '
                'unchanged and the reactor launders them into NOTIFICATION 1/0 instead of an UPDATE error',
                exc.witness(unp.qualname, bad[0]),
            )
        else:
            run.ok(ci.qualname, 'session reset; explicit escapes: %s' % (sorted(esc) or 'none'))

    # ------------------------------------------------------------------ R4
    run.rule(
        'C08.R4',
        'the `except (IndexError, ValueError)` and `except Notify` arms around Attribute.unpack in parse test '
        'TREAT_AS_WITHDRAW then DISCARD with the same effect (marker added, walk continues), and end by re-raising',
        floor=2,
    )
    _r4_arms(model, run, parse)

    # ------------------------------------------------------------------ R5
    run.rule(
        'C08.R5',
        'the DISCARD paths of parse continue the walk with the remaining bytes and remove nothing already added',
        floor=2,
    )
    _r5_discard(model, run, parse)

    # ------------------------------------------------------------------ R6
    run.rule(
        'C08.R6',
        'zero-length check: a registered attribute with length 0 whose class is not VALID_ZERO becomes '
        'treat-as-withdraw before its decoder runs; VALID_ZERO is set only on AS_PATH and ATOMIC_AGGREGATE-like '
        'classes whose RFC format allows an empty value',
        floor=2,
    )
    _r6_zero(model, run, parse, attrs)

    # ------------------------------------------------------------------ R7
    run.rule(
        'C08.R7',
        'the RFC 7606 class table: attributes whose malformation must be treat-as-withdraw (ORIGIN, AS_PATH, NEXT_HOP, '
        'MED, LOCAL_PREF, ORIGINATOR_ID, CLUSTER_LIST, communities) carry TREAT_AS_WITHDRAW; ATOMIC_AGGREGATE and '
        'AGGREGATOR carry DISCARD; MP_REACH/MP_UNREACH carry neither and NO_DUPLICATE',
        floor=7,
    )
    _r7_table(model, run, attrs)


def _announce_additions_after(model: Model, fi, ifnode: ast.If) -> list[ast.AST]:
    """Statements reachable after the consuming `if` that add to a list flowing into the announces."""
    from ..cfg import CFG

    names = set()
    for st in ifnode.body:
        for n in walk_no_nested(st):
            if isinstance(n, ast.Assign):
                for t in n.targets:
                    if isinstance(t, ast.Name) and 'announce' in t.id.lower():
                        names.add(t.id)
            if isinstance(n, ast.Call) and isinstance(n.func, ast.Attribute) and n.func.attr == 'clear' and isinstance(n.func.value, ast.Name):
                names.add(n.func.value.id)
    if not names:
        return []
    cfg = CFG(fi.node)
    start = cfg.node_of(ifnode)
    if start is None:
        return []
    reach = cfg.reachable(start.id)
    # the consuming branch itself is allowed to rebind the list
    inside = {id(x) for st in ifnode.body for x in ast.walk(st)}
    out = []
    for nid in reach:
        node = cfg.nodes[nid]
        a = node.ast
        if a is None or node.kind != 'stmt' or id(a) in inside or nid == start.id:
            continue
        for n in walk_no_nested(a):
            if isinstance(n, ast.Call) and isinstance(n.func, ast.Attribute) and n.func.attr in ('append', 'extend', 'insert') and isinstance(n.func.value, ast.Name) and n.func.value.id in names:
                out.append(n)
            if isinstance(n, ast.AugAssign) and isinstance(n.target, ast.Name) and n.target.id in names:
                out.append(n)
    out.sort(key=lambda x: x.lineno)
    return out


def _branch_neutralises_announces(model: Model, fi, ifnode: ast.If) -> bool:
    """Under the marker test: a raise, or a rebinding / clearing of a name that flows into the announces."""
    for st in ifnode.body:
        for n in walk_no_nested(st):
            if isinstance(n, ast.Raise):
                return True
            if isinstance(n, ast.Assign):
                for t in n.targets:
                    nm = t.id if isinstance(t, ast.Name) else (t.attr if isinstance(t, ast.Attribute) else '')
                    if 'announce' in nm.lower():
                        return True
            if isinstance(n, ast.Call) and isinstance(n.func, ast.Attribute) and n.func.attr in ('clear',):
                d = dotted(n.func.value) or ''
                if 'announce' in d.lower():
                    return True
            if isinstance(n, ast.Return) and n.value is not None and isinstance(n.value, ast.Call):
                # return cls([], withdraws + ..., attributes)
                if n.value.args and isinstance(n.value.args[0], (ast.List, ast.Tuple)) and not n.value.args[0].elts:
                    return True
    return False


def _r2_length_guard(model: Model, run: Run, parse) -> None:
    mod = parse.module
    fn = parse.node
    sl = Slicer(model, parse)
    # the value slice: a Subscript `X[:L]` assigned to the name passed as 3rd argument of Attribute.unpack
    unpack_calls = model.calls_to(mod, fn, 'Attribute.unpack')
    if not unpack_calls:
        run.cannot('Attribute.unpack call vanished from parse')
        return
    call = unpack_calls[0]
    if len(call.args) < 3 or not isinstance(call.args[2], ast.Name):
        run.cannot('third argument of Attribute.unpack is not a name: %s' % norm(call))
        return
    vname = call.args[2].id
    slices = [(v, st) for v, st in sl.defs.get(vname, []) if isinstance(v, ast.Subscript) and isinstance(v.slice, ast.Slice)]
    if not slices:
        run.cannot('value slice for %s not found in parse' % vname)
        return
    v, st = slices[0]
    upper = v.slice.upper
    if upper is None:
        run.cannot('value slice has no upper bound')
        return
    lnames = {n.id for n in ast.walk(upper) if isinstance(n, ast.Name)}
    bname = dotted(v.value)
    # accepted idioms: a comparison involving len(<buffer>) (or len(<value>)) and the length name, located
    # in the function before the decode call, whose failing branch leaves (raise / marker+return)
    pm = parent_map(fn)
    found = None
    for n in walk_no_nested(fn):
        if isinstance(n, ast.If) and n.lineno < call.lineno:
            for cmp_ in ast.walk(n.test):
                if not isinstance(cmp_, ast.Compare):
                    continue
                sides = [cmp_.left] + list(cmp_.comparators)
                has_len = False
                for s in sides:
                    for c in ast.walk(s):
                        if isinstance(c, ast.Call) and isinstance(c.func, ast.Name) and c.func.id == 'len' and c.args:
                            tgt = dotted(c.args[0])
                            if tgt in (bname, vname):
                                has_len = True
                has_l = any(isinstance(x, ast.Name) and x.id in lnames for s in sides for x in ast.walk(s))
                if has_len and has_l and (always_exits(n.body) or (n.orelse and always_exits(n.orelse))):
                    found = n
    if found is not None:
        # the guard must speak about the same value that is sliced: no rebinding of the buffer or of the length
        # between the comparison and the slice
        lo, hi = sorted((found.lineno, st.lineno))
        rebinds = []
        for n in walk_no_nested(fn):
            if isinstance(n, (ast.Assign, ast.AugAssign, ast.AnnAssign)) and lo < n.lineno < hi:
                tgts = n.targets if isinstance(n, ast.Assign) else [n.target]
                for t in tgts:
                    for x in ast.walk(t):
                        if isinstance(x, ast.Name) and (x.id == bname or x.id in lnames) and isinstance(x.ctx, ast.Store):
                            rebinds.append(n)
        if rebinds and found.lineno < st.lineno:
            run.violation(
                parse.qualname,
                'length guard and value slice see different buffers: %s' % norm(rebinds[0]),
                parse.loc(rebinds[0]),
                'the overrun test `%s` (%s) is evaluated before `%s` rebinds the buffer, so it compares the declared length '
                'with a buffer that still contains the attribute header: an overrun of up to the header size passes and '
                'the value is silently shortened by %s' % (norm(found.test), parse.loc(found), norm(rebinds[0]), norm(v)),
            )
        else:
            run.ok('parse: length guard', '%s: if %s' % (parse.loc(found), norm(found.test)))
    else:
        run.violation(
            parse.qualname,
            'value slice %s without overrun check' % norm(v),
            parse.loc(st),
            'the attribute value is cut with %s and decoded, but no comparison of the declared length (%s) with '
            'len(%s) leaves the walk first: an attribute whose length overruns the attribute block is decoded as a '
            'shorter, valid one' % (norm(v), ', '.join(sorted(lnames)), bname),
        )


def _handler_plan(model: Model, parse, h: ast.ExceptHandler) -> list[tuple[str, str]]:
    """Sequence of (flag tested, effect) for an except arm, plus the tail."""
    plan: list[tuple[str, str]] = []
    mod = parse.module
    # an if / elif / else ladder whose branches leave the arm reads like consecutive ifs
    flat: list[ast.stmt] = []

    def flatten(sts: list[ast.stmt]) -> None:
        for st in sts:
            flat.append(st)
            if isinstance(st, ast.If) and st.orelse:
                flatten(st.orelse)

    flatten(h.body)
    for st in flat:
        if isinstance(st, ast.Pass):
            continue
        if isinstance(st, ast.If):
            flags = [n.attr for n in ast.walk(st.test) if isinstance(n, ast.Attribute) and n.attr in ('TREAT_AS_WITHDRAW', 'DISCARD')]
            eff = []
            for n in st.body:
                for c in walk_no_nested(n):
                    if isinstance(c, ast.Call) and model.call_matches(mod, c, 'AttributeCollection.add') and c.args and isinstance(c.args[0], ast.Call):
                        nm = model.callees(mod, c.args[0])
                        eff.append('add:' + (nm[0].rsplit('.', 1)[-1] if nm else '?'))
                    if isinstance(c, ast.Return):
                        eff.append('return' + (':continue-walk' if _continues_walk(model, parse, c) else ''))
                    if isinstance(c, ast.Continue):
                        eff.append('return:continue-walk')
                    if isinstance(c, ast.Raise):
                        eff.append('raise')
            plan.append((','.join(flags), ' '.join(eff)))
        elif isinstance(st, ast.Raise):
            plan.append(('tail', 'raise'))
        elif isinstance(st, ast.Expr) and isinstance(st.value, ast.Constant):
            continue
        elif isinstance(st, ast.Expr) and isinstance(st.value, ast.Call) and dotted(st.value.func) in ('log.debug', 'log.warning', 'log.info'):
            continue
        else:
            plan.append(('other', norm(st)[:60]))
    return plan


def _continues_walk(model: Model, parse, ret: ast.AST) -> bool:
    """`return self.parse(left, negotiated)` (recursive form) or `continue` in an iterative walk."""
    if isinstance(ret, ast.Return) and isinstance(ret.value, ast.Call):
        return model.call_matches(parse.module, ret.value, 'AttributeCollection.parse')
    return False


def _unpack_try(model: Model, parse) -> ast.Try | None:
    mod = parse.module
    for n in walk_no_nested(parse.node):
        if isinstance(n, ast.Try):
            for st in n.body:
                if model.calls_to(mod, st, 'Attribute.unpack'):
                    return n
    return None


def _r4_arms(model: Model, run: Run, parse) -> None:
    t = _unpack_try(model, parse)
    if t is None:
        run.cannot('try around Attribute.unpack not found in parse')
        return
    from ..cfg import handler_names

    arms = {}
    for h in t.handlers:
        names = handler_names(h)
        arms[tuple(sorted(names))] = h
    notify_arm = next((h for k, h in arms.items() if 'Notify' in k), None)
    value_arm = next((h for k, h in arms.items() if 'ValueError' in k or 'IndexError' in k), None)
    if notify_arm is None or value_arm is None:
        run.cannot('expected an except Notify arm and an except (IndexError, ValueError) arm, found %s' % list(arms))
        return
    want = [('TREAT_AS_WITHDRAW', 'add:TreatAsWithdraw return:continue-walk'), ('DISCARD', 'add:Discard return:continue-walk'), ('tail', 'raise')]
    for label, h in (('except Notify', notify_arm), ('except (IndexError, ValueError)', value_arm)):
        plan = _handler_plan(model, parse, h)
        if plan == want:
            run.ok('parse: %s' % label, str(plan))
        else:
            run.violation(
                parse.qualname,
                '%s arm: %s' % (label, plan),
                parse.loc(h),
                'the arm must test TREAT_AS_WITHDRAW (marker TreatAsWithdraw, continue the walk), then DISCARD (marker '
                'Discard, continue the walk), then re-raise; found %s' % (plan,),
            )
    # the value arm must cover both IndexError and ValueError (decoders raise both on truncated input)
    names = handler_names(value_arm)
    run.check(
        'IndexError' in names and 'ValueError' in names,
        parse.qualname,
        'value arm catches %s' % sorted(names),
        parse.loc(value_arm),
        'the non-Notify arm must catch IndexError and ValueError (what truncated / invalid values raise in the decoders)',
    )


def _r5_discard(model: Model, run: Run, parse) -> None:
    mod = parse.module
    pm = parent_map(parse.node)
    n_paths = 0
    for n in walk_no_nested(parse.node):
        if isinstance(n, ast.If):
            flags = [a.attr for a in ast.walk(n.test) if isinstance(a, ast.Attribute) and a.attr == 'DISCARD']
            if not flags:
                continue
            n_paths += 1
            last = n.body[-1] if n.body else None
            cont = last is not None and (
                (isinstance(last, ast.Return) and _continues_walk(model, parse, last) and _passes_rest(last)) or isinstance(last, ast.Continue)
            )
            removes = [
                c
                for st in n.body
                for c in walk_no_nested(st)
                if isinstance(c, ast.Call) and isinstance(c.func, ast.Attribute) and c.func.attr in ('remove', 'pop', 'clear', '__delitem__') and dotted(c.func.value) == 'self'
            ]
            dels = [st for st in n.body if isinstance(st, ast.Delete)]
            if cont and not removes and not dels:
                run.ok('parse: DISCARD branch at %s' % parse.loc(n), norm(last))
            else:
                run.violation(
                    parse.qualname,
                    'DISCARD branch: %s' % (norm(last) if last is not None else 'empty'),
                    parse.loc(n),
                    'an attribute-discard branch must go on with the remaining attributes (and not drop collected ones)',
                )
    if n_paths < 2:
        run.cannot('fewer than 2 DISCARD branches found in parse')


def _passes_rest(ret: ast.Return) -> bool:
    c = ret.value
    return isinstance(c, ast.Call) and bool(c.args) and isinstance(c.args[0], ast.Name) and c.args[0].id in ('left', 'data', 'rest', 'remaining')


def _r6_zero(model: Model, run: Run, parse, attrs: list[dict]) -> None:
    mod = parse.module
    t = _unpack_try(model, parse)
    found = None
    for n in walk_no_nested(parse.node):
        if isinstance(n, ast.If) and any(isinstance(a, ast.Attribute) and a.attr == 'VALID_ZERO' for a in ast.walk(n.test)):
            found = n
    if found is None:
        run.violation(parse.qualname, 'no VALID_ZERO test', parse.loc(), 'zero-length attributes reach the decoders unchecked')
        return
    adds = [c for st in found.body for c in walk_no_nested(st) if isinstance(c, ast.Call) and model.call_matches(mod, c, 'AttributeCollection.add')]
    before = t is not None and found.lineno < t.lineno
    txt = norm(found.test)
    conj = found.test.values if isinstance(found.test, ast.BoolOp) and isinstance(found.test.op, ast.And) else [found.test]
    zero = [b for c in conj for b in [amatch('V_len == 0', c)] if b is not None]
    notvz = [b for c in conj for b in [amatch('not V_k.VALID_ZERO', c)] if b is not None]
    shape_ok = len(zero) == 1 and len(notvz) == 1
    run.check(
        bool(adds) and before and shape_ok,
        parse.qualname,
        'zero-length branch tests length == 0 and not VALID_ZERO, precedes the decoder and adds the marker',
        parse.loc(found),
        'the zero-length test must precede the decoder call, test length == 0 and not VALID_ZERO, and add the marker',
    )
    allowed_zero = {2, 6, 17}  # AS_PATH (empty on iBGP), ATOMIC_AGGREGATE, AS4_PATH
    for rec in attrs:
        if rec['VALID_ZERO'] is True:
            run.check(
                rec['ID'] in allowed_zero,
                rec['cls'].qualname,
                'VALID_ZERO on attribute %s' % rec['ID'],
                rec['cls'].loc(),
                'only AS_PATH, AS4_PATH and ATOMIC_AGGREGATE may be empty (RFC 4271 4.3 / 5.1.6, RFC 6793)',
            )


RFC7606 = {
    1: 'taw',  # ORIGIN 7.1
    2: 'taw',  # AS_PATH 7.2
    3: 'taw',  # NEXT_HOP 7.3
    4: 'taw',  # MED 7.4
    5: 'taw',  # LOCAL_PREF 7.5
    6: 'discard',  # ATOMIC_AGGREGATE 7.6
    7: 'discard',  # AGGREGATOR 7.7
    9: 'taw',  # ORIGINATOR_ID 7.9
    10: 'taw',  # CLUSTER_LIST 7.10
    14: 'reset',  # MP_REACH 7.11
    15: 'reset',  # MP_UNREACH 7.12
    32: 'taw',  # LARGE_COMMUNITY RFC 8092 section 5
}


def _r7_table(model: Model, run: Run, attrs: list[dict]) -> None:
    by_id: dict[int, list[dict]] = {}
    for rec in attrs:
        if isinstance(rec['ID'], int):
            by_id.setdefault(rec['ID'], []).append(rec)
    for aid, want in sorted(RFC7606.items()):
        recs = by_id.get(aid)
        if not recs:
            run.cannot('attribute %d not registered' % aid)
            continue
        for rec in recs:
            got = 'taw' if rec['TREAT_AS_WITHDRAW'] is True else ('discard' if rec['DISCARD'] is True else 'reset')
            ok = got == want
            if want == 'reset':
                ok = ok and rec['NO_DUPLICATE'] is True
            run.check(
                ok,
                rec['cls'].qualname,
                'RFC 7606 class of attribute %d is %s' % (aid, got),
                rec['cls'].loc(),
                'RFC 7606 section 7 wants %s for attribute %d%s' % (want, aid, ' (and NO_DUPLICATE)' if want == 'reset' else ''),
            )


def _r8_cache(model: Model, run: Run, folder: Folder) -> None:
    from .C19 import cache_guard_rule

    cache_guard_rule(model, run, folder)
