"""C08 — malformed attributes never yield announced routes (RFC 7606).  DESIGN.md 3/C08."""

from __future__ import annotations

import ast

from ..alpha import Loc, afind, amatch
from ..cfg import CFG
from ..const import UNKNOWN, Folder
from ..flow import Slicer, always_exits, flat_guards, guards, parent_map
from ..model import Model, dotted, norm, walk_no_nested
from ..report import Run
from .. import registry
from . import common

PARSE = 'exabgp.bgp.message.update.attribute.collection.AttributeCollection.parse'
ATTR_UNPACK = 'exabgp.bgp.message.update.attribute.collection.AttributeCollection.unpack'
PAYLOAD = 'exabgp.bgp.message.update.collection.UpdateCollection._parse_payload'

# the chain between the attribute walk and the two announce sinks (API message, Adj-RIB-In)
CHAIN = [
    PAYLOAD,
    'exabgp.bgp.message.update.collection.UpdateCollection.unpack_message',
    'exabgp.bgp.message.update.Update.parse',
    'exabgp.bgp.message.update.Update.unpack_message',
    'exabgp.bgp.message.message.Message.unpack',
    'exabgp.reactor.protocol.Protocol.read_message',
]


def _mentions_marker(model: Model, folder: Folder, fi, expr: ast.AST, marker: str) -> bool:
    # a test hoisted into a local (`flag = MARKER in attributes; if flag:`) is the same test
    expr = Loc(model, fi).expanded(expr)
    for n in ast.walk(expr):
        if isinstance(n, ast.Attribute) and n.attr == marker:
            return True
        if isinstance(n, ast.Attribute) and n.attr == 'ID':
            d = dotted(n)
            if d and d.split('.')[0] in ('TreatAsWithdraw',) and marker == 'INTERNAL_TREAT_AS_WITHDRAW':
                return True
            if d and d.split('.')[0] in ('Discard',) and marker == 'INTERNAL_DISCARD':
                return True
    return False


def check(model: Model, run: Run) -> None:
    folder = Folder(model)
    # ------------------------------------------------------------------ R8 a malformed block is not answered from the memo
    run.rule('C08.R8', 'a block decoded as malformed (treat-as-withdraw) neither enters the one-entry block memo nor leaves its key pointing at an older collection (shared with C19.R1b)', floor=2)
    _r8_cache(model, run, folder)
    parse = model.func(PARSE)
    mod = parse.module
    run.analysed(parse)

    # ------------------------------------------------------------------ R9 nested declared lengths
    run.rule(
        'C08.R9',
        'inside the attribute decoders a length read from the attribute (sub-TLV length, segment count, next-hop length) is '
        'compared with what is left of the buffer before it bounds a slice or advances the cursor: python slices shorten '
        'silently, so an unchecked nested length that overruns is accepted as a shorter valid value',
        floor=12,
    )
    _r9_nested_lengths(model, run)

    # ------------------------------------------------------------------ R1
    run.rule(
        'C08.R1',
        'every TreatAsWithdraw marker produced by AttributeCollection.parse is consumed on the chain to the announce '
        'sinks: some function of the chain tests INTERNAL_TREAT_AS_WITHDRAW and, under that test, empties/moves the '
        'announce list, or raises',
        floor=1,
    )
    producers = []
    for c in model.calls_to(mod, parse.node, 'AttributeCollection.add'):
        if c.args and isinstance(c.args[0], ast.Call) and model.call_matches(mod, c.args[0], 'TreatAsWithdraw'):
            producers.append(c)
    run.call_sites += len(producers)
    if len(producers) < 5:
        run.cannot('only %d TreatAsWithdraw producing sites found in parse (floor 5)' % len(producers))
    consumers = []
    for qn in CHAIN:
        fi = model.func(qn)
        run.analysed(fi)
        pm = parent_map(fi.node)
        for n in walk_no_nested(fi.node):
            if isinstance(n, ast.If) and _mentions_marker(model, folder, fi, n.test, 'INTERNAL_TREAT_AS_WITHDRAW'):
                if _branch_neutralises_announces(model, fi, n):
                    consumers.append((fi, n))
    if consumers:
        fi, n = consumers[0]
        late = _announce_additions_after(model, fi, n)
        if late:
            run.violation(
                fi.qualname,
                'announce list extended after the treat-as-withdraw decision: %s' % norm(late[0])[:80],
                fi.loc(late[0]),
                'the marker is tested at %s, but routes are still added to the announce list afterwards (%s): those routes '
                'of a malformed UPDATE stay announced' % (fi.loc(n), '; '.join('%s %s' % (fi.loc(x), norm(x)[:60]) for x in late)),
            )
        else:
            run.ok('marker consumed in %s' % fi.qualname, '%s: if %s (no later addition to the announce list)' % (fi.loc(n), norm(n.test)))
    else:
        run.violation(
            PARSE,
            'TreatAsWithdraw marker is never consumed',
            parse.loc(producers[0]) if producers else parse.loc(),
            '%d sites add the INTERNAL_TREAT_AS_WITHDRAW marker, but no function between the attribute walk and the '
            'announce sinks (%s) tests it and withdraws the routes: the announced NLRIs of a malformed UPDATE are '
            'reported as announced' % (len(producers), ', '.join(q.rsplit('.', 2)[-2] + '.' + q.rsplit('.', 1)[-1] for q in CHAIN)),
            ['producer %s: %s' % (parse.loc(p), norm(p)) for p in producers],
        )

    # ------------------------------------------------------------------ R2
    run.rule(
        'C08.R2',
        'in the attribute TLV walk the declared length is compared with what is left before the value slice is '
        'decoded (Python slicing silently shortens)',
        floor=1,
    )
    _r2_length_guard(model, run, parse)

    # ------------------------------------------------------------------ R3
    run.rule(
        'C08.R3',
        'every registered attribute class has an RFC 7606 disposition: TREAT_AS_WITHDRAW or DISCARD is set, or the '
        'class is a session-reset class whose decoder explicitly raises only Notify(3, x)',
        floor=13,
    )
    attrs = registry.attributes(model, folder)
    exc = common.ExcFlow(model)
    for rec in attrs:
        ci = rec['cls']
        taw, dis = rec['TREAT_AS_WITHDRAW'], rec['DISCARD']
        if taw is UNKNOWN or dis is UNKNOWN:
            run.cannot('cannot fold TREAT_AS_WITHDRAW/DISCARD of %s' % ci.qualname)
            continue
        unp = model.effective(ci.qualname, 'unpack_attribute')
        if unp is None:
            run.violation(ci.qualname, 'no unpack_attribute', ci.loc(), 'registered attribute without decoder')
            continue
        run.analysed(unp)
        if taw and dis:
            run.violation(ci.qualname, 'both flags', ci.loc(), 'TREAT_AS_WITHDRAW and DISCARD both set: parse honours the first only')
            continue
        if taw or dis:
            run.ok(ci.qualname, 'TREAT_AS_WITHDRAW' if taw else 'DISCARD')
            continue
        # session reset class: explicit escapes must be Notify(3, x) only
        esc = exc.escapes(unp.qualname)
        bad = sorted(e for e in esc if not e.startswith('Notify(3,') and e not in ('Notify(?)',))
        # `raise NotImplementedError` marks an abstract stub (class-hierarchy resolution reaches the base stubs)
        bad = [b for b in bad if b not in ('Notify', 'NotImplementedError')]
        if bad:
            run.violation(
                ci.qualname,
                'session-reset attribute decoder can raise ' + ', '.join(bad),
                unp.loc(),
                'the class has neither TREAT_AS_WITHDRAW nor DISCARD, so AttributeCollection.parse re-raises these '
                'unchanged and the reactor launders them into NOTIFICATION 1/0 instead of an UPDATE error',
                exc.witness(unp.qualname, bad[0]),
            )
        else:
            run.ok(ci.qualname, 'session reset; explicit escapes: %s' % (sorted(esc) or 'none'))

    # ------------------------------------------------------------------ R4
    run.rule(
        'C08.R4',
        'the `except (IndexError, ValueError)` and `except Notify` arms around Attribute.unpack in parse test '
        'TREAT_AS_WITHDRAW then DISCARD with the same effect (marker added, walk continues), and end by re-raising',
        floor=2,
    )
    _r4_arms(model, run, parse)

    # ------------------------------------------------------------------ R5
    run.rule(
        'C08.R5',
        'the DISCARD paths of parse continue the walk with the remaining bytes and remove nothing already added',
        floor=2,
    )
    _r5_discard(model, run, parse)

    # ------------------------------------------------------------------ R6
    run.rule(
        'C08.R6',
        'zero-length check: a registered attribute with length 0 whose class is not VALID_ZERO becomes '
        'treat-as-withdraw before its decoder runs; VALID_ZERO is set only on AS_PATH and ATOMIC_AGGREGATE-like '
        'classes whose RFC format allows an empty value',
        floor=2,
    )
    _r6_zero(model, run, parse, attrs)

    # ------------------------------------------------------------------ R7
    run.rule(
        'C08.R7',
        'the RFC 7606 class table: attributes whose malformation must be treat-as-withdraw (ORIGIN, AS_PATH, NEXT_HOP, '
        'MED, LOCAL_PREF, ORIGINATOR_ID, CLUSTER_LIST, communities) carry TREAT_AS_WITHDRAW; ATOMIC_AGGREGATE and '
        'AGGREGATOR carry DISCARD; MP_REACH/MP_UNREACH carry neither and NO_DUPLICATE',
        floor=7,
    )
    _r7_table(model, run, attrs)

    # ------------------------------------------------------------------ R10
    run.rule(
        'C08.R10',
        'attribute flags error (RFC 7606 3.c): a code that IS registered, met with flag bits that are not, is handled in the '
        'branch testing the table of every registered code (the one Attribute.register fills unconditionally) - there a '
        'TREAT_AS_WITHDRAW class adds the marker - and never reaches the unknown-attribute tail (GenericAttribute) of the walk',
        floor=3,
    )
    _r10_flags_error(model, run, parse)

    # ------------------------------------------------------------------ R11 a value checked for one session is not served to another
    run.rule(
        'C08.R11',
        'the per-attribute cache of Attribute.unpack, keyed by the value bytes alone, serves no class whose decoder reads the '
        'session (or is never consulted): the RFC 7606 length test of AGGREGATOR depends on the 4-byte-AS negotiation, so bytes '
        'accepted on one session would be handed, unchecked, to a session on which they are malformed (shared with C15.R13 / C19.R8)',
        floor=1,
    )
    from .C15 import attribute_cache_rule

    attribute_cache_rule(model, run, folder)


def _r10_flags_error(model: Model, run: Run, parse) -> None:
    from ..alpha import facts

    reg = model.funcs.get('exabgp.bgp.message.update.attribute.attribute.Attribute.register.register_attribute')
    if reg is None:
        run.cannot('Attribute.register.register_attribute not found')
        return
    run.analysed(reg)
    # tables every registration appends the code to (no condition)
    every = set()
    for st in reg.node.body:
        if isinstance(st, ast.Expr) and isinstance(st.value, ast.Call) and isinstance(st.value.func, ast.Attribute) and st.value.func.attr == 'append':
            every.add((dotted(st.value.func.value) or '?').rsplit('.', 1)[-1])
    if not every:
        run.cannot('no table is filled unconditionally by Attribute.register')
        return
    run.ok('Attribute.register', 'tables holding every registered code: %s' % sorted(every))
    pl = Loc(model, parse)
    aid = None
    for c in model.calls_to(parse.module, parse.node, 'Attribute.registered'):
        if c.args and isinstance(c.args[0], ast.Name):
            aid = c.args[0].id
    if aid is None:
        run.cannot('the attribute code variable of parse was not identified (Attribute.registered(<code>, <flags>))')
        return
    known = {'%s not in Attribute.%s' % (aid, t) for t in every}
    tails = model.calls_to(parse.module, parse.node, 'GenericAttribute.make_generic', 'GenericAttribute')
    if not tails:
        run.cannot('the unknown-attribute tail (GenericAttribute) vanished from parse')
        return
    for c in tails:
        fs = facts(pl, c, keep=[aid])
        run.check(bool(fs & known), parse.qualname, 'the unknown-attribute tail is reached only for codes outside %s' % sorted(every), parse.loc(c), 'a registered attribute received with the wrong flag bits (MED sent transitive, LARGE_COMMUNITY non-transitive) would be wrapped as an unknown attribute and its route announced instead of treated as withdrawn: %s do not exclude it' % sorted(f for f in fs if aid in f))
    # the branch itself
    branch = [n for n in walk_no_nested(parse.node) if isinstance(n, ast.If) and isinstance(n.test, ast.Compare) and isinstance(n.test.ops[0], ast.In) and norm(n.test.left) == aid and (dotted(n.test.comparators[0]) or '').rsplit('.', 1)[-1] in every]
    if len(branch) != 1:
        run.violation(parse.qualname, 'flags-error branch: %d tests of `%s in <table of every registered code>`' % (len(branch), aid), parse.loc(), 'the walk must single out registered codes whose flags are wrong')
        return
    got = _arm_eval(model, parse, branch[0].body, 'TREAT_AS_WITHDRAW')
    run.check('add:TreatAsWithdraw' in got and 'raise' not in got, parse.qualname, 'flags error of a treat-as-withdraw class: %s' % got, parse.loc(branch[0]), 'RFC 7606 3.c: attribute flags error is treat-as-withdraw')


def _announce_additions_after(model: Model, fi, ifnode: ast.If) -> list[ast.AST]:
    """Statements reachable after the consuming `if` that add to a list flowing into the announces."""
    from ..cfg import CFG

    names = set()
    for st in ifnode.body:
        for n in walk_no_nested(st):
            if isinstance(n, ast.Assign):
                for t in n.targets:
                    if isinstance(t, ast.Name) and 'announce' in t.id.lower():
                        names.add(t.id)
            if isinstance(n, ast.Call) and isinstance(n.func, ast.Attribute) and n.func.attr == 'clear' and isinstance(n.func.value, ast.Name):
                names.add(n.func.value.id)
    if not names:
        return []
    cfg = CFG(fi.node)
    start = cfg.node_of(ifnode)
    if start is None:
        return []
    reach = cfg.reachable(start.id)
    # the consuming branch itself is allowed to rebind the list
    inside = {id(x) for st in ifnode.body for x in ast.walk(st)}
    out = []
    for nid in reach:
        node = cfg.nodes[nid]
        a = node.ast
        if a is None or node.kind != 'stmt' or id(a) in inside or nid == start.id:
            continue
        for n in walk_no_nested(a):
            if isinstance(n, ast.Call) and isinstance(n.func, ast.Attribute) and n.func.attr in ('append', 'extend', 'insert') and isinstance(n.func.value, ast.Name) and n.func.value.id in names:
                out.append(n)
            if isinstance(n, ast.AugAssign) and isinstance(n.target, ast.Name) and n.target.id in names:
                out.append(n)
    out.sort(key=lambda x: x.lineno)
    return out


def _branch_neutralises_announces(model: Model, fi, ifnode: ast.If) -> bool:
    """Under the marker test: a raise, or a rebinding / clearing of a name that flows into the announces."""
    for st in ifnode.body:
        for n in walk_no_nested(st):
            if isinstance(n, ast.Raise):
                return True
            if isinstance(n, ast.Assign):
                for t in n.targets:
                    nm = t.id if isinstance(t, ast.Name) else (t.attr if isinstance(t, ast.Attribute) else '')
                    if 'announce' in nm.lower():
                        return True
            if isinstance(n, ast.Call) and isinstance(n.func, ast.Attribute) and n.func.attr in ('clear',):
                d = dotted(n.func.value) or ''
                if 'announce' in d.lower():
                    return True
            if isinstance(n, ast.Return) and n.value is not None and isinstance(n.value, ast.Call):
                # return cls([], withdraws + ..., attributes)
                if n.value.args and isinstance(n.value.args[0], (ast.List, ast.Tuple)) and not n.value.args[0].elts:
                    return True
    return False


def _r2_length_guard(model: Model, run: Run, parse) -> None:
    mod = parse.module
    fn = parse.node
    sl = Slicer(model, parse)
    # the value slice: a Subscript `X[:L]` assigned to the name passed as 3rd argument of Attribute.unpack
    unpack_calls = model.calls_to(mod, fn, 'Attribute.unpack')
    if not unpack_calls:
        run.cannot('Attribute.unpack call vanished from parse')
        return
    call = unpack_calls[0]
    if len(call.args) < 3 or not isinstance(call.args[2], ast.Name):
        run.cannot('third argument of Attribute.unpack is not a name: %s' % norm(call))
        return
    vname = call.args[2].id
    slices = [(v, st) for v, st in sl.defs.get(vname, []) if isinstance(v, ast.Subscript) and isinstance(v.slice, ast.Slice)]
    if not slices:
        run.cannot('value slice for %s not found in parse' % vname)
        return
    v, st = slices[0]
    upper = v.slice.upper
    if upper is None:
        run.cannot('value slice has no upper bound')
        return
    lnames = {n.id for n in ast.walk(upper) if isinstance(n, ast.Name)}
    bname = dotted(v.value)
    # accepted idioms: a comparison involving len(<buffer>) (or len(<value>)) and the length name, located
    # in the function before the decode call, whose failing branch leaves (raise / marker+return)
    pm = parent_map(fn)
    found = None
    for n in walk_no_nested(fn):
        if isinstance(n, ast.If) and n.lineno < call.lineno:
            for cmp_ in ast.walk(n.test):
                if not isinstance(cmp_, ast.Compare):
                    continue
                sides = [cmp_.left] + list(cmp_.comparators)
                has_len = False
                for s in sides:
                    for c in ast.walk(s):
                        if isinstance(c, ast.Call) and isinstance(c.func, ast.Name) and c.func.id == 'len' and c.args:
                            tgt = dotted(c.args[0])
                            if tgt in (bname, vname):
                                has_len = True
                has_l = any(isinstance(x, ast.Name) and x.id in lnames for s in sides for x in ast.walk(s))
                if has_len and has_l and (always_exits(n.body) or (n.orelse and always_exits(n.orelse))):
                    found = n
    if found is not None:
        # the guard must speak about the same value that is sliced: no rebinding of the buffer or of the length
        # between the comparison and the slice
        lo, hi = sorted((found.lineno, st.lineno))
        rebinds = []
        for n in walk_no_nested(fn):
            if isinstance(n, (ast.Assign, ast.AugAssign, ast.AnnAssign)) and lo < n.lineno < hi:
                tgts = n.targets if isinstance(n, ast.Assign) else [n.target]
                for t in tgts:
                    for x in ast.walk(t):
                        if isinstance(x, ast.Name) and (x.id == bname or x.id in lnames) and isinstance(x.ctx, ast.Store):
                            rebinds.append(n)
        if rebinds and found.lineno < st.lineno:
            run.violation(
                parse.qualname,
                'length guard and value slice see different buffers: %s' % norm(rebinds[0]),
                parse.loc(rebinds[0]),
                'the overrun test `%s` (%s) is evaluated before `%s` rebinds the buffer, so it compares the declared length '
                'with a buffer that still contains the attribute header: an overrun of up to the header size passes and '
                'the value is silently shortened by %s' % (norm(found.test), parse.loc(found), norm(rebinds[0]), norm(v)),
            )
        else:
            run.ok('parse: length guard', '%s: if %s' % (parse.loc(found), norm(found.test)))
    else:
        run.violation(
            parse.qualname,
            'value slice %s without overrun check' % norm(v),
            parse.loc(st),
            'the attribute value is cut with %s and decoded, but no comparison of the declared length (%s) with '
            'len(%s) leaves the walk first: an attribute whose length overruns the attribute block is decoded as a '
            'shorter, valid one' % (norm(v), ', '.join(sorted(lnames)), bname),
        )


FLAG_CASES = {
    'TREAT_AS_WITHDRAW': {'TREAT_AS_WITHDRAW': True, 'DISCARD': False},
    'DISCARD': {'TREAT_AS_WITHDRAW': False, 'DISCARD': True},
    'tail': {'TREAT_AS_WITHDRAW': False, 'DISCARD': False},
}


def _arm_eval(model: Model, parse, body: list[ast.stmt], case: str) -> str:
    """What an except arm does for an attribute class whose RFC 7606 flags are those of `case`: the statements are
    executed over abstract values (None / an object of a known class), tests on the flags are decided by the case."""
    mod = parse.module
    flags = FLAG_CASES[case]
    env: dict[str, tuple] = {}
    kls_names = {dotted(n.value) for n in walk_no_nested(parse.node) if isinstance(n, ast.Attribute) and n.attr in flags and dotted(n.value)}
    eff: list[str] = []
    ploc = Loc(model, parse)

    def aval(e: ast.AST) -> tuple:
        if isinstance(e, ast.Constant) and e.value is None:
            return ('none',)
        if isinstance(e, ast.Call):
            nm = model.callees(mod, e)
            return ('obj', nm[0].rsplit('.', 1)[-1] if nm else (dotted(e.func) or '?').rsplit('.', 1)[-1])
        if isinstance(e, ast.IfExp):
            t = ev(e.test)
            if t is True:
                return aval(e.body)
            if t is False:
                return aval(e.orelse)
            return ('unk',)
        if isinstance(e, ast.Name):
            return env.get(e.id, ('unk',))
        return ('unk',)

    def ev(e: ast.AST):
        if isinstance(e, ast.Attribute) and e.attr in flags:
            return flags[e.attr]
        if isinstance(e, (ast.Name, ast.Attribute)) and dotted(e) in kls_names:
            return None if case == 'tail' else True
        if isinstance(e, ast.Name):
            if e.id not in env:
                # a flag computed once ahead of the arms:  treat_as_withdraw = kls and kls.TREAT_AS_WITHDRAW
                d = ploc.single(e.id)
                if d is not None and not isinstance(d, ast.Name):
                    return ev(d)
            v = env.get(e.id, ('unk',))
            return False if v[0] == 'none' else (True if v[0] == 'obj' else None)
        if isinstance(e, ast.UnaryOp) and isinstance(e.op, ast.Not):
            t = ev(e.operand)
            return None if t is None else (not t)
        if isinstance(e, ast.Call) and isinstance(e.func, ast.Name) and e.func.id == 'bool' and len(e.args) == 1 and not e.keywords:
            return ev(e.args[0])
        if isinstance(e, ast.BoolOp):
            vs = [ev(v) for v in e.values]
            if isinstance(e.op, ast.And):
                return False if any(v is False for v in vs) else (True if all(v is True for v in vs) else None)
            return True if any(v is True for v in vs) else (False if all(v is False for v in vs) else None)
        if isinstance(e, ast.Compare) and len(e.ops) == 1 and isinstance(e.comparators[0], ast.Constant) and e.comparators[0].value is None:
            v = aval(e.left)
            isnone = True if v[0] == 'none' else (False if v[0] == 'obj' else None)
            if isnone is None:
                return None
            return isnone if isinstance(e.ops[0], (ast.Is, ast.Eq)) else (not isnone)
        return None

    def run_block(sts: list[ast.stmt]) -> str | None:
        for st in sts:
            if isinstance(st, ast.If):
                t = ev(st.test)
                if t is None:
                    return 'undecided:' + norm(st.test)[:50]
                r = run_block(st.body if t else st.orelse)
                if r is not None:
                    return r
            elif isinstance(st, (ast.Assign, ast.AnnAssign)) :
                tg = st.targets[0] if isinstance(st, ast.Assign) else st.target
                if isinstance(tg, ast.Name) and st.value is not None:
                    env[tg.id] = aval(st.value)
            elif isinstance(st, ast.Expr) and isinstance(st.value, ast.Call):
                c = st.value
                if model.call_matches(mod, c, 'AttributeCollection.add') and c.args:
                    v = aval(c.args[0])
                    eff.append('add:' + (v[1] if v[0] == 'obj' else '?'))
                elif isinstance(c.func, ast.Attribute) and c.func.attr in ('remove', 'pop', 'clear', '__delitem__') and dotted(c.func.value) == 'self':
                    eff.append('remove')
            elif isinstance(st, ast.Delete):
                eff.append('remove')
            elif isinstance(st, ast.Continue):
                eff.append('return:continue-walk')
                return ' '.join(eff)
            elif isinstance(st, ast.Return):
                eff.append('return' + (':continue-walk' if _continues_walk(model, parse, st) else ''))
                return ' '.join(eff)
            elif isinstance(st, ast.Raise):
                eff.append('raise')
                return ' '.join(eff)
        return None

    r = run_block(body)
    return r if r is not None else ' '.join(eff + ['falls-through'])


def _handler_plan(model: Model, parse, h: ast.ExceptHandler) -> list[tuple[str, str]]:
    """(RFC 7606 class of the attribute, what the arm does for it) for the three classes."""
    return [(case, _arm_eval(model, parse, h.body, case)) for case in FLAG_CASES]


def _continues_walk(model: Model, parse, ret: ast.AST) -> bool:
    """`return self.parse(left, negotiated)` (recursive form) or `continue` in an iterative walk."""
    if isinstance(ret, ast.Return) and isinstance(ret.value, ast.Call):
        return model.call_matches(parse.module, ret.value, 'AttributeCollection.parse')
    return False


def _unpack_try(model: Model, parse) -> ast.Try | None:
    mod = parse.module
    for n in walk_no_nested(parse.node):
        if isinstance(n, ast.Try):
            for st in n.body:
                if model.calls_to(mod, st, 'Attribute.unpack'):
                    return n
    return None


def _r4_arms(model: Model, run: Run, parse) -> None:
    t = _unpack_try(model, parse)
    if t is None:
        run.cannot('try around Attribute.unpack not found in parse')
        return
    from ..cfg import handler_names

    arms = {}
    for h in t.handlers:
        names = handler_names(h)
        arms[tuple(sorted(names))] = h
    notify_arm = next((h for k, h in arms.items() if 'Notify' in k), None)
    value_arm = next((h for k, h in arms.items() if 'ValueError' in k or 'IndexError' in k), None)
    if notify_arm is None or value_arm is None:
        run.cannot('expected an except Notify arm and an except (IndexError, ValueError) arm, found %s' % list(arms))
        return
    want = [('TREAT_AS_WITHDRAW', 'add:TreatAsWithdraw return:continue-walk'), ('DISCARD', 'add:Discard return:continue-walk'), ('tail', 'raise')]
    for label, h in (('except Notify', notify_arm), ('except (IndexError, ValueError)', value_arm)):
        plan = _handler_plan(model, parse, h)
        if plan == want:
            run.ok('parse: %s' % label, str(plan))
        else:
            run.violation(
                parse.qualname,
                '%s arm: %s' % (label, plan),
                parse.loc(h),
                'the arm must test TREAT_AS_WITHDRAW (marker TreatAsWithdraw, continue the walk), then DISCARD (marker '
                'Discard, continue the walk), then re-raise; found %s' % (plan,),
            )
    # the value arm must cover both IndexError and ValueError (decoders raise both on truncated input)
    names = handler_names(value_arm)
    run.check(
        'IndexError' in names and 'ValueError' in names,
        parse.qualname,
        'value arm catches %s' % sorted(names),
        parse.loc(value_arm),
        'the non-Notify arm must catch IndexError and ValueError (what truncated / invalid values raise in the decoders)',
    )


def _r5_discard(model: Model, run: Run, parse) -> None:
    mod = parse.module
    pm = parent_map(parse.node)
    n_paths = 0
    in_arms: set[int] = set()
    t = _unpack_try(model, parse)
    for h in (t.handlers if t is not None else []):
        # the arms of the decoder call: what they do for an attribute of the discard class
        n_paths += 1
        in_arms |= {id(x) for st in h.body for x in ast.walk(st)}
        got = _arm_eval(model, parse, h.body, 'DISCARD')
        if got.endswith('return:continue-walk') and 'remove' not in got and 'raise' not in got:
            run.ok('parse: DISCARD case of the arm at %s' % parse.loc(h), got)
        else:
            run.violation(
                parse.qualname,
                'DISCARD branch: %s' % got,
                parse.loc(h),
                'an attribute-discard branch must go on with the remaining attributes (and not drop collected ones)',
            )
    for n in walk_no_nested(parse.node):
        if isinstance(n, ast.If):
            flags = [a.attr for a in ast.walk(n.test) if isinstance(a, ast.Attribute) and a.attr == 'DISCARD']
            if not flags or id(n) in in_arms:
                continue
            n_paths += 1
            last = n.body[-1] if n.body else None
            cont = last is not None and (
                (isinstance(last, ast.Return) and _continues_walk(model, parse, last) and _passes_rest(last)) or isinstance(last, ast.Continue)
            )
            removes = [
                c
                for st in n.body
                for c in walk_no_nested(st)
                if isinstance(c, ast.Call) and isinstance(c.func, ast.Attribute) and c.func.attr in ('remove', 'pop', 'clear', '__delitem__') and dotted(c.func.value) == 'self'
            ]
            dels = [st for st in n.body if isinstance(st, ast.Delete)]
            if cont and not removes and not dels:
                run.ok('parse: DISCARD branch at %s' % parse.loc(n), norm(last))
            else:
                run.violation(
                    parse.qualname,
                    'DISCARD branch: %s' % (norm(last) if last is not None else 'empty'),
                    parse.loc(n),
                    'an attribute-discard branch must go on with the remaining attributes (and not drop collected ones)',
                )
    if n_paths < 2:
        run.cannot('fewer than 2 DISCARD branches found in parse')


def _passes_rest(ret: ast.Return) -> bool:
    c = ret.value
    return isinstance(c, ast.Call) and bool(c.args) and isinstance(c.args[0], ast.Name) and c.args[0].id in ('left', 'data', 'rest', 'remaining')


def _r6_zero(model: Model, run: Run, parse, attrs: list[dict]) -> None:
    mod = parse.module
    t = _unpack_try(model, parse)
    found = None
    for n in walk_no_nested(parse.node):
        if isinstance(n, ast.If) and any(isinstance(a, ast.Attribute) and a.attr == 'VALID_ZERO' for a in ast.walk(n.test)):
            found = n
    if found is None:
        run.violation(parse.qualname, 'no VALID_ZERO test', parse.loc(), 'zero-length attributes reach the decoders unchecked')
        return
    adds = [c for st in found.body for c in walk_no_nested(st) if isinstance(c, ast.Call) and model.call_matches(mod, c, 'AttributeCollection.add')]
    before = t is not None and found.lineno < t.lineno
    txt = norm(found.test)
    conj = found.test.values if isinstance(found.test, ast.BoolOp) and isinstance(found.test.op, ast.And) else [found.test]
    zero = [b for c in conj for b in [amatch('V_len == 0', c)] if b is not None]
    notvz = [b for c in conj for b in [amatch('not V_k.VALID_ZERO', c)] if b is not None]
    shape_ok = len(zero) == 1 and len(notvz) == 1
    run.check(
        bool(adds) and before and shape_ok,
        parse.qualname,
        'zero-length branch tests length == 0 and not VALID_ZERO, precedes the decoder and adds the marker',
        parse.loc(found),
        'the zero-length test must precede the decoder call, test length == 0 and not VALID_ZERO, and add the marker',
    )
    run.check(
        always_exits(found.body),
        parse.qualname,
        'no path through the zero-length branch reaches the decoder',
        parse.loc(found),
        'an empty value of a class that is not VALID_ZERO must end in a marker on every path: the decoders of the community '
        'attributes, TUNNEL_ENCAP and PREFIX_SID accept an empty value (0 is a multiple of their element size), so a path '
        'that falls through to Attribute.unpack accepts what RFC 7606 calls malformed and the routes are announced',
    )
    allowed_zero = {2, 6, 17}  # AS_PATH (empty on iBGP), ATOMIC_AGGREGATE, AS4_PATH
    for rec in attrs:
        if rec['VALID_ZERO'] is True:
            run.check(
                rec['ID'] in allowed_zero,
                rec['cls'].qualname,
                'VALID_ZERO on attribute %s' % rec['ID'],
                rec['cls'].loc(),
                'only AS_PATH, AS4_PATH and ATOMIC_AGGREGATE may be empty (RFC 4271 4.3 / 5.1.6, RFC 6793)',
            )


RFC7606 = {
    1: 'taw',  # ORIGIN 7.1
    2: 'taw',  # AS_PATH 7.2
    3: 'taw',  # NEXT_HOP 7.3
    4: 'taw',  # MED 7.4
    5: 'taw',  # LOCAL_PREF 7.5
    6: 'discard',  # ATOMIC_AGGREGATE 7.6
    7: 'discard',  # AGGREGATOR 7.7
    9: 'taw',  # ORIGINATOR_ID 7.9
    10: 'taw',  # CLUSTER_LIST 7.10
    14: 'reset',  # MP_REACH 7.11
    15: 'reset',  # MP_UNREACH 7.12
    32: 'taw',  # LARGE_COMMUNITY RFC 8092 section 5
}


def _r7_table(model: Model, run: Run, attrs: list[dict]) -> None:
    by_id: dict[int, list[dict]] = {}
    for rec in attrs:
        if isinstance(rec['ID'], int):
            by_id.setdefault(rec['ID'], []).append(rec)
    for aid, want in sorted(RFC7606.items()):
        recs = by_id.get(aid)
        if not recs:
            run.cannot('attribute %d not registered' % aid)
            continue
        for rec in recs:
            got = 'taw' if rec['TREAT_AS_WITHDRAW'] is True else ('discard' if rec['DISCARD'] is True else 'reset')
            ok = got == want
            if want == 'reset':
                ok = ok and rec['NO_DUPLICATE'] is True
            run.check(
                ok,
                rec['cls'].qualname,
                'RFC 7606 class of attribute %d is %s' % (aid, got),
                rec['cls'].loc(),
                'RFC 7606 section 7 wants %s for attribute %d%s' % (want, aid, ' (and NO_DUPLICATE)' if want == 'reset' else ''),
            )


def _r8_cache(model: Model, run: Run, folder: Folder) -> None:
    from .C19 import cache_guard_rule

    cache_guard_rule(model, run, folder)


# ---------------------------------------------------------------------------------------------- R9
# nested lengths used without a comparison in sight, protected by something else (confirmed by reading)
# keyed by function: the reason given holds for every nested length of that function (and does not depend on how its locals are called)
R9_TRIAGED = {
    'ASPath._unpack_segments_static': 'each AS is read with struct.unpack on an exact-size slice inside a try that turns struct.error / IndexError into Notify(3, 11): a short segment is refused, not shortened',
    'MPRNLRI._parse_nexthop_and_nlris': 'lazy re-parse of bytes MPRNLRI.unpack_attribute validated (next-hop length against the family table and the buffer) before the object was built',
    'Attributes.__iter__': 'read-only view over an attribute block AttributeCollection.parse already accepted (C08.R2 covers the check there)',
}


def _r9_nested_lengths(model: Model, run: Run) -> None:
    from .C03 import decode_reachable
    from .common import CallGraph, short

    cg = CallGraph(model)
    dec = decode_reachable(model, cg)
    scope = 'exabgp.bgp.message.update.attribute.'

    def names(e: ast.AST) -> set[str]:
        return {x.id for x in ast.walk(e) if isinstance(x, ast.Name)}

    def from_content(v: ast.AST) -> str | None:
        for x in ast.walk(v):
            if isinstance(x, ast.Subscript) and dotted(x.value) and (isinstance(x.slice, (ast.Name, ast.BinOp)) or (isinstance(x.slice, ast.Constant) and isinstance(x.slice.value, int))):
                return dotted(x.value)
            if isinstance(x, ast.Call) and (dotted(x.func) or '').rsplit('.', 1)[-1] in ('unpack', 'unpack_from', 'from_bytes') and x.args:
                arg = x.args[1] if len(x.args) >= 2 else x.args[0]
                for y in ast.walk(arg):
                    if isinstance(y, ast.Subscript) and dotted(y.value):
                        return dotted(y.value)
                if dotted(arg):
                    return dotted(arg)
        return None

    n_uses = 0
    n_funcs = 0
    for q in sorted(dec):
        if not q.startswith(scope):
            continue
        fi = model.funcs[q]
        assigns = [n for n in walk_no_nested(fi.node) if isinstance(n, (ast.Assign, ast.AnnAssign)) and n.value is not None]
        lenvars: dict[str, set[str]] = {}
        for a in assigns:
            tg = a.targets[0] if isinstance(a, ast.Assign) else a.target
            b = from_content(a.value)
            if not b:
                continue
            tgs = [tg] if isinstance(tg, ast.Name) else (list(tg.elts) if isinstance(tg, (ast.Tuple, ast.List)) else [])
            for t in tgs:
                if isinstance(t, ast.Name):
                    lenvars.setdefault(t.id, set()).add(b)
        changed = True
        while changed:
            changed = False
            for a in assigns:
                tg = a.targets[0] if isinstance(a, ast.Assign) else a.target
                if isinstance(tg, ast.Name) and isinstance(a.value, (ast.BinOp, ast.Name)) and tg.id not in lenvars:
                    src = names(a.value) & set(lenvars)
                    if src:
                        lenvars[tg.id] = set().union(*[lenvars[x] for x in src])
                        changed = True
        if not lenvars:
            continue
        n_funcs += 1
        run.analysed(fi)
        pm = parent_map(fi.node)
        cursors = {x.id for n in walk_no_nested(fi.node) if isinstance(n, ast.Subscript) for x in ast.walk(n.slice) if isinstance(x, ast.Name)}
        cursors |= {x.id for n in walk_no_nested(fi.node) if isinstance(n, ast.While) for x in ast.walk(n.test) if isinstance(x, ast.Name)}
        uses: list[tuple[ast.AST, set[str], str]] = []
        for n in walk_no_nested(fi.node):
            if isinstance(n, ast.Subscript) and isinstance(n.slice, ast.Slice) and isinstance(n.ctx, ast.Load) and dotted(n.value):
                ls: set[str] = set()
                for part in (n.slice.upper, n.slice.lower):
                    if part is not None:
                        ls |= names(part) & set(lenvars)
                if ls:
                    uses.append((n, ls, 'slice'))
            elif isinstance(n, ast.AugAssign) and isinstance(n.op, ast.Add) and isinstance(n.target, ast.Name) and n.target.id in cursors and names(n.value) & set(lenvars):
                uses.append((n, names(n.value) & set(lenvars), 'advance'))
        for n, ls, kind in uses:
            n_uses += 1
            why = None
            floc = Loc(model, fi)
            for t, _pol in flat_guards(fi.node, n, pm):
                # locals that hold what is left (`available = len(data) - offset`) are written out, the lengths kept by name
                for c in ast.walk(floc.expanded(t, depth=3, keep=sorted(lenvars))):
                    if isinstance(c, ast.Compare) and names(c) & set(lenvars) and ('len(' in norm(c) or any(nm in lenvars or nm in ('remaining', 'left') for nm in names(c))):
                        if 'len(' in norm(c):
                            why = 'compared first: %s' % norm(c)[:70]
            if why is None:
                # the buffer was cut to this very length and checked by the shared helper just before
                for c in walk_no_nested(fi.node):
                    if isinstance(c, ast.Call) and (dotted(c.func) or '').endswith('check_length') and names(c) & ls and getattr(c, 'lineno', 0) <= getattr(n, 'lineno', 0):
                        why = 'length checked by %s' % norm(c)[:60]
            if why is None and short(q) in R9_TRIAGED:
                why = 'triaged: ' + R9_TRIAGED[short(q)]
            inst = '%s: %s %s' % (short(q), kind, norm(n)[:60])
            if why is not None:
                run.ok(inst, why)
            else:
                run.violation(
                    q,
                    '%s by a declared length without a bound check: %s' % (kind, norm(n)[:70]),
                    fi.loc(n),
                    'the length (%s) comes from the attribute and nothing on the way to this statement compares it with the '
                    'size of the buffer: a value whose nested length overruns is decoded as a shorter valid one (or the walk '
                    'jumps past the end and stops) instead of being refused as malformed' % ', '.join(sorted(ls)),
                    [],
                )
    run.extra['nested_length_functions'] = n_funcs
    if n_uses < 12:
        run.cannot('only %d uses of nested declared lengths found in the attribute decoders' % n_uses)
