"""C05 — the session state machine only takes RFC 4271 transitions.  DESIGN.md 3/C05."""

from __future__ import annotations

import ast

from ..cfg import CFG
from ..const import UNKNOWN, Folder
from ..flow import parent_map
from ..model import FuncInfo, Model, dotted, norm, walk_no_nested
from ..report import Run
from ..typestate import propagate
from .common import CallGraph, short

PEER = 'exabgp.reactor.peer.peer.Peer'
PROTO = 'exabgp.reactor.protocol.Protocol'
FSM = 'exabgp.bgp.fsm.FSM'

STATES = ['IDLE', 'ACTIVE', 'CONNECT', 'OPENSENT', 'OPENCONFIRM', 'ESTABLISHED']

# RFC 4271 section 8.2.2, destination -> allowed sources (ExaBGP collapses some events; its own table must be a subset)
RFC_TRANSITIONS = {
    'IDLE': set(STATES),
    'ACTIVE': {'IDLE', 'ACTIVE', 'CONNECT', 'OPENSENT'},
    'CONNECT': {'IDLE', 'CONNECT', 'ACTIVE'},
    'OPENSENT': {'CONNECT', 'ACTIVE'},
    'OPENCONFIRM': {'OPENSENT', 'OPENCONFIRM'},
    'ESTABLISHED': {'OPENCONFIRM', 'ESTABLISHED'},
}


def fsm_table(model: Model, folder: Folder, run: Run) -> dict[str, set[str]]:
    fsm = model.cls(FSM)
    t = fsm.assigns.get('transition')
    out: dict[str, set[str]] = {}
    if not isinstance(t, ast.Dict):
        run.cannot('FSM.transition is not a dict literal')
        return out
    # the enumeration nested in FSM: list(STATE) / tuple(STATE) / [*STATE] is every member, in definition order
    enums: dict[str, list[str]] = {}
    for st in fsm.node.body:
        if isinstance(st, ast.ClassDef):
            enums[st.name] = [tg.id for a in st.body if isinstance(a, ast.Assign) for tg in a.targets if isinstance(tg, ast.Name)]
            enums[st.name] += [a.target.id for a in st.body if isinstance(a, ast.AnnAssign) and a.value is not None and isinstance(a.target, ast.Name)]

    def members(v: ast.expr) -> set[str] | None:
        if isinstance(v, (ast.List, ast.Tuple, ast.Set)):
            got: set[str] = set()
            for e in v.elts:
                if isinstance(e, ast.Starred):
                    sub = members(ast.Call(func=ast.Name(id='list', ctx=ast.Load()), args=[e.value], keywords=[]))
                    if sub is None:
                        return None
                    got |= sub
                elif isinstance(e, (ast.Name, ast.Attribute)):
                    got.add((dotted(e) or '?').rsplit('.', 1)[-1])
                else:
                    return None
            return got
        if isinstance(v, ast.Call) and isinstance(v.func, ast.Name) and v.func.id in ('list', 'tuple', 'set', 'frozenset', 'sorted') and len(v.args) == 1 and not v.keywords:
            d = (dotted(v.args[0]) or '').rsplit('.', 1)[-1]
            if d in enums and enums[d]:
                return set(enums[d])
            return members(v.args[0])
        return None

    for k, v in zip(t.keys, t.values):
        got = members(v) if isinstance(k, (ast.Name, ast.Attribute)) else None
        if got is not None and all(g in STATES for g in got):
            out[(dotted(k) or '?').rsplit('.', 1)[-1]] = got
        else:
            run.cannot('FSM.transition entry not understood: %s' % norm(k))
    return out


def change_target(model: Model, fi: FuncInfo, call: ast.Call) -> str | None:
    if not model.call_matches(fi.module, call, 'FSM.change'):
        return None
    if call.args:
        d = dotted(call.args[0]) or ''
        last = d.rsplit('.', 1)[-1]
        if last in STATES:
            return last
    return '?'


def _calls_in_stmt(node) -> list[ast.Call]:
    """Calls evaluated by a CFG node (statement, or the test/iter of a compound statement), in source order."""
    a = node.ast
    roots: list[ast.AST] = []
    if a is None:
        return []
    if node.kind == 'test':
        if isinstance(a, (ast.If, ast.While)):
            roots = [a.test]
        elif isinstance(a, (ast.For, ast.AsyncFor)):
            roots = [a.iter]
    elif node.kind == 'stmt':
        if isinstance(a, (ast.With, ast.AsyncWith)):
            roots = [it.context_expr for it in a.items]
        elif isinstance(a, (ast.FunctionDef, ast.AsyncFunctionDef, ast.ClassDef)):
            roots = []
        else:
            roots = [a]
    out = []
    for r in roots:
        for n in walk_no_nested(r):
            if isinstance(n, ast.Call):
                out.append(n)
    out.sort(key=lambda c: (c.end_lineno, c.end_col_offset))
    return out


class FsmSummaries:
    """Per Peer method: the set of FSM states it may leave behind ('=' means unchanged)."""

    def __init__(self, model: Model, table: dict[str, set[str]], run: Run | None = None) -> None:
        self.model = model
        self.table = table
        self.run = run
        self.summ: dict[str, frozenset[str]] = {}
        self.violations: list[tuple[FuncInfo, ast.Call, str, str]] = []
        self.sites = 0
        self._busy: set[str] = set()

    def summary(self, qn: str) -> frozenset[str]:
        """Effect of calling qn: set of resulting states, '=' for "whatever it was"."""
        if qn in self.summ:
            return self.summ[qn]
        if qn in self._busy or not qn.startswith(PEER + '.'):
            return frozenset({'='})
        fi = self.model.funcs.get(qn)
        if fi is None:
            return frozenset({'='})
        self._busy.add(qn)
        res = self.analyse(fi, frozenset({'='}), record=False)
        self._busy.discard(qn)
        out = frozenset(res)
        self.summ[qn] = out
        return out

    def analyse(self, fi: FuncInfo, entry: frozenset[str], record: bool) -> set[str]:
        """Propagate the set of possible FSM states through fi; returns states at exits (normal + raise)."""
        model = self.model
        cfg = CFG(fi.node)
        results: set[str] = set()

        def transfer(node, val):
            cur = val
            for call in _calls_in_stmt(node):
                tgt = change_target(model, fi, call)
                if tgt is not None:
                    if record:
                        self.sites += 1
                        if tgt == '?':
                            self.violations.append((fi, call, cur, '?'))
                        elif cur != '=' and cur not in self.table.get(tgt, set()):
                            self.violations.append((fi, call, cur, tgt))
                    cur = tgt
                    continue
                for c in model.callees(fi.module, call):
                    if c.startswith(PEER + '.') and c != fi.qualname and c in model.funcs:
                        s = self.summary(c)
                        if s != frozenset({'='}):
                            # several outcomes: fork
                            outs = []
                            for st in s:
                                outs.append(cur if st == '=' else st)
                            if len(set(outs)) == 1:
                                cur = outs[0]
                            else:
                                # fork handled by returning several values: approximate by continuing each
                                return self._fork(node, fi, call, outs, record)
            return [cur]

        all_vals: set[str] = set()
        for e in entry:
            res = propagate(cfg, e, transfer, exc_transfer=lambda n, v: v)
            all_vals |= res.exit_values | res.raise_values
            if record:
                for nid, vals in res.at.items():
                    pass
        return all_vals

    def _fork(self, node, fi, call, outs, record):
        # continue the remaining calls of the statement for each outcome (rare: keep simple, ignore the rest)
        return list(set(outs))


def check(model: Model, run: Run) -> None:
    folder = Folder(model)
    cg = CallGraph(model, cha=False)
    table = fsm_table(model, folder, run)

    # ------------------------------------------------------------------ R1
    run.rule(
        'C05.R1',
        "FSM.transition is a subset of the RFC 4271 8.2.2 relation, and along every CFG path of the Peer methods each "
        'fsm.change(X) happens in a state from which the table allows X (helper calls summarised, correlated guards)',
        floor=7,
    )
    for to, frm in sorted(table.items()):
        extra = frm - RFC_TRANSITIONS.get(to, set())
        run.check(not extra, FSM, 'transition[%s] = %s' % (to, sorted(frm)), model.cls(FSM).loc(), 'sources %s are not RFC 4271 transitions into %s' % (sorted(extra), to))
    if set(table) != set(STATES):
        run.cannot('FSM.transition keys %s' % sorted(table))
    summ = FsmSummaries(model, table, run)
    est = model.func(PEER + '._establish')
    entries = {
        PEER + '._establish': frozenset({'IDLE'}),
        PEER + '._main': frozenset({'ESTABLISHED'}),
        PEER + '._close': frozenset(STATES),
        PEER + '.stop': frozenset(STATES),
        PEER + '._connect': frozenset({'IDLE'}),
    }
    n_change_sites = 0
    for fi in model.funcs.values():
        if not fi.qualname.startswith(PEER + '.'):
            continue
        has = any(isinstance(n, ast.Call) and change_target(model, fi, n) for n in walk_no_nested(fi.node))
        if not has:
            continue
        run.analysed(fi)
        entry = entries.get(fi.qualname)
        if entry is None:
            run.cannot('fsm.change in %s: no entry state known for this method' % fi.qualname)
            continue
        before = len(summ.violations)
        summ.analyse(fi, entry, record=True)
        n_change_sites += sum(1 for n in walk_no_nested(fi.node) if isinstance(n, ast.Call) and change_target(model, fi, n))
        bad = summ.violations[before:]
        seen = set()
        for f, call, cur, tgt in bad:
            k = (call.lineno, cur, tgt)
            if k in seen:
                continue
            seen.add(k)
            run.violation(
                f.qualname,
                'change(%s) reached in state %s' % (tgt, cur),
                f.loc(call),
                'FSM.transition does not allow %s -> %s; a path through %s reaches this call in state %s' % (cur, tgt, short(f.qualname), cur),
            )
        if not bad:
            for n in walk_no_nested(fi.node):
                if isinstance(n, ast.Call) and change_target(model, fi, n):
                    run.ok('%s: change(%s)' % (short(fi.qualname), change_target(model, fi, n)), 'allowed from every state that reaches it')
    if n_change_sites < 6:
        run.cannot('only %d fsm.change sites found (floor 6)' % n_change_sites)
    # who else changes the FSM?
    for fi in model.funcs.values():
        if fi.qualname.startswith(PEER + '.') or fi.qualname.startswith(FSM + '.'):
            continue
        for n in walk_no_nested(fi.node):
            if isinstance(n, ast.Call) and change_target(model, fi, n):
                run.violation(fi.qualname, norm(n), fi.loc(n), 'the FSM is changed outside Peer: the transition analysis does not cover this site')
            if isinstance(n, (ast.Assign, ast.AugAssign)):
                for t in n.targets if isinstance(n, ast.Assign) else [n.target]:
                    if isinstance(t, ast.Attribute) and t.attr == 'state' and 'FSM' in model.type_of(fi.module, t.value):
                        run.violation(fi.qualname, norm(n), fi.loc(n), 'FSM.state written directly, bypassing change()')

    # ------------------------------------------------------------------ R2
    run.rule(
        'C05.R2',
        'change(ESTABLISHED) is reached only after: our OPEN sent (new_open) and recorded (negotiated.sent), the peer OPEN '
        'read (read_open) and recorded (negotiated.received), validate_open after both, then our KEEPALIVE sent and '
        "the peer's KEEPALIVE read - on every path, with correlated guards",
        floor=1,
    )
    _r2_established(model, run, est, cg)
    _r2_established(model, run, est, cg, 'OPENCONFIRM')

    # ------------------------------------------------------------------ R3
    run.rule(
        'C05.R3',
        'UPDATE / EOR / ROUTE-REFRESH / OPERATIONAL are sent only from Peer._main: every caller chain of '
        'Protocol.new_update_generator/new_eors/new_refresh/new_operational passes Peer._main, and _main is called only '
        'in _run after _establish returned',
        floor=4,
    )
    _r3_senders(model, run, cg)

    # ------------------------------------------------------------------ R4
    run.rule(
        'C05.R4',
        'leaving a connected state closes the transport: every change(IDLE) outside _establish lies in _close (which '
        'closes self.proto when set) or in stop(); every call of stop() is paired in its caller with a closing call '
        '(_stop/_close/_reset) on all paths',
        floor=4,
    )
    _r4_close(model, run)

    # ------------------------------------------------------------------ R5
    run.rule(
        'C05.R5',
        "API up/down pairing: processes.up is emitted only in _main, processes.down only in _close under 'state not in "
        "(IDLE, ACTIVE)'; in every handler of _run no change(IDLE) (stop()) may run before _reset/_close, otherwise "
        'the down event of an established session is suppressed',
        floor=4,
    )
    _r5_updown(model, run)


EVENTS = {
    PROTO + '.new_open': 'new_open',
    PROTO + '.read_open': 'read_open',
    'exabgp.bgp.message.open.capability.negotiated.Negotiated.sent': 'sent',
    'exabgp.bgp.message.open.capability.negotiated.Negotiated.received': 'received',
    PROTO + '.validate_open': 'validate_open',
    PROTO + '.new_keepalive': 'new_keepalive',
    PROTO + '.read_keepalive': 'read_keepalive',
}


def _events_of_call(model: Model, cg: CallGraph, fi: FuncInfo, call: ast.Call) -> list[str]:
    out = []
    for c in model.callees(fi.module, call):
        if c in EVENTS:
            out.append(EVENTS[c])
        elif c.startswith(PEER + '.') and c in model.funcs and c != fi.qualname:
            # one level of helper: the helper's own direct calls
            h = model.funcs[c]
            for n in sorted((x for x in walk_no_nested(h.node) if isinstance(x, ast.Call)), key=lambda x: (x.lineno, x.col_offset)):
                for cc in model.callees(h.module, n):
                    if cc in EVENTS:
                        out.append(EVENTS[cc])
    return out


def _r2_established(model: Model, run: Run, est: FuncInfo, cg: CallGraph, state: str = 'ESTABLISHED') -> None:
    cfg = CFG(est.node)
    site = None
    for n in walk_no_nested(est.node):
        if isinstance(n, ast.Call) and change_target(model, est, n) == state:
            site = n
    if site is None:
        run.cannot('change(%s) not found in _establish' % state)
        return
    reached: list[tuple] = []

    def transfer(node, val):
        cur = val
        for call in _calls_in_stmt(node):
            if call is site:
                reached.append(cur)
            evs = _events_of_call(model, cg, est, call)
            for e in evs:
                if len(cur) < 40:
                    cur = cur + (e,)
        return [cur]

    res = propagate(cfg, (), transfer)
    run.paths += len(reached)
    if not reached:
        run.cannot('change(ESTABLISHED) unreachable in the CFG of _establish')
        return
    bad = None
    for seq in set(reached):
        why = _order_ok(seq, state)
        if why:
            bad = (seq, why)
            break
    if bad is None:
        run.ok('_establish: change(%s)' % state, '%d distinct event sequences, e.g. %s' % (len(set(reached)), list(sorted(set(reached))[0])))
    else:
        run.violation(
            est.qualname,
            'change(%s) reachable after %s' % (state, list(bad[0])),
            est.loc(site),
            ('ESTABLISHED must follow OPEN sent and recorded, peer OPEN read and recorded, validation after both, KEEPALIVE '
            'sent and KEEPALIVE read: ' if state == 'ESTABLISHED' else 'RFC 4271 8.2.2: OpenSent -> OpenConfirm is the transition for an OPEN that was received AND found acceptable (Event 19); an OPEN that fails the check takes OpenSent to Idle without passing OpenConfirm: ') + bad[1],
        )


def _order_ok(seq: tuple, state: str = 'ESTABLISHED') -> str:
    need = ['new_open', 'read_open', 'sent', 'received', 'validate_open', 'new_keepalive', 'read_keepalive']
    if state != 'ESTABLISHED':
        need = need[:5]
    for n in need:
        if n not in seq:
            return 'missing ' + n
    first = {n: seq.index(n) for n in need}
    last = {n: len(seq) - 1 - seq[::-1].index(n) for n in need}
    if not (first['validate_open'] > last['sent'] and first['validate_open'] > last['received']):
        return 'validate_open does not follow both negotiated.sent and negotiated.received'
    if not (first['sent'] > first['new_open']):
        return 'negotiated.sent precedes new_open'
    if not (first['received'] > first['read_open']):
        return 'negotiated.received precedes read_open'
    if state == 'ESTABLISHED' and not (first['new_keepalive'] > first['validate_open'] and first['read_keepalive'] > first['validate_open']):
        return 'keepalive exchange does not follow validate_open'
    return ''


SENDERS = ['new_update_generator', 'new_eors', 'new_refresh', 'new_operational', 'new_update']


def _r3_senders(model: Model, run: Run, cg: CallGraph) -> None:
    main = PEER + '._main'
    rev: dict[str, set[str]] = {}
    for f, outs in cg.edges.items():
        for o in outs:
            rev.setdefault(o, set()).add(f)
    n = 0
    for s in SENDERS:
        q = PROTO + '.' + s
        if q not in model.funcs:
            continue
        n += 1
        # backwards reachability without passing _main
        seen = {q}
        stack = [q]
        escapes = []
        while stack:
            x = stack.pop()
            for p in rev.get(x, ()):
                if p == main or p in seen:
                    continue
                seen.add(p)
                stack.append(p)
        # any function in `seen` (other than the sender) that is not (transitively only) called from _main
        for f in sorted(seen - {q}):
            callers = rev.get(f, set())
            if not callers:
                escapes.append(f)
        # every member must itself be reachable from _main
        fwd = cg.reachable([main])
        outside = [f for f in sorted(seen - {q}) if f not in fwd]
        if not outside and not escapes:
            run.ok('Protocol.%s' % s, 'callers: %s (all below Peer._main)' % sorted(short(x) for x in seen - {q}))
        else:
            for f in outside or escapes:
                fi = model.funcs[f]
                run.violation(
                    f,
                    'reaches Protocol.%s without passing Peer._main' % s,
                    fi.loc(),
                    'only the ESTABLISHED main loop may send UPDATE / EOR / ROUTE-REFRESH / OPERATIONAL messages',
                )
    if n < 4:
        run.cannot('only %d sender methods found on Protocol' % n)
    # _main is called only from _run, after _establish
    runf = model.func(PEER + '._run')
    callers = sorted(rev.get(main, set()))
    run.check(callers == [runf.qualname], main, 'called from %s' % [short(c) for c in callers], model.func(main).loc(), '_main may only be entered from _run')
    cfg = CFG(runf.node)
    mcalls = model.calls_to(runf.module, runf.node, 'Peer._main')
    ecalls = model.calls_to(runf.module, runf.node, 'Peer._establish')
    ok = False
    if mcalls and ecalls:
        a = cfg.stmt_node_containing(ecalls[0])
        b = cfg.stmt_node_containing(mcalls[0])
        ok = a is not None and b is not None and cfg.dominates(a, b) and a.id != b.id
    run.check(ok, runf.qualname, '_establish() dominates _main()', runf.loc(), '_main must run only after _establish returned normally')
    # inside _main nothing changes the FSM before the senders
    mainf = model.func(main)
    chg = [c for c in walk_no_nested(mainf.node) if isinstance(c, ast.Call) and change_target(model, mainf, c)]
    run.check(not chg, main, 'no fsm.change inside _main', mainf.loc(chg[0]) if chg else mainf.loc(), '_main must not leave ESTABLISHED while it keeps sending')


CLOSERS = ('Peer._close', 'Peer._reset', 'Peer._stop')


def _r4_close(model: Model, run: Run) -> None:
    close = model.func(PEER + '._close')
    run.analysed(close)
    # _close: closes proto when set, on all paths after change(IDLE)
    pc = [c for c in walk_no_nested(close.node) if isinstance(c, ast.Call) and model.call_matches(close.module, c, 'Protocol.close')]
    ok = False
    if pc:
        from ..flow import flat_guards

        g = flat_guards(close.node, pc[0])
        ok = all((dotted(t) == 'self.proto' and pol) for t, pol in g) and len(g) <= 1
    run.check(ok, close.qualname, 'closes self.proto when set', close.loc(pc[0]) if pc else close.loc(), '_close must call self.proto.close() guarded only by `if self.proto`')
    for name in ('_reset', '_stop'):
        f = model.func(PEER + '.' + name)
        run.analysed(f)
        calls = model.calls_to(f.module, f.node, 'Peer._close')
        if name == '_reset':
            cfg = CFG(f.node)
            n0 = cfg.stmt_node_containing(calls[0]) if calls else None
            ok = n0 is not None and all(cfg.dominates(n0, cfg.nodes[p]) for p, _ in cfg.exit.pred)
        else:
            from ..flow import flat_guards

            ok = bool(calls) and all(dotted(t) == 'self.proto' and pol for t, pol in flat_guards(f.node, calls[0]))
        run.check(ok, f.qualname, 'reaches _close', f.loc(), '%s must close the session' % name)
    # change(IDLE) sites
    for fi in model.funcs.values():
        if not fi.qualname.startswith(PEER + '.'):
            continue
        for n in walk_no_nested(fi.node):
            if isinstance(n, ast.Call) and change_target(model, fi, n) == 'IDLE':
                where = fi.qualname.rsplit('.', 1)[-1]
                if where == '_establish':
                    # ACTIVE -> IDLE before any connection exists (passive wait)
                    before = [c for c in walk_no_nested(fi.node) if isinstance(c, ast.Call) and change_target(model, fi, c) in ('CONNECT', 'OPENSENT') and c.lineno < n.lineno]
                    run.check(not before, fi.qualname, 'change(IDLE) before any connected state', fi.loc(n), 'IDLE inside _establish must precede CONNECT')
                else:
                    run.check(where in ('_close', 'stop'), fi.qualname, 'change(IDLE) in %s' % where, fi.loc(n), 'IDLE may only be entered through _close or stop()')
    # callers of stop()
    for fi in model.funcs_in('exabgp/reactor/'):
        calls = model.calls_to(fi.module, fi.node, 'Peer.stop')
        if not calls:
            continue
        run.analysed(fi)
        closers = model.calls_to(fi.module, fi.node, *CLOSERS)
        cfg = CFG(fi.node)
        for c in calls:
            cn = cfg.stmt_node_containing(c)
            ok = False
            why = 'no closing call in the same function'
            if cn is not None:
                knodes = {kn.id for kn in (cfg.stmt_node_containing(k) for k in closers) if kn is not None}
                if knodes:
                    before, _ = cfg.all_paths_pass(cfg.entry.id, knodes, {cn.id})
                    after, _ = cfg.all_paths_pass(cn.id, knodes, {cfg.exit.id}, skip_labels=('exc',))
                    ok = before or after
            inst = '%s: %s' % (short(fi.qualname), norm(c))
            if ok:
                run.ok(inst, 'paired with a closing call')
            elif (fi.qualname, 'stop') in STOP_EXEMPT:
                run.ok(inst, 'exempt: ' + STOP_EXEMPT[(fi.qualname, 'stop')])
            else:
                run.violation(fi.qualname, 'stop() without closing call', fi.loc(c), 'stop() moves the FSM to IDLE; ' + why + ' closes the transport if one is open')


STOP_EXEMPT = {
    (PEER + '.run', 'stop'): 'run() starts a peer task: no outgoing transport exists yet; an accepted incoming connection is '
    'closed by the reactor teardown that follows processes.broken (documented exemption, one symbol)',
}


def _state_set(model: Model, fi: FuncInfo, e: ast.expr, depth: int = 0) -> set[str] | None:
    """The FSM states a container expression denotes: a literal of FSM.X names, or a class / module constant bound to one."""
    if depth > 4:
        return None
    if isinstance(e, (ast.Tuple, ast.List, ast.Set)):
        out = set()
        for x in e.elts:
            last = (dotted(x) or '?').rsplit('.', 1)[-1]
            if last not in STATES:
                return None
            out.add(last)
        return out
    if isinstance(e, ast.Call) and isinstance(e.func, ast.Name) and e.func.id in ('tuple', 'list', 'set', 'frozenset') and len(e.args) == 1:
        return _state_set(model, fi, e.args[0], depth + 1)
    d = dotted(e) or ''
    if isinstance(e, ast.Attribute) and fi.cls is not None and d.count('.') == 1 and d.split('.')[0] in ('self', 'cls', fi.cls.name):
        for cq in fi.cls.mro or [fi.cls.qualname]:
            ci = model.classes.get(cq)
            if ci is not None and e.attr in ci.assigns:
                return _state_set(model, fi, ci.assigns[e.attr], depth + 1)
        return None
    if isinstance(e, ast.Name) and e.id in fi.module.assigns:
        return _state_set(model, fi, fi.module.assigns[e.id], depth + 1)
    return None


def _r5_updown(model: Model, run: Run) -> None:
    ups = []
    downs = []
    for fi in model.funcs_in('exabgp/reactor/'):
        for n in walk_no_nested(fi.node):
            if isinstance(n, ast.Call):
                if model.call_matches(fi.module, n, 'Processes.up'):
                    ups.append((fi, n))
                if model.call_matches(fi.module, n, 'Processes.down'):
                    downs.append((fi, n))
    run.check(bool(ups) and all(f.qualname == PEER + '._main' for f, _ in ups), PEER, 'processes.up sites: %s' % [short(f.qualname) for f, _ in ups], model.cls(PEER).loc(), 'up must be emitted only by _main')
    run.check(bool(downs) and all(f.qualname == PEER + '._close' for f, _ in downs), PEER, 'processes.down sites: %s' % [short(f.qualname) for f, _ in downs], model.cls(PEER).loc(), 'down must be emitted only by _close')
    # one session, one up: _main runs once per established session (its loop serves the whole session), so a second call
    # site, or one inside a loop, announces the same session twice without a down in between
    main_ups = [(f, n) for f, n in ups if f.qualname == PEER + '._main']
    if main_ups:
        f0 = main_ups[0][0]
        par = parent_map(f0.node)
        looped = []
        for f, n in main_ups:
            x = n
            while id(x) in par:
                x = par[id(x)]
                if isinstance(x, (ast.While, ast.For, ast.AsyncFor)):
                    looped.append(n)
                    break
        bad = looped[0] if looped else (main_ups[1][1] if len(main_ups) > 1 else None)
        run.check(bad is None, f0.qualname, 'processes.up is emitted once per session (%d site(s), %d inside a loop)' % (len(main_ups), len(looped)), f0.loc(bad) if bad is not None else f0.loc(main_ups[0][1]), 'an "up" emitted again while the session stays established (on a reload, on every iteration) is not preceded by a "down": helpers see up, up, down')
    # the down guard
    if downs:
        from ..flow import flat_guards

        f, n = downs[0]
        g = flat_guards(f.node, n)
        ok = any(isinstance(t, ast.Compare) and isinstance(t.ops[0], ast.NotIn) and _state_set(model, f, t.comparators[0]) == {'IDLE', 'ACTIVE'} and pol for t, pol in g)
        run.check(ok, f.qualname, 'down guarded by fsm not in (IDLE, ACTIVE)', f.loc(n), 'down must be sent exactly when a session was beyond ACTIVE')
        # and precedes change(IDLE) in _close
        chg = [c for c in walk_no_nested(f.node) if isinstance(c, ast.Call) and change_target(model, f, c) == 'IDLE']
        run.check(bool(chg) and chg[0].lineno > n.lineno, f.qualname, 'down precedes change(IDLE)', f.loc(n), 'the state test must see the old state')
    # _run handlers: no stop() before _reset/_close
    runf = model.func(PEER + '._run')
    run.analysed(runf)
    n_arms = 0
    for t in runf.node.body:
        if not isinstance(t, ast.Try):
            continue
        for h in t.handlers:
            from ..cfg import handler_names

            stops = model.calls_to(runf.module, h, 'Peer.stop')
            resets = model.calls_to(runf.module, h, 'Peer._reset', 'Peer._close')
            n_arms += 1
            name = ','.join(handler_names(h))
            if not resets:
                run.violation(runf.qualname, 'except %s: no _reset' % name, runf.loc(h), 'every failure arm of _run must reset the session')
                continue
            if not stops:
                run.ok('_run: except %s' % name, '_reset only')
                continue
            # every stop must come after a reset on all paths inside the handler: check by order within straight-line blocks
            first_reset = min(r.lineno for r in resets)
            early = [s for s in stops if s.lineno < first_reset]
            if early:
                run.violation(
                    runf.qualname,
                    'except %s: stop() before _reset()' % name,
                    runf.loc(early[0]),
                    'stop() sets the FSM to IDLE, so the _close() inside the following _reset() sees IDLE and suppresses '
                    'processes.down: an "up" of this neighbor is not followed by a "down" when the attempt limit is reached',
                )
            else:
                run.ok('_run: except %s' % name, '_reset precedes stop')
    if n_arms < 5:
        run.cannot('fewer than 5 except arms in _run')
