"""C13 — API events stay well-formed whatever a peer sends.  DESIGN.md 3/C13."""

from __future__ import annotations

import ast

from ..alpha import Loc
from ..const import UNKNOWN, Folder
from ..flow import Slicer, flat_guards, parent_map
from ..model import FuncInfo, Model, dotted, norm, walk_no_nested, walk_with_lambdas
from ..report import Run
from ..strsafe import Safe, Taint, interpolations
from .common import short
from . import registry_helpers as rh

RESP = 'exabgp/reactor/api/response/'
PROCESSES = 'exabgp.reactor.api.processes.Processes'

# types whose str() is a closed alphabet (digits, hex, dots, colons, fixed words) - each confirmed by reading __str__
CLOSED = {
    'exabgp.protocol.ip.IP',
    'exabgp.protocol.ip.IPv4',
    'exabgp.protocol.ip.IPv6',
    'exabgp.protocol.ip.IPSelf',
    'exabgp.protocol.ip.IPRange',
    'exabgp.protocol.ip._NoNextHop',
    'exabgp.bgp.message.open.routerid.RouterID',
    'exabgp.bgp.message.open.asn.ASN',
    'exabgp.bgp.message.open.holdtime.HoldTime',
    'exabgp.bgp.message.open.version.Version',
    'exabgp.protocol.family.AFI',
    'exabgp.protocol.family.SAFI',
    'exabgp.protocol.family.Family',
    'exabgp.bgp.message.update.nlri.qualifier.rd.RouteDistinguisher',
    'exabgp.bgp.message.update.nlri.qualifier.labels.Labels',
    'exabgp.bgp.message.update.nlri.qualifier.path.PathInfo',
    'exabgp.bgp.message.update.nlri.qualifier.esi.ESI',
    'exabgp.bgp.message.update.nlri.qualifier.etag.EthernetTag',
    'exabgp.bgp.message.update.nlri.qualifier.mac.MAC',
    'exabgp.bgp.message.update.nlri.cidr.CIDR',
    'exabgp.bgp.fsm.FSM',
    'exabgp.bgp.message.message._MessageCode',
    'exabgp.bgp.message.open.capability.capability.CapabilityCode',
    'exabgp.util.enumeration.TriState',
}

JSON_SANITISERS = {'json.dumps', '_string', 'hexstring', '_as_json_scalar'}
TEXT_SANITISERS = {'oneline', 'hexstring'}
# parameters of the encoder methods that are produced by ExaBGP itself, never by a peer
INTERNAL_PARAMS = {'direction', 'what', 'category', 'message_type', 'compact', 'version', 'content', 'header_str', 'body_str', 'signal', 'include_nexthop', 'generic', 'content', 'message'}


def _encoder_methods(model: Model, rel: str, cls_name: str) -> list[FuncInfo]:
    out = []
    for fi in model.funcs.values():
        if fi.module.rel == rel and fi.cls is not None and fi.cls.name == cls_name and fi.parent is None:
            out.append(fi)
    return sorted(out, key=lambda f: f.node.lineno)


def check(model: Model, run: Run) -> None:
    folder = Folder(model)
    taint = Taint(model)
    run.extra['tainted_members'] = sorted('%s.%s' % (c.rsplit('.', 1)[-1], m) for c, m in taint.members)
    if len(taint.members) < 8:
        run.cannot('only %d peer-text members found (floor 8)' % len(taint.members))

    jsafe = Safe(model, taint, JSON_SANITISERS, CLOSED, {'time', 'getpid', 'getppid', 'gethostname'}, INTERNAL_PARAMS)
    jsafe.triaged = set(JSON_TRIAGED)
    tsafe = Safe(model, taint, TEXT_SANITISERS, CLOSED, {'time', 'getpid', 'getppid', 'gethostname', '_header_body'}, INTERNAL_PARAMS)

    # ------------------------------------------------------------------ R1 JSON escape-or-closed-type
    run.rule(
        'C13.R1',
        'JSON: every value interpolated into a JSON fragment by the response encoders and by the json() methods of the '
        'message classes is int-like, of a closed-alphabet type, a nested json() result, or passes json.dumps / _string / '
        'hexstring; members holding text decoded from wire bytes (host name, software version, BGP-LS names, SR policy '
        'names, notification data) are tracked field by field',
        floor=150,
    )
    targets: list[FuncInfo] = []
    for rel, cn in ((RESP + 'json.py', 'JSON'), (RESP + 'v4/json.py', 'V4JSON')):
        targets += _encoder_methods(model, rel, cn)
    jm = [fi for fi in model.funcs.values() if fi.name in ('json', 'v4_json', '_generate_json') and fi.module.rel.startswith('exabgp/bgp/') and fi.cls is not None]
    if len(jm) < 100:
        run.cannot('only %d json() methods found (floor 100)' % len(jm))
    targets += sorted(jm, key=lambda f: f.qualname)
    n_interp = 0
    for fi in targets:
        run.analysed(fi)
        sl = Slicer(model, fi)
        for container, value in interpolations(fi.node):
            n_interp += 1
            why = jsafe.why_tainted(value, fi, sl)
            inst = '%s: {%s}' % (short(fi.qualname), norm(value)[:50])
            if why is None:
                run.ok(inst)
            elif fi.name == '_generate_json' and _dead_fallback(model, folder, fi, value):
                run.ok(inst, 'unreachable fallback: every kind of the representation table is handled by an earlier branch')
            elif (fi.qualname, norm(value)) in JSON_TRIAGED:
                run.ok(inst, 'triaged: ' + JSON_TRIAGED[(fi.qualname, norm(value))])
            else:
                run.violation(fi.qualname, 'unescaped {%s} in %s' % (norm(value)[:60], norm(container)[:60]), fi.loc(value), 'a peer-chosen string can reach this JSON fragment without escaping: %s; it can close the string and add or forge fields, or make the line unparseable' % why)
    run.extra['json_interpolations'] = n_interp

    # ------------------------------------------------------------------ R2 text
    run.rule('C13.R2', 'text: every value interpolated by the Text / V4Text encoders is int-like, closed-alphabet, or passes oneline() / hexstring()', floor=40)
    for rel, cn in ((RESP + 'text.py', 'Text'), (RESP + 'v4/text.py', 'V4Text')):
        for fi in _encoder_methods(model, rel, cn):
            run.analysed(fi)
            sl = Slicer(model, fi)
            for container, value in interpolations(fi.node):
                why = tsafe.why_tainted(value, fi, sl)
                inst = '%s: {%s}' % (short(fi.qualname), norm(value)[:50])
                if why is None:
                    run.ok(inst)
                elif (fi.qualname, norm(value)) in TEXT_TRIAGED:
                    run.ok(inst, 'triaged: ' + TEXT_TRIAGED[(fi.qualname, norm(value))])
                else:
                    run.violation(fi.qualname, 'unescaped {%s}' % norm(value)[:60], fi.loc(value), 'a peer-chosen string can reach this text event without passing oneline(): %s; a CR/LF in it forges an event line' % why)

    # ------------------------------------------------------------------ R3 key tables injective
    run.rule('C13.R3', 'table-driven emitters do not map two entries that can occur in one object to the same JSON key (AttributeCollection.representation)', floor=15)
    _r3_keys(model, run, folder)

    # pseudo-attributes (NO_GENERATION: treat-as-withdraw / discard markers, NEXT_HOP) share keys such as "error": they are
    # rendered never, except NEXT_HOP when the caller asks for it
    gj = model.func('exabgp.bgp.message.update.attribute.collection.AttributeCollection._generate_json')
    run.analysed(gj)
    gl = [lp for lp in walk_no_nested(gj.node) if isinstance(lp, ast.For)]
    incl = gj.node.args.args[1].arg if len(gj.node.args.args) > 1 else '?'

    def ev3(t: ast.AST, env: dict):
        if isinstance(t, ast.BoolOp):
            vals = [ev3(v, env) for v in t.values]
            if any(v is None for v in vals):
                return None
            return all(vals) if isinstance(t.op, ast.And) else any(vals)
        if isinstance(t, ast.UnaryOp) and isinstance(t.op, ast.Not):
            v = ev3(t.operand, env)
            return None if v is None else not v
        if isinstance(t, ast.Attribute) and t.attr == 'NO_GENERATION':
            return env['ng']
        if isinstance(t, ast.Name) and t.id == incl:
            return env['incl']
        if isinstance(t, ast.Compare) and len(t.ops) == 1 and (dotted(t.comparators[0]) or '').endswith('CODE.NEXT_HOP') and isinstance(t.ops[0], (ast.Eq, ast.NotEq)):
            return env['nh'] == isinstance(t.ops[0], ast.Eq)
        return None

    def skipped(body: list[ast.stmt], env: dict):
        for st in body:
            if isinstance(st, ast.Continue):
                return True
            if isinstance(st, ast.If):
                v = ev3(st.test, env)
                if v is None:
                    if any(isinstance(x, ast.Attribute) and x.attr == 'NO_GENERATION' for x in ast.walk(st.test)):
                        return None
                    continue  # a test on something else (INTERNAL codes, representation): not what is judged here
                r = skipped(st.body if v else st.orelse, env)
                if r is not False:
                    return r
        return False

    ok_ng = bool(gl)
    detail = []
    for ng_incl, nh in ((False, False), (False, True), (True, False), (True, True)):
        r = skipped(gl[0].body, {'ng': True, 'incl': ng_incl, 'nh': nh}) if gl else None
        want = not (ng_incl and nh)
        detail.append('include_nexthop=%s next-hop=%s skipped=%s' % (ng_incl, nh, r))
        ok_ng = ok_ng and r is want
    run.check(ok_ng, gj.qualname, 'NO_GENERATION attributes are rendered only for NEXT_HOP with include_nexthop', gj.loc(), 'the treat-as-withdraw and discard markers both render under the key "error": an UPDATE carrying both (or any pseudo-attribute when withdraws are present) yields an object with a duplicate key; ' + '; '.join(detail))

    # ------------------------------------------------------------------ R7 records are not torn by a slow consumer
    run.rule('C13.R7', 'a record that could not be written whole to an API process goes back to the FRONT of its queue (flush_write_queue re-queues what it popped with appendleft only)', floor=1)
    fw = model.func('exabgp.reactor.api.processes.Processes.flush_write_queue')
    run.analysed(fw)
    fwl = Loc(model, fw)
    popped = fwl.from_value(lambda v: isinstance(v, ast.Call) and isinstance(v.func, ast.Attribute) and v.func.attr == 'popleft')
    back, front = [], []
    for c in walk_no_nested(fw.node):
        if isinstance(c, ast.Call) and isinstance(c.func, ast.Attribute) and c.func.attr in ('append', 'appendleft', 'extend', 'insert') and c.args and fwl.depends_on(c.args[-1], popped):
            (front if c.func.attr == 'appendleft' else back).append(c)
    run.check(bool(popped) and len(front) >= 2 and not back, fw.qualname, 'unsent bytes go back to the front of the queue (%d sites, %d to the back)' % (len(front), len(back)), fw.loc(back[0]) if back else fw.loc(), 'after a partial write or EAGAIN the remainder of the record is appended BEHIND the events queued meanwhile: the API process reads the head of one event, another whole event, then the tail - neither line parses')

    # ------------------------------------------------------------------ R4 alphabet within the pipe codec
    run.rule('C13.R4', 'everything written to an API process is ASCII: Processes.write encodes with a strict ASCII codec, so json.dumps must keep ensure_ascii (default) and oneline() must confine its output to ASCII', floor=3)
    _r4_ascii(model, run, folder)

    # ------------------------------------------------------------------ R5 one line per event
    run.rule('C13.R5', 'one record per event: no literal newline inside a JSON template; every text event template ends with exactly one newline per line of its shape; the JSON envelope carries exabgp,time,host,pid,ppid,counter,type', floor=30)
    _r5_lines(model, run)

    # ------------------------------------------------------------------ R8 members go in objects, values in lists
    run.rule(
        'C13.R8',
        'a JSON list is filled with values and an object with members: the json() of a route class returns one kind of fragment '
        '({...} value, or "key": ... member), and the update encoders put into a [ ... ] list only routes whose json() is a value - '
        'the End-of-RIB pseudo route renders as the member "eor": {...}, which inside a list is not JSON',
        floor=20,
    )
    _r8_fragment_kinds(model, run)

    # ------------------------------------------------------------------ R9 rendering cannot fail on what the peer sent
    run.rule(
        'C13.R9',
        'an event can always be rendered: the response encoders decode / encode peer bytes only with an error handler '
        "(.decode('utf-8', 'replace')), never with a strict codec - a NOTIFICATION whose data is not UTF-8 must still give its "
        'event (hex data plus a lossy text), not a UnicodeDecodeError out of Protocol.read_message',
        floor=3,
    )
    from .common import implicit_raise_sites

    n9 = 0
    for fi in sorted(model.funcs.values(), key=lambda f: f.qualname):
        if not fi.module.rel.startswith('exabgp/reactor/api/response/'):
            continue
        strict = {id(c): lab for c, lab in implicit_raise_sites(model, fi)}
        for c in walk_no_nested(fi.node):
            if isinstance(c, ast.Call) and isinstance(c.func, ast.Attribute) and c.func.attr in ('decode', 'encode'):
                n9 += 1
                run.check(
                    id(c) not in strict,
                    fi.qualname,
                    'codec call %s has an error handler' % norm(c)[:50],
                    fi.loc(c),
                    'a strict codec raises %s for bytes the peer chose: the event is never written, and in the daemon the exception leaves '
                    'Protocol.read_message and ends the session in the catch-all of Peer._run' % strict.get(id(c), 'UnicodeError'),
                )
        for c, lab in implicit_raise_sites(model, fi):
            if not (isinstance(c.func, ast.Attribute) and c.func.attr in ('decode', 'encode')):
                n9 += 1
                run.violation(fi.qualname, 'strict conversion %s' % norm(c)[:50], fi.loc(c), 'raises %s for peer-chosen input while an event is rendered' % lab)
    if n9 < 3:
        run.cannot('only %d codec calls found in the response encoders' % n9)

    # ------------------------------------------------------------------ R10 what is written bare is a JSON number
    run.rule(
        'C13.R10',
        'a value written into JSON without quotes is a decimal number: where an emitter tries int(text) and writes the text bare when '
        'that succeeds (json.dumps otherwise), the conversion is base 10 - with base 0 or 16 a text such as 0x000000000000000a (AIGP) '
        'counts as a number and is written as a bare token no JSON parser accepts',
        floor=1,
    )
    n10 = 0
    for fi in sorted(model.funcs.values(), key=lambda f: f.qualname):
        if not (fi.module.rel.startswith('exabgp/reactor/api/response/') or fi.module.rel.startswith('exabgp/bgp/message/')):
            continue
        for t in walk_no_nested(fi.node):
            if not isinstance(t, ast.Try):
                continue
            dumps_in_handler = any(isinstance(c, ast.Call) and (dotted(c.func) or '').endswith('dumps') for h in t.handlers for c in ast.walk(h))
            ints = [c for st in t.body for c in ast.walk(st) if isinstance(c, ast.Call) and isinstance(c.func, ast.Name) and c.func.id in ('int', 'float')]
            if not dumps_in_handler or not ints:
                continue
            for c in ints:
                n10 += 1
                base = c.args[1] if len(c.args) > 1 else next((k.value for k in c.keywords if k.arg == 'base'), None)
                okb = base is None or folder.fold(base, fi.module, fi.cls) == 10
                run.check(okb, fi.qualname, 'the is-it-a-number test %s is decimal' % norm(c)[:40], fi.loc(c), 'with this base a text with a radix prefix passes the test and is emitted without quotes: "aigp": 0x000000000000000a is not JSON')
    if n10 < 1:
        run.cannot('no number-or-string emitter found (AttributeCollection._as_json_scalar)')

    # ------------------------------------------------------------------ R11 one member per key
    run.rule(
        'C13.R11',
        'no duplicate key: where a json() builds an object out of the json() of the elements of a list the peer fills (one '
        '"key": value member per TLV, the key fixed by the TLV type), a repeated TLV repeats the key - unless the decoder refuses '
        'the repetition or the members are grouped into an array',
        floor=3,
    )
    _r11_member_lists(model, run)

    # ------------------------------------------------------------------ R12 one member per attribute name
    run.rule(
        'C13.R12',
        'no duplicate key in the "attribute" object of an UPDATE event: two attribute codes that AttributeCollection.representation '
        'renders under the same name (AGGREGATOR and AS4_AGGREGATOR are both "aggregator") cannot both be in a decoded collection - '
        'AttributeCollection.unpack removes one of them when both are present',
        floor=1,
    )
    _r12_attribute_names(model, run, folder)

    # ------------------------------------------------------------------ R13 half sent / half received data dies with the process
    run.rule(
        'C13.R13',
        'one well-formed record at a time, also across a respawn: every per-process buffer of Processes (a dict keyed by process '
        'name holding text, bytes, or a queue of them) is dropped by _terminate or started afresh by _start - what is left in it is '
        'the tail of a half sent record, or the head of a half received command, of the process that died',
        floor=2,
    )
    _r13_process_buffers(model, run)

    # ------------------------------------------------------------------ R14 to each process the record of its own encoder
    run.rule(
        'C13.R14',
        'every record handed to Processes.write for a process is built by the encoder of THAT process, in the same turn of the '
        'loop over the subscribed processes: a record rendered once and reused is in the wrong encoding for every process that '
        'does not share the encoder of the first (a json and a text process under API v4)',
        floor=10,
    )
    _r14_own_encoder(model, run)

    # ------------------------------------------------------------------ R6 every event kind has an emitter
    run.rule('C13.R6', 'every message kind a peer can trigger has an emitter: each registered message type has a @register_process entry and each encoder class defines every method Processes calls on it', floor=20)
    _r6_emitters(model, run, folder)


def _dead_fallback(model: Model, folder: Folder, fi: FuncInfo, value: ast.AST) -> bool:
    """the interpolation sits in the last `else` of the ladder over the rendering kind (first element of the
    representation entry) and every kind that occurs in the table has its own `==` branch before it"""
    from ..alpha import Loc

    loc = Loc(model, fi)
    kind_vars = [nm for nm, ds in loc.defs.items() if any(h == 'assign[0]' and isinstance(v, ast.Subscript) and (dotted(v.value) or '').endswith('representation') for v, h, _ in ds)]
    if len(kind_vars) != 1 or fi.cls is None:
        return False
    rep = fi.cls.assigns.get('representation')
    if not isinstance(rep, ast.Dict):
        return False
    kinds = set()
    for v in rep.values:
        if isinstance(v, ast.Tuple) and v.elts:
            kinds.add(folder.fold(v.elts[0], fi.module, fi.cls))
    excluded = set()
    for t, pol in flat_guards(fi.node, value):
        if pol or not (isinstance(t, ast.Compare) and len(t.ops) == 1 and isinstance(t.left, ast.Name) and t.left.id == kind_vars[0]):
            continue
        if isinstance(t.ops[0], ast.Eq):
            excluded.add(folder.fold(t.comparators[0], fi.module, fi.cls))
        elif isinstance(t.ops[0], ast.In):
            # `kind in ('string', 'inet')`: one branch for several kinds
            several = folder.fold(t.comparators[0], fi.module, fi.cls)
            if isinstance(several, (tuple, list, set, frozenset)):
                excluded.update(several)
    return bool(kinds) and kinds <= excluded


# (function, normalised interpolated expression) -> reason it is safe
JSON_TRIAGED: dict[tuple[str, str], str] = {
    ('exabgp.bgp.message.update.nlri.mup.t1st.Type1SessionTransformedRoute.json', 'str(self.source_ip)'): 'the bytes alternative of source_ip is only the literal b\'\' (absent source address)',
}
TEXT_TRIAGED: dict[tuple[str, str], str] = {}


def _r3_keys(model: Model, run: Run, folder: Folder) -> None:
    ac = model.cls('exabgp.bgp.message.update.attribute.collection.AttributeCollection')
    rep = ac.assigns.get('representation')
    if not isinstance(rep, ast.Dict):
        run.cannot('AttributeCollection.representation is not a dict literal')
        return
    seen: dict[str, list[str]] = {}
    internal = set()
    it = ac.assigns.get('INTERNAL')
    if isinstance(it, ast.Tuple):
        internal = {(dotted(x) or '').rsplit('.', 1)[-1] for x in it.elts}
    no_generation = set()
    for ci in model.classes.values():
        if ci.module.rel.startswith('exabgp/bgp/message/update/attribute/') and 'ID' in ci.assigns and folder.fold(ci.assigns.get('NO_GENERATION', ast.Constant(False)), ci.module, ci) is True:
            idv = folder.fold(ci.assigns['ID'], ci.module, ci)
            for k_ in rep.keys:
                if folder.fold(k_, ac.module, ac) == idv and idv is not UNKNOWN and ci.name != 'NextHop':
                    no_generation.add((dotted(k_) or norm(k_)).rsplit('.', 1)[-1])
    kinds = set()
    for k, v in zip(rep.keys, rep.values):
        code = (dotted(k) or norm(k)).rsplit('.', 1)[-1]
        if isinstance(v, ast.Tuple) and v.elts and isinstance(v.elts[0], ast.Constant):
            kinds.add(v.elts[0].value)
        if code in internal or code in no_generation:
            continue  # never rendered: _generate_json skips the INTERNAL codes and the NO_GENERATION classes
        if not isinstance(v, ast.Tuple) or len(v.elts) < 3:
            run.cannot('representation entry %s not understood' % code)
            continue
        name = v.elts[2]
        names = []
        if isinstance(name, ast.Constant):
            names = [name.value]
        elif isinstance(name, (ast.Tuple, ast.List)):
            names = [e.value for e in name.elts if isinstance(e, ast.Constant)]
        for nm in names:
            seen.setdefault(nm, []).append(code)
    handled = set()
    gen = model.func(ac.qualname + '._generate_json')
    if gen is None:
        run.cannot('AttributeCollection._generate_json not found')
        return
    for t in ast.walk(gen.node):
        # the ladder over the kind: `how == 'string'` or `how in ('string', 'inet')`
        if isinstance(t, ast.Compare) and len(t.ops) == 1 and isinstance(t.left, ast.Name):
            got = folder.fold(t.comparators[0], gen.module, gen.cls)
            if isinstance(t.ops[0], ast.Eq) and isinstance(got, str):
                handled.add(got)
            elif isinstance(t.ops[0], ast.In) and isinstance(got, (tuple, list, set, frozenset)):
                handled.update(x for x in got if isinstance(x, str))
    run.check(kinds <= handled, ac.qualname, 'representation kinds %s are all handled by _generate_json' % sorted(kinds), ac.loc(), 'an unhandled kind falls into the unescaped fallback branch')
    for nm, codes in sorted(seen.items()):
        if len(codes) == 1:
            run.ok('key "%s" <- %s' % (nm, codes[0]))
        elif _merged_by_unpack(model, run, set(codes)) is not None:
            run.ok('key "%s" <- %s' % (nm, ' / '.join(sorted(codes))), 'AttributeCollection.unpack leaves one of them when both are received (C13.R12)')
        else:
            run.violation(
                ac.qualname,
                'JSON key "%s" shared by %s' % (nm, ' and '.join(sorted(codes))),
                ac.loc(),
                'both attributes can be present in one UPDATE (a 2-byte peer sends AGGREGATOR and AS4_AGGREGATOR together), so '
                'the "attribute" object gets the same key twice: a duplicate key, of which a JSON parser keeps one',
            )


def _r4_ascii(model: Model, run: Run, folder: Folder) -> None:
    w = model.func(PROCESSES + '.write')
    run.analysed(w)
    strict = [c for c in walk_no_nested(w.node) if isinstance(c, ast.Call) and isinstance(c.func, ast.Name) and c.func.id == 'bytes' and len(c.args) == 2 and folder.fold(c.args[1], w.module) == 'ascii']
    strict += [c for c in walk_no_nested(w.node) if isinstance(c, ast.Call) and isinstance(c.func, ast.Attribute) and c.func.attr == 'encode' and c.args and folder.fold(c.args[0], w.module) == 'ascii' and not any(k.arg == 'errors' for k in c.keywords)]
    is_strict = bool(strict)
    run.ok('Processes.write codec', 'strict ascii' if is_strict else 'not strict ascii')
    # json.dumps with ensure_ascii=False anywhere on the event path
    n = 0
    for fi in model.funcs.values():
        if not (fi.module.rel.startswith(RESP) or fi.module.rel.startswith('exabgp/bgp/') or fi.module.rel == 'exabgp/reactor/api/processes.py'):
            continue
        for c in walk_with_lambdas(fi.node):
            if isinstance(c, ast.Call) and dotted(c.func) == 'json.dumps':
                n += 1
                bad = [k for k in c.keywords if k.arg == 'ensure_ascii' and folder.fold(k.value, fi.module) is not True]
                if bad and is_strict:
                    run.violation(fi.qualname, norm(c)[:80], fi.loc(c), 'json.dumps(ensure_ascii=False) lets non-ASCII peer text through, and Processes.write encodes every event with the strict ascii codec: a UTF-8 host name / shutdown communication raises UnicodeEncodeError and the event is never written')
                else:
                    run.ok('%s: %s' % (short(fi.qualname), norm(c)[:40]))
    if n < 10:
        run.cannot('only %d json.dumps calls found' % n)
    # oneline
    ol = model.funcs.get('exabgp.reactor.api.response.text.oneline')
    if ol is None:
        run.cannot('oneline() vanished')
        return
    run.analysed(ol)
    txt = norm(ol.node)
    ascii_ok = 'isascii()' in txt or "encode('ascii'" in txt or 'ord(character) < 128' in txt or 'ord(character) < 127' in txt
    if is_strict and not ascii_ok:
        run.violation(
            ol.qualname,
            'keeps any printable character, ASCII or not',
            ol.loc(),
            "oneline() passes every character for which str.isprintable() is true, which includes non-ASCII letters; "
            "Processes.write then encodes the event with bytes(..., 'ascii') and raises UnicodeEncodeError: a peer host name "
            "such as 'café' makes the text `open` event impossible to write",
        )
    else:
        run.ok('oneline output alphabet', 'ASCII only')
    ctl_ok = 'isprintable()' in txt and ('repr(character)' in txt or 'ascii(character)' in txt)
    run.check(ctl_ok, ol.qualname, 'control characters are escaped (repr/ascii of the character)', ol.loc(), 'CR/LF and other control characters must not pass')


def _r5_lines(model: Model, run: Run) -> None:
    for rel, cn in ((RESP + 'json.py', 'JSON'), (RESP + 'v4/json.py', 'V4JSON')):
        for fi in _encoder_methods(model, rel, cn):
            for n in walk_with_lambdas(fi.node):
                if isinstance(n, ast.Constant) and isinstance(n.value, str) and '\n' in n.value:
                    p_doc = fi.node.body and isinstance(fi.node.body[0], ast.Expr) and fi.node.body[0].value is n
                    if p_doc:
                        continue
                    run.violation(fi.qualname, 'newline in JSON template %r' % n.value[:30], fi.loc(n), 'a JSON event must be a single line')
            run.ok(short(fi.qualname), 'no newline literal')
    hdr = model.func('exabgp.reactor.api.response.json.JSON._header')
    txt = norm(hdr.node)
    need = ['"exabgp"', '"time"', '"host"', '"pid"', '"ppid"', '"counter"', '"type"']
    missing = [k for k in need if k not in txt]
    run.check(not missing, hdr.qualname, 'envelope keys present', hdr.loc(), 'missing %s' % missing)


def _r6_emitters(model: Model, run: Run, folder: Folder) -> None:
    # @register_process(Message.CODE.X) in processes.py
    procs = model.cls(PROCESSES)
    regs: dict[str, str] = {}
    for fi in procs.methods.values():
        for d in fi.node.decorator_list:
            if isinstance(d, ast.Call) and (dotted(d.func) or '').endswith('register_process') and d.args:
                regs[(dotted(d.args[0]) or norm(d.args[0])).rsplit('.', 1)[-1]] = fi.name
    msgs = rh.messages(model, folder)
    for rec in msgs:
        name = rec['cls'].name
        code = {'KeepAlive': 'KEEPALIVE', 'RouteRefresh': 'ROUTE_REFRESH', 'Open': 'OPEN', 'Update': 'UPDATE', 'Notification': 'NOTIFICATION', 'Operational': 'OPERATIONAL'}.get(name, name.upper())
        run.check(code in regs, PROCESSES, 'message %s has an emitter (%s)' % (code, regs.get(code)), procs.loc(), 'Processes.message indexes its dispatch table by message type: a missing entry is a KeyError for a message a peer can send')
    # every encoder class defines the methods Processes calls
    called: set[str] = set()
    for fi in procs.methods.values():
        for c in walk_no_nested(fi.node):
            if isinstance(c, ast.Call) and isinstance(c.func, ast.Attribute):
                recv = norm(c.func.value)
                if 'encoder' in recv.lower():
                    called.add(c.func.attr)
    if len(called) < 8:
        run.cannot('only %d encoder methods called from Processes' % len(called))
    for rel, cn in ((RESP + 'json.py', 'JSON'), (RESP + 'text.py', 'Text'), (RESP + 'v4/json.py', 'V4JSON'), (RESP + 'v4/text.py', 'V4Text')):
        cis = [c for c in model.classes.values() if c.module.rel == rel and c.name == cn]
        if not cis:
            run.cannot('encoder class %s vanished' % cn)
            continue
        ci = cis[0]
        for meth in sorted(called):
            run.check(model.effective(ci.qualname, meth) is not None, ci.qualname, 'defines %s()' % meth, ci.loc(), 'Processes calls encoder.%s(): a missing method is an AttributeError for an event a peer can trigger' % meth)


# ---------------------------------------------------------------------------------------------- R8
def _first_literal(e: ast.AST) -> str | None:
    """first characters of the string an expression evaluates to, when they are literal"""
    if isinstance(e, ast.Constant) and isinstance(e.value, str):
        return e.value.lstrip() or None
    if isinstance(e, ast.JoinedStr) and e.values:
        return _first_literal(e.values[0]) if isinstance(e.values[0], ast.Constant) else None
    if isinstance(e, ast.BinOp) and isinstance(e.op, (ast.Add, ast.Mod)):
        return _first_literal(e.left)
    if isinstance(e, ast.Call) and isinstance(e.func, ast.Attribute) and e.func.attr == 'format':
        return _first_literal(e.func.value)
    return None


def _last_literal(e: ast.AST) -> str | None:
    if isinstance(e, ast.Constant) and isinstance(e.value, str):
        return e.value.rstrip()[-1:] or None
    if isinstance(e, ast.JoinedStr) and e.values:
        return _last_literal(e.values[-1]) if isinstance(e.values[-1], ast.Constant) else None
    if isinstance(e, ast.BinOp) and isinstance(e.op, ast.Add):
        return _last_literal(e.right)
    return None


def _r8_fragment_kinds(model: Model, run: Run) -> None:
    from ..flow import flat_guards, parent_map
    from ..labels import LabelFlow

    NLRI_BASE = 'exabgp.bgp.message.update.nlri.nlri.NLRI'
    members: set[str] = set()
    n = 0
    for qn in sorted(model.all_subclasses(NLRI_BASE)):
        ci = model.classes.get(qn)
        if ci is None or 'json' not in ci.methods:
            continue
        f = ci.methods['json']
        kinds = set()
        for r in walk_no_nested(f.node):
            if isinstance(r, ast.Return) and r.value is not None:
                v = Loc(model, f).resolve(r.value)
                lit = _first_literal(v if v is not None else r.value)
                if lit is None:
                    kinds.add('?')
                elif lit[0] in '{[':
                    kinds.add('value')
                elif lit[0] == '"':
                    import re

                    kinds.add('member' if re.match(r'"[^"]*"\s*:', lit) else 'value')
                else:
                    kinds.add('?')
        kinds.discard('?')
        if not kinds:
            continue
        n += 1
        run.analysed(f)
        run.check(len(kinds) == 1, f.qualname, 'json() returns one kind of fragment (%s)' % sorted(kinds), f.loc(), 'a method that returns sometimes an object and sometimes a "key": value member cannot be placed correctly by its callers')
        if kinds == {'member'}:
            members.add(qn)
    run.extra['member_fragment_classes'] = sorted(short(m) for m in members)
    # the encoders: where do route fragments go?
    encs = [f for f in model.funcs.values() if f.module.rel.startswith('exabgp/reactor/api/response/') and f.module.rel.endswith('json.py') and f.name == '_update']
    if not encs:
        run.cannot('JSON._update not found')
    for f in encs:
        run.analysed(f)
        pm = parent_map(f.node)

        def seed(e: ast.AST, f=f, pm=pm) -> tuple[str, ...]:  # noqa: ANN001
            # the routes of an End-of-RIB: what is read from <message>.nlris where the message is known to be one
            if isinstance(e, ast.Attribute) and e.attr == 'nlris' and any('IS_EOR' in norm(t) and pol for t, pol in flat_guards(f.node, e, pm)):
                return ('EOR',)
            return ()

        lf = LabelFlow(f.node, seed)
        joins = []
        for st in walk_no_nested(f.node):
            if isinstance(st, (ast.Assign, ast.AugAssign)):
                tg = st.targets[0] if isinstance(st, ast.Assign) else st.target
                if not isinstance(tg, ast.Name):
                    continue
                for c in ast.walk(st.value):
                    if isinstance(c, ast.Call) and isinstance(c.func, ast.Attribute) and c.func.attr == 'join' and c.args and isinstance(c.args[0], (ast.GeneratorExp, ast.ListComp)):
                        elt = c.args[0].elt
                        if isinstance(elt, ast.Call) and ('json' in norm(elt.func)):
                            joins.append((st, tg.id, c))
        for st, acc, c in joins:
            # which bracket was opened last on the same accumulator?
            from ..flow import block_of

            blk = block_of(pm, st)
            opened = None
            if blk is not None:
                for prev in blk[2]:
                    if prev is st:
                        break
                    if isinstance(prev, (ast.Assign, ast.AugAssign)):
                        ptg = prev.targets[0] if isinstance(prev, ast.Assign) else prev.target
                        if isinstance(ptg, ast.Name) and ptg.id == acc:
                            ll = _last_literal(prev.value)
                            if ll in ('[', '{'):
                                opened = ll
            lead = _last_literal(st.value.left) if isinstance(st.value, ast.BinOp) else None
            if lead in ('[', '{'):
                opened = lead
            if opened is None:
                continue
            n += 1
            labs = lf.of(c.args[0].generators[0].iter)
            inst = '%s: %s-context list of route fragments' % (short(f.qualname), opened)
            if opened == '[' and 'EOR' in labs and members:
                run.violation(
                    f.qualname,
                    'the End-of-RIB route is rendered inside a [ ... ] list: %s' % norm(c)[:60],
                    f.loc(st),
                    'json() of %s returns the member "eor": {...}; this list is built from routes that include the End-of-RIB marker, so '
                    'the event reads { "update": { "announce": { "ipv4 unicast": { "null": [ "eor": {...} ] } } } }, which no JSON parser accepts'
                    % ', '.join(sorted(short(m) for m in members)),
                )
            else:
                run.ok(inst, 'elements: %s' % (sorted(labs) or 'announced / withdrawn routes'))
    if n < 20:
        run.cannot('only %d fragment kinds / list contexts examined' % n)


# ---------------------------------------------------------------------------------------------- R11
def _json_kind(model: Model, f: FuncInfo) -> str | None:
    import re

    kinds = set()
    for r in walk_no_nested(f.node):
        if isinstance(r, ast.Return) and r.value is not None:
            v = Loc(model, f).resolve(r.value)
            lit = _first_literal(v if v is not None else r.value)
            if lit is None:
                kinds.add('?')
            elif lit[0] in '{[':
                kinds.add('value')
            elif lit[0] == '"':
                kinds.add('member' if re.match(r'"[^"]*"\s*:', lit) else 'value')
            else:
                kinds.add('?')
    kinds.discard('?')
    return next(iter(kinds)) if len(kinds) == 1 else None


def _r11_member_lists(model: Model, run: Run) -> None:
    n = 0
    for q, f in sorted(model.funcs.items()):
        if '.bgp.message.' not in q or f.name != 'json' or f.cls is None:
            continue
        L = Loc(model, f)
        sites = []
        for node in walk_no_nested(f.node):
            if isinstance(node, (ast.GeneratorExp, ast.ListComp)) and len(node.generators) == 1:
                g = node.generators[0]
                if isinstance(node.elt, ast.Call) and isinstance(node.elt.func, ast.Attribute) and node.elt.func.attr == 'json' and dotted(node.elt.func.value) == dotted(g.target):
                    sites.append((g.iter, node.elt, None))
            if isinstance(node, ast.For):
                for c in ast.walk(node):
                    if isinstance(c, ast.Call) and isinstance(c.func, ast.Attribute) and c.func.attr == 'json' and dotted(c.func.value) == dotted(node.target):
                        sites.append((node.iter, c, node))
        for it, call, loop in sites:
            if 'self' not in L.expand(it):
                continue
            # what the elements render as: members ("key": ...) or values
            kinds = set()
            for cq in model.callees_cha(f.module, call):
                h = model.funcs.get(cq)
                if h is not None and h.name == 'json':
                    k = _json_kind(model, h)
                    if k:
                        kinds.add(k)
            if not kinds or kinds == {'member', 'value'}:
                # untyped or mixed elements: decided by where the joined text lands - right after an opening brace it is a list of members
                kinds = {'member'} if _lands_in_object(model, f, call) else {'value'}
            if kinds != {'member'}:
                continue
            n += 1
            # grouped into an array on the way? (`if isinstance(tlv, X): segment_lists.append(tlv.json())` then "key": [ ... ])
            grouped = False
            if loop is not None:
                for t, pol in flat_guards(f.node, call, parent_map(f.node)):
                    if isinstance(t, ast.Call) and isinstance(t.func, ast.Name) and t.func.id == 'isinstance' and pol:
                        grouped = True  # this branch collects one type apart (emitted as an array)
            # does the decoder of this class refuse a repeated type?
            ci = f.cls
            refuses = False
            for mname, mf in ci.methods.items():
                if mname.startswith(('unpack', 'from_packet', '_parse')):
                    src = norm(mf.node)
                    if ('seen' in src or 'duplicate' in src.lower() or 'more than once' in src) and 'raise' in src:
                        refuses = True
            inst = '%s: members from %s' % (short(q), L.expand(it)[:40])
            if grouped or refuses:
                run.ok(inst, 'grouped into an array' if grouped else 'the decoder refuses a repeated type')
            else:
                run.violation(
                    ci.qualname,
                    'one object member per element of %s' % L.expand(it)[:40],
                    f.loc(call),
                    'each element renders as the member "<key of its type>": ..., and they are joined into one object: two TLVs of one type '
                    '(which the peer is free to send, and the decoder accepts) give the same key twice, and the consumer keeps whichever its '
                    'parser prefers - the peer chooses which of its two values is seen',
                )
    if n < 3:
        run.cannot('only %d objects assembled from element members found' % n)


def _flatten_text(e: ast.AST, out: list) -> None:
    """left-to-right pieces of a string expression: literal text, or the node of a non-literal piece"""
    if isinstance(e, ast.Constant) and isinstance(e.value, str):
        out.append(e.value)
    elif isinstance(e, ast.JoinedStr):
        for v in e.values:
            _flatten_text(v.value if isinstance(v, ast.FormattedValue) else v, out)
    elif isinstance(e, ast.BinOp) and isinstance(e.op, ast.Add):
        _flatten_text(e.left, out)
        _flatten_text(e.right, out)
    elif isinstance(e, ast.Call) and isinstance(e.func, ast.Attribute) and e.func.attr == 'format' and isinstance(e.func.value, ast.Constant) and isinstance(e.func.value.value, str):
        parts = e.func.value.value.replace('{{', '\x00').replace('}}', '\x01').split('{}')
        for i, p_ in enumerate(parts):
            out.append(p_.replace('\x00', '{').replace('\x01', '}'))
            if i < len(e.args):
                _flatten_text(e.args[i], out)
    else:
        out.append(e)


def _lands_in_object(model: Model, f: FuncInfo, call: ast.Call) -> bool:
    """Is the text produced from `call` (element.json(), joined) placed right after an opening brace?"""
    L = Loc(model, f)
    mark = norm(call)
    pm = parent_map(f.node)
    par = pm.get(id(call))
    if isinstance(par, ast.Call) and isinstance(par.func, ast.Attribute) and par.func.attr == 'append' and isinstance(par.func.value, ast.Name):
        mark = 'join(%s)' % par.func.value.id  # collected in a list that is joined later
    for st in walk_no_nested(f.node):
        vals = []
        if isinstance(st, ast.Return) and st.value is not None:
            vals.append(st.value)
        if isinstance(st, ast.AugAssign):
            vals.append(st.value)
        cands = []
        for v in vals:
            cands.append(v)
            try:
                cands.append(ast.parse(L.expand(v), mode='eval').body)
            except SyntaxError:
                pass
        for ex in cands:
            pieces: list = []
            _flatten_text(ex, pieces)
            last_lit = ''
            for pc in pieces:
                if isinstance(pc, str):
                    if pc.strip():
                        last_lit = pc
                elif mark in norm(pc):
                    t = last_lit.rstrip()
                    if t.endswith('{') or t.endswith(','):
                        return True
                    if t.endswith('['):
                        return False
    return False


def _merged_by_unpack(model: Model, run: Run, names: set[str]) -> ast.AST | None:
    """the call by which AttributeCollection.unpack removes one of the attribute codes `names` when all of them were
    received (the branch tests the presence of each and removes one, directly or in a method of the collection)"""
    AC = 'exabgp.bgp.message.update.attribute.collection.AttributeCollection'
    un = model.func(AC + '.unpack')
    run.analysed(un)
    merged = None
    for st in walk_no_nested(un.node):
        if not isinstance(st, ast.If):
            continue
        tested = {(dotted(c.left) or '').rsplit('.', 1)[-1] for c in ast.walk(st.test) if isinstance(c, ast.Compare) and isinstance(c.ops[0], ast.In)}
        if not names <= tested:
            continue
        # what the branch does: a removal of one of the codes, directly or in a method of the collection it calls
        bodies = list(st.body)
        for c in [x for b in st.body for x in walk_no_nested(b) if isinstance(x, ast.Call)]:
            for q in model.callees(un.module, c):
                if q.startswith(AC + '.') and q in model.funcs:
                    run.analysed(model.funcs[q])
                    bodies += model.funcs[q].node.body
        for b in bodies:
            for c in walk_no_nested(b):
                if isinstance(c, ast.Call) and isinstance(c.func, ast.Attribute) and c.func.attr in ('remove', 'pop', '__delitem__') and c.args and (dotted(c.args[0]) or '').rsplit('.', 1)[-1] in names:
                    merged = c
    return merged


def _r12_attribute_names(model: Model, run: Run, folder: Folder) -> None:
    AC = 'exabgp.bgp.message.update.attribute.collection.AttributeCollection'
    ci = model.cls(AC)
    table = ci.assigns.get('representation')
    if not isinstance(table, ast.Dict):
        run.cannot('AttributeCollection.representation is not a dict literal')
        return
    internal = folder.class_attr(AC, 'INTERNAL')
    internal = set(internal) if isinstance(internal, (tuple, list)) else set()
    by_name: dict[str, list[tuple[int, str]]] = {}
    for k, v in zip(table.keys, table.values):
        code = folder.fold(k, ci.module, ci)
        if not isinstance(code, int) or not isinstance(v, ast.Tuple) or len(v.elts) < 3:
            run.cannot('representation entry not understood: %s' % norm(k))
            continue
        name = folder.fold(v.elts[2], ci.module, ci)
        if code in internal or not isinstance(name, str):
            continue
        # attributes that are never generated (internal markers) do not reach the object
        by_name.setdefault(name, []).append((code, (dotted(k) or norm(k)).rsplit('.', 1)[-1]))
    nogen = set()
    for qn, c2 in model.classes.items():
        if model.is_subclass(qn, 'exabgp.bgp.message.update.attribute.attribute.Attribute') and folder.class_attr(qn, 'NO_GENERATION') is True:
            i = folder.class_attr(qn, 'ID')
            if isinstance(i, int):
                nogen.add(i)
    un = model.func(AC + '.unpack')
    run.analysed(un)
    n = 0
    for name, codes in sorted(by_name.items()):
        live = [(c, nm) for c, nm in codes if c not in nogen]
        if len(live) < 2:
            continue
        n += 1
        names = {nm for _, nm in live}
        merged = _merged_by_unpack(model, run, names)
        run.check(merged is not None, AC, 'attributes %s are both rendered as "%s": %s' % (sorted(names), name, 'unpack leaves one of them' if merged is not None else 'nothing removes one when both are received'), ci.loc(), 'an UPDATE carrying both (what RFC 6793 prescribes through a 2-byte speaker) renders "%s": ..., "%s": ... in one object: a duplicate key, the consumer keeps one of the two values' % (name, name))
    if n == 0:
        run.cannot('no two attribute codes share a name in AttributeCollection.representation any more: rule without an instance')


def _r13_process_buffers(model: Model, run: Run) -> None:
    ci = model.cls(PROCESSES)
    # attributes declared  self.X: dict[str, <str | bytes | deque[...] | list[...]>] = {}  anywhere in the class
    buffers: dict[str, ast.AST] = {}
    for m in ci.methods.values():
        for st in walk_no_nested(m.node):
            if isinstance(st, ast.AnnAssign) and isinstance(st.target, ast.Attribute) and dotted(st.target.value) == 'self':
                ann = norm(st.annotation).replace(' ', '')
                if ann.startswith('dict[str,') and any(ann[len('dict[str,'):].startswith(k) for k in ('str', 'bytes', 'collections.deque', 'deque', 'list', 'bytearray')):
                    buffers[st.target.attr] = st
    if len(buffers) < 2:
        run.cannot('fewer than 2 per-process buffers declared in Processes (%s)' % sorted(buffers))
        return
    term = model.func(PROCESSES + '._terminate')
    start = model.func(PROCESSES + '._start')
    run.analysed(term)
    run.analysed(start)
    pname = term.node.args.args[1].arg if len(term.node.args.args) > 1 else '?'
    for attr, decl in sorted(buffers.items()):
        dropped = None
        for n in walk_no_nested(term.node):
            if isinstance(n, ast.Call) and isinstance(n.func, ast.Attribute) and n.func.attr == 'pop' and dotted(n.func.value) == 'self.' + attr and n.args and norm(n.args[0]) == pname:
                dropped = n
            if isinstance(n, ast.Delete) and any(isinstance(t, ast.Subscript) and dotted(t.value) == 'self.' + attr and norm(t.slice) == pname for t in n.targets):
                dropped = n
        sp = start.node.args.args[1].arg if len(start.node.args.args) > 1 else '?'
        for n in walk_no_nested(start.node):
            if isinstance(n, ast.Assign) and any(isinstance(t, ast.Subscript) and dotted(t.value) == 'self.' + attr and norm(t.slice) == sp for t in n.targets) and not flat_guards(start.node, n):
                dropped = n
        run.check(dropped is not None, PROCESSES, 'self.%s[<process>] does not outlive the process' % attr, ci.loc(), 'neither _terminate nor _start drops it: after a respawn the new process of that name is sent the unwritten tail of the record its predecessor was being sent (or the daemon completes a command with the first bytes the new process writes)')


def _r14_own_encoder(model: Model, run: Run) -> None:
    ci = model.cls(PROCESSES)
    n = 0
    for name, m in sorted(ci.methods.items()):
        L = None
        pm = None
        for c in walk_no_nested(m.node):
            if not (isinstance(c, ast.Call) and isinstance(c.func, ast.Attribute) and c.func.attr == 'write' and dotted(c.func.value) == 'self' and len(c.args) >= 2 and isinstance(c.args[0], ast.Name)):
                continue
            pm = pm or parent_map(m.node)
            # only writes made while walking the subscribed processes
            loop = pm.get(id(c))
            while loop is not None and not (isinstance(loop, (ast.For, ast.AsyncFor)) and isinstance(loop.target, ast.Name) and loop.target.id == c.args[0].id):
                loop = pm.get(id(loop))
            if loop is None:
                continue
            L = L or Loc(model, m)
            proc = c.args[0].id
            data = L.expanded(c.args[1], depth=4)
            uses = [x for x in ast.walk(data) if isinstance(x, ast.Subscript) and dotted(x.value) == 'self._encoder']
            if not uses and not any(isinstance(x, ast.Name) and len(L.defs.get(x.id, [])) > 1 for x in ast.walk(c.args[1])):
                continue  # not an encoded event (raw answers, acknowledgements)
            n += 1
            run.analysed(m)
            own = bool(uses) and all(isinstance(u.slice, ast.Name) and u.slice.id == proc for u in uses)
            run.check(own, m.qualname, 'write(%s, %s): record built by self._encoder[%s]' % (proc, norm(c.args[1])[:40], proc), m.loc(c), 'the record is not (only) the output of the encoder of the process it is written to: %s' % ('it is kept in a local across the turns of the loop' if not uses else 'it uses the encoder of another process'))
    if n < 10:
        run.cannot('only %d encoded writes found in Processes' % n)
