"""C15 — encode/decode round trip, equality and hashing.  DESIGN.md 3/C15."""

from __future__ import annotations

import ast

from ..alpha import Loc
from ..const import UNKNOWN, Folder
from ..flow import Slicer, flat_guards
from ..model import FuncInfo, Model, dotted, norm, walk_no_nested, walk_with_lambdas
from ..report import Run
from .common import short
from . import registry_helpers as rh

NLRI = 'exabgp.bgp.message.update.nlri.nlri.NLRI'
ATTR = 'exabgp.bgp.message.update.attribute.attribute.Attribute'


R2_EXEMPT = {
    ('exabgp.bgp.message.update.attribute.mprnlri.MPRNLRI', 'pack_attribute'): 'decode-side object: MP_REACH is encoded by MPNLRICollection.packed_reach_attributes',
    ('exabgp.bgp.message.update.attribute.mpurnlri.MPURNLRI', 'pack_attribute'): 'decode-side object: MP_UNREACH is encoded by MPNLRICollection.packed_unreach_attributes',
    ('exabgp.bgp.message.update.attribute.bgpls.linkstate.LinkState', 'pack_attribute'): 'BGP-LS is receive-only in ExaBGP',
}


def _returns(fi: FuncInfo) -> list[ast.expr]:
    return [r.value for r in walk_no_nested(fi.node) if isinstance(r, ast.Return) and r.value is not None]


def _uses_full_packed(fi: FuncInfo) -> bool:
    """self._packed used whole (not sliced) in a returned value, or the packed form rebuilt (pack_nlri & co)."""
    sl = Slicer(fi_model, fi) if False else None  # noqa: F841  (kept simple: syntactic)
    exprs = list(_returns(fi))
    # follow locals one step
    names = {n.id for e in exprs for n in ast.walk(e) if isinstance(n, ast.Name)}
    for n in walk_no_nested(fi.node):
        if isinstance(n, (ast.Assign, ast.AnnAssign)):
            tg = n.targets[0] if isinstance(n, ast.Assign) else n.target
            if isinstance(tg, ast.Name) and tg.id in names and n.value is not None:
                exprs.append(n.value)
    for e in exprs:
        sliced = {id(s.value) for s in ast.walk(e) if isinstance(s, ast.Subscript)}
        for a in ast.walk(e):
            if isinstance(a, ast.Attribute) and dotted(a) == 'self._packed' and id(a) not in sliced:
                return True
            if isinstance(a, ast.Call) and isinstance(a.func, ast.Attribute) and a.func.attr in ('pack_nlri', '_pack_from_rules', '_encode_length', 'pack'):
                return True
    return False


fi_model = None


def _content_atoms(model: Model, fi: FuncInfo) -> set[str]:
    sl = Slicer(model, fi)
    out: set[str] = set()
    for e in _returns(fi):
        for a in sl.atoms(e):
            if a.startswith('attr:self.'):
                out.add(a[len('attr:self.') :].split('.')[0])
    return out - {'afi', 'safi', 'CODE', 'ARCHTYPE', '_has_addpath', 'NAME'}


def check(model: Model, run: Run) -> None:
    folder = Folder(model)

    # ------------------------------------------------------------------ R1 eq / hash agreement
    run.rule(
        'C15.R1',
        'equal routes have equal hashes: for every NLRI class whose equality is decided by index(), what __hash__ hashes is covered '
        'by what index() is built from (a hash over the complete packed bytes needs an index over the complete packed bytes)',
        floor=8,
    )
    classes = sorted(c for c in model.all_subclasses(NLRI) | {NLRI} if c in model.classes)
    n = 0
    for cq in classes:
        ci = model.classes[cq]
        own = {m for m in ('__eq__', '__hash__', 'index') if m in ci.methods}
        if not own and cq != NLRI:
            continue
        eq = model.effective(cq, '__eq__')
        hs = model.effective(cq, '__hash__')
        ix = model.effective(cq, 'index')
        if eq is None or hs is None or ix is None:
            continue
        n += 1
        run.analysed(hs)
        run.analysed(ix)
        # equality basis: follow delegation X.__eq__(self, other) down to a comparison
        basis = _eq_basis(model, eq)
        if basis != 'index':
            # equality by something else: only check hash atoms are a subset of eq atoms
            continue
        if any('NotImplementedError' in norm(r) for r in walk_no_nested(ix.node) if isinstance(r, ast.Raise)) and len(ix.node.body) <= 3:
            continue  # abstract stub
        h_full = _uses_full_packed(hs)
        i_full = _uses_full_packed(ix)
        h_atoms = _content_atoms(model, hs)
        i_atoms = _content_atoms(model, ix)
        hash_of_index = any(isinstance(a, ast.Call) and isinstance(a.func, ast.Attribute) and a.func.attr == 'index' for e in _returns(hs) for a in ast.walk(e))
        inst = '%s: __hash__@%s vs index@%s' % (ci.name, hs.cls.name if hs.cls else '?', ix.cls.name if ix.cls else '?')
        if hash_of_index:
            run.ok(inst, 'hash of the index')
        elif h_full and not i_full:
            run.violation(
                cq,
                '__hash__ (%s) covers the complete packed bytes, index() (%s) only %s' % (short(hs.qualname), short(ix.qualname), sorted(i_atoms)),
                hs.loc(),
                '__eq__ compares index(), which leaves out part of the wire form (the label stack): two routes with the same prefix and '
                'different labels are equal but hash differently, so a set or dict keyed by NLRI holds both',
            )
        elif i_full:
            run.ok(inst, 'index() covers the complete packed bytes: every field the hash reads is a function of them')
        elif not h_full and not (h_atoms <= i_atoms | {'_packed'}):
            run.violation(cq, '__hash__ reads %s, index() reads %s' % (sorted(h_atoms), sorted(i_atoms)), hs.loc(), 'the hash depends on fields that equality ignores')
        else:
            run.ok(inst, 'hash operands covered by index operands')
    if n < 15:
        run.cannot('only %d NLRI classes examined' % n)

    # ------------------------------------------------------------------ R1b index is injective over the ADD-PATH variants
    run.rule('C15.R1b', 'routes that differ in path identifier never share an index: every index() that reads the path information separates "no path id", "ADD-PATH disabled" and a real 4-byte path id by distinct non-empty constant markers', floor=1)
    n_pi = 0
    for cq in classes:
        ci = model.classes[cq]
        if 'index' not in ci.methods:
            continue
        ix = ci.methods['index']
        txt = norm(ix.node)
        if 'path_info' in txt:
            n_pi += 1
            marks = {}
            il = Loc(model, ix)
            for n_ in walk_no_nested(ix.node):
                if isinstance(n_, (ast.If, ast.IfExp)) and isinstance(n_.test, ast.Compare) and isinstance(n_.test.ops[0], ast.Is) and 'self.path_info' in il.expand(n_.test.left):
                    which = (dotted(n_.test.comparators[0]) or '').rsplit('.', 1)[-1]
                    if isinstance(n_, ast.IfExp):
                        if isinstance(n_.body, ast.Constant) and isinstance(n_.body.value, bytes):
                            marks[which] = n_.body.value
                        continue
                    for st in n_.body:
                        if isinstance(st, (ast.Assign, ast.Return)) and isinstance(st.value, ast.Constant) and isinstance(st.value.value, bytes):
                            marks[which] = st.value.value
            ok = set(marks) >= {'NOPATH', 'DISABLED'} and len(set(marks.values())) == len(marks) and all(len(v) not in (0, 4) for v in marks.values())
            run.check(ok, cq, 'index() markers %s' % {k: v for k, v in marks.items()}, ix.loc(), 'a route without ADD-PATH and a route with a path id must not produce the same index: without a constant marker for the DISABLED / NOPATH cases the first four bytes of one route (mask, RD...) are read as the path id of another')
        elif '_has_addpath' in txt:
            n_pi += 1
            lits = [c.value for c in ast.walk(ix.node) if isinstance(c, ast.Constant) and isinstance(c.value, bytes)]
            ok = any(len(v) not in (0, 4) for v in lits)
            run.check(ok, cq, 'index() marks the no-ADD-PATH form with %s' % lits, ix.loc(), 'the packed bytes with and without a path id must not be confusable')
    if n_pi < 3:
        run.cannot('only %d index() implementations read the path information' % n_pi)

    # ------------------------------------------------------------------ R1c what is kept beside the packed bytes is in the index
    run.rule('C15.R1c', 'routes that differ never share an index: a field that __eq__ compares and that the object keeps BESIDE its packed bytes (assigned in __init__, not computed from _packed) is part of index()', floor=10)

    def _eq_fields(f: FuncInfo) -> set[str]:
        out = set()
        for n_ in walk_no_nested(f.node):
            if isinstance(n_, ast.Compare):
                for side in [n_.left] + n_.comparators:
                    for a in ast.walk(side):
                        if isinstance(a, ast.Attribute) and dotted(a.value) == 'self':
                            out.add(a.attr)
        return out - {'afi', 'safi', 'CODE', 'ARCHTYPE', 'NAME', '__class__', '_packed'}

    def _stored(cq_: str, attr: str) -> bool:
        for c_ in model.classes[cq_].mro or [cq_]:
            cc = model.classes.get(c_)
            if cc is None:
                continue
            if attr in cc.methods:
                return False  # a property / method: computed, not kept
            init = cc.methods.get('__init__')
            if init is not None:
                for n_ in walk_no_nested(init.node):
                    if isinstance(n_, (ast.Assign, ast.AnnAssign)):
                        tg = n_.targets[0] if isinstance(n_, ast.Assign) else n_.target
                        if dotted(tg) == 'self.' + attr:
                            return True
        return False

    n1c = 0
    for cq in classes:
        ci = model.classes[cq]
        if not ({'__eq__', 'index'} & set(ci.methods)):
            continue
        eq = model.effective(cq, '__eq__')
        ix = model.effective(cq, 'index')
        if eq is None or ix is None or _eq_basis(model, eq) == 'index':
            continue
        n1c += 1
        kept = sorted(a for a in _eq_fields(eq) if _stored(cq, a))
        itxt = norm(ix.node)
        missing = [a for a in kept if ('self.' + a) not in itxt and ("'%s'" % a) not in itxt]
        run.check(not missing, cq, 'index() (%s) covers the fields kept beside the packed bytes %s' % (short(ix.qualname), kept), ix.loc(), 'two routes that differ only in %s compare different but have the same index(): the RIB tables, keyed by the index, keep one of them' % ', '.join(missing))
    if n1c < 10:
        run.cannot('only %d NLRI classes with a field-wise __eq__ examined' % n1c)

    # ------------------------------------------------------------------ R12 what decoding takes out of the bytes, encoding puts back
    run.rule(
        'C15.R12',
        're-encoding what was decoded gives the same bytes: a wire field that index() reads from BESIDE the packed bytes (a route '
        'distinguisher the decoder cut out of them) is read by pack_nlri too - otherwise the route goes out without it',
        floor=1,
    )
    n12 = 0
    for cq in classes:
        ci = model.classes[cq]
        ix = model.effective(cq, 'index')
        pk = model.effective(cq, 'pack_nlri')
        if ix is None or pk is None or 'index' not in ci.methods and 'pack_nlri' not in ci.methods:
            continue
        itxt = norm(ix.node)
        if '_packed' not in itxt:
            continue
        # fields whose BYTES index() adds to the packed bytes (values of the returned concatenation, tests aside)
        beside = set()
        il = Loc(model, ix)
        methods_ = {m_ for c_ in (ci.mro or [cq]) if c_ in model.classes for m_ in model.classes[c_].methods}

        def collect(e: ast.AST, depth: int = 0) -> None:
            if depth > 16:
                return
            if isinstance(e, ast.IfExp):
                collect(e.body, depth + 1)
                collect(e.orelse, depth + 1)
                return
            if isinstance(e, ast.Name):
                for v in il.values(e.id):
                    collect(v, depth + 1)
                return
            if isinstance(e, ast.Attribute) and dotted(e.value) == 'self':
                if e.attr not in ('_packed', 'afi', 'safi', 'path_info', 'cidr') and not e.attr.isupper() and e.attr not in methods_:
                    beside.add(e.attr)
                return
            if isinstance(e, ast.Call) and isinstance(e.func, ast.Name) and e.func.id == 'getattr' and len(e.args) >= 2 and dotted(e.args[0]) == 'self' and isinstance(e.args[1], ast.Constant):
                beside.add(e.args[1].value)
                return
            for c_ in ast.iter_child_nodes(e):
                if isinstance(c_, ast.expr):
                    collect(c_, depth + 1)

        for r_ in walk_no_nested(ix.node):
            if isinstance(r_, ast.Return) and r_.value is not None:
                collect(r_.value)
        if not beside:
            continue
        n12 += 1
        ptxt = norm(pk.node)
        missing = sorted(b for b in beside if ('self.' + b) not in ptxt and ("'%s'" % b) not in ptxt)
        run.check(not missing, cq, 'pack_nlri (%s) writes the fields index() reads beside the packed bytes %s' % (short(pk.qualname), sorted(beside)), pk.loc(), 'index() tells two routes apart by %s, which is not in the packed bytes, and pack_nlri returns the packed bytes without it: a decoded route is re-encoded as a different NLRI (a bgp-ls-vpn route without its route distinguisher and with a shorter length)' % ', '.join(missing))
    if n12 < 1:
        run.cannot('only %d NLRI classes with fields kept beside the packed bytes' % n12)

    # ------------------------------------------------------------------ R1d equal routes have equal indexes
    run.rule('C15.R1d', 'equal routes have equal indexes: a class whose index() is the complete packed bytes compares, in a field-wise __eq__, every field it reads out of those bytes', floor=5)
    n1d = 0
    for cq in classes:
        ci = model.classes[cq]
        if not ({'__eq__', 'index'} & set(ci.methods)):
            continue
        eq = model.effective(cq, '__eq__')
        ix = model.effective(cq, 'index')
        if eq is None or ix is None or _eq_basis(model, eq) == 'index':
            continue
        full = _uses_full_packed(ix)
        for r in walk_no_nested(ix.node):
            if isinstance(r, ast.Return) and isinstance(r.value, ast.Call) and isinstance(r.value.func, ast.Attribute) and r.value.func.attr == 'index':
                base = dotted(r.value.func.value) or ''
                for c_ in ci.mro or []:
                    if c_.endswith('.' + base) and c_ in model.classes and 'index' in model.classes[c_].methods:
                        full = full or _uses_full_packed(model.classes[c_].methods['index'])
        ef = _eq_fields(eq) | ({'_packed'} if any(isinstance(a, ast.Attribute) and dotted(a) == 'self._packed' for a in ast.walk(eq.node)) else set())
        if not full or '_packed' in ef:
            continue
        n1d += 1
        props = set()
        for c_ in ci.mro or [cq]:
            cc = model.classes.get(c_)
            if cc is None or not c_.startswith('exabgp.bgp.message.update.nlri.') or c_ == NLRI:
                continue
            for nm, f2 in cc.methods.items():
                if any(isinstance(d_, ast.Name) and d_.id == 'property' for d_ in f2.node.decorator_list) and 'self._packed' in norm(f2.node):
                    props.add(nm)
        ignored = sorted(props - ef)
        run.check(not ignored, cq, '__eq__ compares every wire field of a route indexed by its complete bytes (ignored: %s)' % ignored, eq.loc(), 'two routes that differ only in %s compare equal (and hash equal) but index() - the complete packed bytes - differs: the RIB keeps both under two keys' % ', '.join(ignored))
    if n1d < 5:
        run.cannot('only %d classes with a field-wise __eq__ and a byte-wise index examined' % n1d)

    # ------------------------------------------------------------------ R5 AS_PATH survives the 2-byte detour (shared with C01.R3)
    run.rule('C15.R5', 'AS_PATH round trip through a 2-byte session: AS_TRANS substitution flagged over the whole path and AS4_PATH carrying the original path (shared with C01.R3)', floor=4)
    from .C01 import _r3_aspath

    _r3_aspath(model, run, folder)

    # ------------------------------------------------------------------ R6 a deep copy shares nothing that can be edited
    run.rule('C15.R6', 'every __deepcopy__ gives the copy its own mutable containers: a slot whose type is a list / dict / set is filled through deepcopy(), never with a new outer container around the same inner objects', floor=5)
    n_dc = 0
    for fi in sorted(model.funcs.values(), key=lambda f: f.qualname):
        if fi.name != '__deepcopy__' or not fi.module.rel.startswith('exabgp/'):
            continue
        run.analysed(fi)
        for a in walk_no_nested(fi.node):
            if not (isinstance(a, ast.Assign) and isinstance(a.targets[0], ast.Attribute) and isinstance(a.targets[0].value, ast.Name) and a.targets[0].value.id != 'self'):
                continue
            n_dc += 1
            ty = model.type_of(fi.module, a.value)
            mutable = any(k in ty for k in ('list[', 'dict[', 'set[', 'List[', 'Dict[', 'Set[', 'bytearray', 'deque'))
            deep = any(isinstance(x, ast.Call) and dotted(x.func) in ('deepcopy', 'copy.deepcopy') for x in ast.walk(a.value))
            run.check(not mutable or deep, fi.qualname, 'copy.%s is its own object%s' % (a.targets[0].attr, ' (deepcopy)' if deep else ''), fi.loc(a), 'the copy gets a container of type %s that still holds the ORIGINAL inner objects: editing the copy (Flow.add appends to the per-component lists) changes what the original renders while its packed bytes, index and hash stay as they were' % ty[:70])
    if n_dc < 5:
        run.cannot('only %d slot assignments found in __deepcopy__ methods' % n_dc)

    # ------------------------------------------------------------------ R7 order-independent equality needs an order-independent index
    run.rule('C15.R7', 'attribute sets that AttributeCollection.sameValuesAs compares independently of their order render in sorted order: index() and __hash__ of a collection are built from that text, so equal collections must print the same', floor=1)
    sv = model.func('exabgp.bgp.message.update.attribute.collection.AttributeCollection.sameValuesAs')
    run.analysed(sv)
    unordered = set()
    for iff in walk_no_nested(sv.node):
        if isinstance(iff, ast.If) and isinstance(iff.test, ast.Call) and dotted(iff.test.func) == 'isinstance' and len(iff.test.args) == 2 and any(isinstance(x, ast.Call) and dotted(x.func) == 'sorted' for st_ in iff.body for x in ast.walk(st_)):
            for cq_ in model.type_classes(sv.module, iff.test.args[1]) or []:
                unordered.add(cq_)
            d_ = dotted(iff.test.args[1])
            if d_ and d_ in sv.module.imports:
                unordered.add(sv.module.imports[d_])
    unordered = {c for c in unordered if c in model.classes}
    if not unordered:
        run.cannot('sameValuesAs: the order-independent comparison branch was not found')
    for cq_ in sorted(unordered):
        for sub in sorted({cq_} | set(model.all_subclasses(cq_))):
            ci_ = model.classes.get(sub)
            if ci_ is None or '__repr__' not in ci_.methods:
                continue
            rp = ci_.methods['__repr__']
            run.analysed(rp)
            iters = [g.iter for n in walk_with_lambdas(rp.node) if isinstance(n, (ast.GeneratorExp, ast.ListComp)) for g in n.generators] + [n.iter for n in walk_no_nested(rp.node) if isinstance(n, ast.For)]
            bad_it = [it for it in iters if not (isinstance(it, ast.Call) and dotted(it.func) == 'sorted')]
            run.check(bool(iters) and not bad_it, rp.qualname, 'renders its members in sorted order', rp.loc(bad_it[0]) if bad_it else rp.loc(), 'a set received from a peer keeps the order of the wire: two collections that sameValuesAs / __eq__ call equal print differently, so index() and __hash__ differ - a dict lookup misses and the outgoing RIB files them under two attribute groups')

    # ------------------------------------------------------------------ R2 registry completeness
    run.rule('C15.R2', 'every registered NLRI class has effective pack_nlri, unpack_nlri, index and json that are not the raising base stub; every registered attribute has pack_attribute, unpack_attribute and json', floor=40)
    seen = set()
    for rec in rh.nlris(model, folder):
        ci = rec['cls']
        if ci.qualname in seen:
            continue
        seen.add(ci.qualname)
        for meth in ('pack_nlri', 'unpack_nlri', 'index', 'json'):
            f = model.effective(ci.qualname, meth)
            stub = f is None or _is_stub(f)
            # fronts (EVPN, MUP, MVPN, BGPLS) dispatch unpack to sub-registries and pack in subclasses
            if stub and meth in ('pack_nlri', 'json') and any(meth in model.classes[s].methods or model.effective(s, meth) is not f for s in model.all_subclasses(ci.qualname) if s in model.classes):
                stub = False
            run.check(not stub, ci.qualname, '%s() is implemented' % meth, ci.loc(), 'a registered family without %s cannot round-trip' % meth)
    # which attributes are rendered through json() (the others go through str() in _generate_json)
    ac = model.cls('exabgp.bgp.message.update.attribute.collection.AttributeCollection')
    rep = ac.assigns.get('representation')
    json_kinds = set()
    if isinstance(rep, ast.Dict):
        for k, v in zip(rep.keys, rep.values):
            if isinstance(v, ast.Tuple) and v.elts and isinstance(v.elts[0], ast.Constant) and v.elts[0].value in ('list', 'multiple'):
                json_kinds.add(folder.fold(k, ac.module, ac))
    for rec in rh.attributes(model, folder):
        ci = rec['cls']
        meths = ['pack_attribute', 'unpack_attribute'] + (['json'] if rec['ID'] in json_kinds else [])
        for meth in meths:
            f = model.effective(ci.qualname, meth)
            if (ci.qualname, meth) in R2_EXEMPT:
                run.ok('%s.%s' % (ci.name, meth), 'exempt: ' + R2_EXEMPT[(ci.qualname, meth)])
                continue
            run.check(f is not None and not _is_stub(f), ci.qualname, '%s() is implemented' % meth, ci.loc(), 'a registered attribute without %s cannot round-trip' % meth)

    # ------------------------------------------------------------------ R3 deterministic renderers
    run.rule('C15.R3', 'json / __str__ / extensive of the message classes are deterministic functions of the object: no iteration over a set without sorted(), no id(), hash(), clock or random source', floor=150)
    n_r = 0
    for fi in model.funcs.values():
        if not fi.module.rel.startswith('exabgp/bgp/message/update/') or fi.cls is None:
            continue
        if fi.name not in ('json', 'v4_json', '__str__', '__repr__', 'extensive', '_generate_json', '_generate_text'):
            continue
        n_r += 1
        run.analysed(fi)
        bad = None
        for x in walk_with_lambdas(fi.node):
            if isinstance(x, ast.Call) and isinstance(x.func, ast.Name) and x.func.id in ('id', 'hash'):
                bad = (x, 'calls %s()' % x.func.id)
            if isinstance(x, ast.Call) and (dotted(x.func) or '') in ('time.time', 'random.random', 'random.randint', 'os.urandom', 'uuid.uuid4'):
                bad = (x, 'reads %s' % dotted(x.func))
            it = None
            if isinstance(x, (ast.For, ast.comprehension)):
                it = x.iter
            if it is not None:
                t = model.type_of(fi.module, it)
                if (t.startswith('builtins.set') or t.startswith('builtins.frozenset')) and not (isinstance(it, ast.Call) and isinstance(it.func, ast.Name) and it.func.id == 'sorted'):
                    bad = (it, 'iterates a %s without sorted()' % t.split('[')[0])
        if bad:
            run.violation(fi.qualname, bad[1], fi.loc(bad[0]), 'the rendering would not be a deterministic function of the bytes')
        else:
            run.ok(short(fi.qualname))
    if n_r < 150:
        run.cannot('only %d renderers found' % n_r)

    # ------------------------------------------------------------------ R4 self-comparison
    run.rule(
        'C15.R8',
        'the fixed fields of a decoder do not overlap: two different fields decoded from constant positions of one buffer on one '
        'path read disjoint (or identical) byte ranges - the encoders lay the fields end to end, so a field read on top of another '
        'one is read at the wrong offset and the round trip changes its value',
        floor=17,
    )
    _r8_field_overlap(model, run, folder)

    run.rule(
        'C15.R9',
        'a copy equals its original: __copy__ / __deepcopy__ of the message classes give the copy every slot the class declares, '
        'taken from the same slot of the original',
        floor=10,
    )
    from .common import copy_completeness_rule

    copy_completeness_rule(model, run, ('exabgp.bgp.message.', 'exabgp.rib.', 'exabgp.protocol.'), 'index(), pack and json of the copy differ from the original', floor=10)

    run.rule('C15.R10', 'FlowSpec NLRI length round trip: the encoder writes one byte below 240 and 0xFnnn from 240 to 4095, the decoder takes a first byte with the 0xF0 nibble for the two-byte form - a length of exactly 240 written on one byte (0xF0) is read back as the start of a two-byte length (shared with C16.R4)', floor=3)
    from .C16 import flow_length_rule

    flow_length_rule(model, run, folder)

    run.rule(
        'C15.R11',
        'a rendering kept in the object is the rendering of the object alone: where a method stores its result in a slot of self '
        '(`if not self._json: self._json = ...`) the stored value does not depend on an argument of that call, unless the method '
        'bypasses the slot whenever that argument is not its default - otherwise the JSON of one UPDATE depends on how the previous '
        'one (same attribute block, served from the block cache) was rendered',
        floor=1,
    )
    _r11_memo_args(model, run)

    run.rule(
        'C15.R13',
        'decoding depends on the bytes and the session only: the per-attribute cache of Attribute.unpack is keyed by the value '
        'bytes alone, so it may serve a class only if the decoder of that class does not read its negotiated argument (AIGP is '
        'dropped or kept by negotiated.aigp, AS_PATH and AGGREGATOR are 2 or 4 octets wide by negotiated.asn4) - or the cache is '
        'never consulted, which is the case as long as the flag is read from the class unpack() is called on (Attribute)',
        floor=1,
    )
    attribute_cache_rule(model, run, folder)

    run.rule('C15.R4', 'no __eq__ compares a field of self with the same field of self (a typo that makes distinct objects equal)', floor=41)
    n_e = 0
    for fi in model.funcs.values():
        if fi.name != '__eq__' or fi.cls is None or not fi.module.rel.startswith('exabgp/bgp/'):
            continue
        n_e += 1
        bad = None
        for c in ast.walk(fi.node):
            if isinstance(c, ast.Compare) and len(c.ops) == 1 and isinstance(c.ops[0], (ast.Eq, ast.NotEq)):
                l, r = dotted(c.left), dotted(c.comparators[0])
                if l and r and l == r and l.startswith('self.'):
                    bad = c
        if bad is not None:
            run.violation(fi.qualname, 'compares %s with itself' % norm(bad.left), fi.loc(bad), 'the field is never compared with the other object: objects differing only in it are equal')
        else:
            run.ok(short(fi.qualname))
    if n_e < 40:
        run.cannot('only %d __eq__ methods found' % n_e)


def _eq_basis(model: Model, eq: FuncInfo, depth: int = 0) -> str:
    if depth > 5:
        return '?'
    for e in _returns(eq):
        txt = norm(e)
        if 'self.index()' in txt and 'other.index()' in txt:
            return 'index'
        for c in ast.walk(e):
            if isinstance(c, ast.Call) and isinstance(c.func, ast.Attribute) and c.func.attr == '__eq__':
                for cal in model.callees(eq.module, c):
                    f = model.funcs.get(cal)
                    if f is not None and f is not eq:
                        b = _eq_basis(model, f, depth + 1)
                        if b == 'index':
                            return b
    return 'other'


def _is_stub(f: FuncInfo) -> bool:
    body = [s for s in f.node.body if not (isinstance(s, ast.Expr) and isinstance(s.value, ast.Constant))]
    return len(body) == 1 and isinstance(body[0], ast.Raise) and 'NotImplementedError' in norm(body[0])


# ---------------------------------------------------------------------------------------------- R8
def _const_reads(model: Model, folder: Folder, fi: FuncInfo, buf: str) -> list[tuple[dict, list[tuple[str, int, int, ast.AST]]]]:
    """For every path through the leading straight-line / if-structured part of the function (until the buffer is rebound or a
    loop starts): the constant byte ranges read from `buf`, each with the name it is assigned to.  Tests that do not fold are
    explored both ways, one truth value per distinct test text on a path (so `x if c else y` and `if c:` stay correlated)."""

    class Need(Exception):
        pass

    def ints(env: dict) -> dict:
        return {k: v for k, v in env.items() if isinstance(v, int)}

    def decide(test: ast.AST, env: dict, conds: dict) -> bool:
        t = folder.fold(test, fi.module, fi.cls, ints(env))
        if t is UNKNOWN or not isinstance(t, (bool, int)):
            k = norm(test)
            if k not in conds:
                raise Need(k)
            return conds[k]
        return bool(t)

    def ev(e: ast.AST, env: dict, conds: dict):
        if isinstance(e, ast.IfExp):
            return ev(e.body if decide(e.test, env, conds) else e.orelse, env, conds)
        v = folder.fold(e, fi.module, fi.cls, ints(env))
        return v if isinstance(v, int) and not isinstance(v, bool) else None

    def reads(expr: ast.AST, env: dict, conds: dict) -> list[tuple[int, int, ast.AST]]:
        out = []
        # a slice bound as it is (`fixed, rest = data[:9], data[9:]`) is a sub-buffer handed on, not a decoded field: only
        # what goes through a conversion (a call other than bytes / memoryview) or is read as one octet counts
        bare = set()
        tops = expr.elts if isinstance(expr, (ast.Tuple, ast.List)) else [expr]
        for t_ in tops:
            while isinstance(t_, ast.Call) and isinstance(t_.func, ast.Name) and t_.func.id in ('bytes', 'memoryview', 'bytearray') and len(t_.args) == 1:
                t_ = t_.args[0]
            if isinstance(t_, ast.Subscript) and isinstance(t_.slice, ast.Slice):
                bare.add(id(t_))
        for s_ in ast.walk(expr):
            if id(s_) in bare:
                continue
            if isinstance(s_, ast.Subscript) and dotted(s_.value) == buf:
                if isinstance(s_.slice, ast.Slice):
                    if s_.slice.upper is None or s_.slice.step is not None:
                        continue
                    lo = 0 if s_.slice.lower is None else ev(s_.slice.lower, env, conds)
                    hi = ev(s_.slice.upper, env, conds)
                    if lo is not None and hi is not None and 0 <= lo < hi:
                        out.append((lo, hi, s_))
                else:
                    i = ev(s_.slice, env, conds)
                    if i is not None and i >= 0:
                        out.append((i, i + 1, s_))
        return out

    def run_block(sts: list[ast.stmt], env: dict, conds: dict, acc: list) -> tuple[str | None, dict]:
        for st in sts:
            if isinstance(st, (ast.Assign, ast.AnnAssign)) and st.value is not None:
                tg = st.targets[0] if isinstance(st, ast.Assign) else st.target
                for lo, hi, node in reads(st.value, env, conds):
                    acc.append((norm(tg), lo, hi, node))
                for nm in [x.id for x in ast.walk(tg) if isinstance(x, ast.Name) and isinstance(x.ctx, ast.Store)]:
                    if nm == buf:
                        return 'stop', env
                    env = dict(env)
                    env[nm] = ev(st.value, env, conds) if isinstance(tg, ast.Name) else None
            elif isinstance(st, ast.AugAssign) and isinstance(st.target, ast.Name):
                for lo, hi, node in reads(st.value, env, conds):
                    acc.append((norm(st.target), lo, hi, node))
                if st.target.id == buf:
                    return 'stop', env
                cur, inc = env.get(st.target.id), ev(st.value, env, conds)
                env = dict(env)
                env[st.target.id] = (cur + inc) if isinstance(cur, int) and isinstance(inc, int) and isinstance(st.op, ast.Add) else None
            elif isinstance(st, ast.If):
                r, env = run_block(st.body if decide(st.test, env, conds) else st.orelse, env, conds, acc)
                if r is not None:
                    return r, env
            elif isinstance(st, (ast.Return, ast.Raise)):
                return 'exit', env
            elif isinstance(st, (ast.For, ast.AsyncFor, ast.While, ast.Try, ast.With, ast.AsyncWith)):
                return 'stop', env
        return None, env

    results = []
    todo: list[dict] = [{}]
    while todo and len(results) < 64:
        conds = todo.pop()
        try:
            acc: list = []
            run_block(fi.node.body, {}, conds, acc)
            results.append((conds, acc))
        except Need as k:
            for v in (True, False):
                todo.append(dict(conds, **{k.args[0]: v}))
        if len(todo) > 256:
            break
    return results


def _r8_field_overlap(model: Model, run: Run, folder: Folder) -> None:
    import itertools

    n_paths = 0
    n_funcs = 0
    reported: set[tuple[str, str, str]] = set()
    for q, fi in sorted(model.funcs.items()):
        if not any(p in q for p in ('.bgp.message.update.attribute.', '.bgp.message.update.nlri.', '.bgp.message.open.')):
            continue
        if fi.name.startswith(('make_', 'pack', '_pack')):
            continue
        params = [a.arg for a in fi.node.args.args if a.arg not in ('self', 'cls')]
        bufs = params[:1]
        if any(isinstance(n, ast.Attribute) and n.attr == '_packed' and isinstance(n.value, ast.Name) and n.value.id == 'self' for n in ast.walk(fi.node)):
            bufs.append('self._packed')
        counted = False
        for buf in bufs:
            for conds, acc in _const_reads(model, folder, fi, buf):
                if len(acc) < 2:
                    continue
                n_paths += 1
                if not counted:
                    counted = True
                    n_funcs += 1
                    run.analysed(fi)
                bad = None
                for (t1, a1, b1, n1), (t2, a2, b2, n2) in itertools.combinations(acc, 2):
                    if t1 != t2 and a1 < b2 and a2 < b1 and (a1, b1) != (a2, b2):
                        bad = (t1, a1, b1, t2, a2, b2, n2)
                        break
                if bad is None:
                    continue
                key = (q, bad[0], bad[3])
                if key in reported:
                    continue
                reported.add(key)
                run.violation(
                    q,
                    'fields %s and %s are decoded from overlapping bytes' % (bad[0], bad[3]),
                    fi.loc(bad[6]),
                    '%s is read from bytes [%d:%d] and %s from [%d:%d] of the same buffer%s: the encoder lays the fields end to end, so '
                    'one of the two offsets is wrong and what ExaBGP encoded does not decode to the same value'
                    % (bad[0], bad[1], bad[2], bad[3], bad[4], bad[5], (' when ' + ', '.join('%s is %s' % kv for kv in conds.items())) if conds else ''),
                )
        if counted and not any(k[0] == q for k in reported):
            run.ok('%s: fixed fields disjoint' % short(q))
    run.extra['field_overlap_paths'] = n_paths
    if n_funcs < 17:
        run.cannot('only %d decoders with two or more constant-position fields found' % n_funcs)


# ---------------------------------------------------------------------------------------------- R11
def _r11_memo_args(model: Model, run: Run) -> None:
    from ..flow import flat_guards, parent_map

    n = 0
    for q, fi in sorted(model.funcs.items()):
        if '.bgp.message.' not in q or fi.cls is None:
            continue
        params = {a.arg for a in fi.node.args.args[1:]} | {a.arg for a in fi.node.args.kwonlyargs}
        if not params:
            continue
        pm = None
        for st in walk_no_nested(fi.node):
            if not (isinstance(st, ast.Assign) and len(st.targets) == 1):
                continue
            d = dotted(st.targets[0]) or ''
            if not (d.startswith('self._') and d.count('.') == 1):
                continue
            pm = pm or parent_map(fi.node)
            g = flat_guards(fi.node, st, pm)
            # a memo: assigned where the slot is found empty, and returned
            is_memo = any(dotted(t) == d and not pol for t, pol in g) or any(isinstance(t, ast.Compare) and dotted(t.left) == d and isinstance(t.comparators[0], ast.Constant) and t.comparators[0].value is None for t, pol in g)
            returned = any(isinstance(r, ast.Return) and r.value is not None and dotted(r.value) == d for r in walk_no_nested(fi.node))
            if not (is_memo and returned):
                continue
            n += 1
            used = {x.id for x in ast.walk(st.value) if isinstance(x, ast.Name)} & params
            fixed = set()
            for t, pol in g:
                if not pol:
                    fixed |= {x.id for x in ast.walk(t) if isinstance(x, ast.Name)} & params
            free = sorted(used - fixed)
            run.check(
                not free,
                q,
                'the value kept in %s does not depend on an argument of the call' % d,
                fi.loc(st),
                'the slot is filled with %s, which reads the argument %s, and is returned to every later caller whatever they pass: the '
                'first rendering decides what all the others get' % (norm(st.value)[:60], ', '.join(free)),
            )
    if n < 1:
        run.cannot('only %d memoised renderings found in the message classes' % n)


def attribute_cache_rule(model: Model, run: Run, folder: Folder) -> None:
    """shared by C15.R13 and C19.R8"""
    ATTR = 'exabgp.bgp.message.update.attribute.attribute.Attribute'
    un = model.func(ATTR + '.unpack')
    run.analysed(un)
    L = Loc(model, un)
    # the flag that lets the cache answer: the local tested in front of the `retrieve`
    rets = [c for c in walk_no_nested(un.node) if isinstance(c, ast.Call) and isinstance(c.func, ast.Attribute) and c.func.attr == 'retrieve']
    if not rets:
        run.cannot('Attribute.unpack: no cache retrieve() call found')
        return
    base = model.cls(ATTR)
    dead = None
    terms: list[ast.AST] = []
    for t, pol in flat_guards(un.node, rets[0]):
        e = L.expanded(t, depth=4)
        stack = [e]
        while stack:
            x = stack.pop()
            if isinstance(x, ast.BoolOp) and isinstance(x.op, ast.And):
                stack += list(x.values)
            else:
                terms.append(x)
    for x in terms:
        # Attribute.unpack is called on the base class (AttributeCollection.parse: Attribute.unpack(aid, flag, ...)): cls is Attribute
        # (only a constant of the class counts: `caching` is the run-time switch the daemon sets from exabgp.cache.attributes)
        if isinstance(x, ast.Attribute) and x.attr.isupper() and folder.fold(x, un.module, base) is False:
            dead = x
    callers = [(f, c) for f in model.funcs.values() for c in model.calls_to(f.module, f.node, 'Attribute.unpack') if isinstance(c.func, ast.Attribute) and f is not un]
    on_base = bool(callers) and all(dotted(c.func.value) in ('Attribute', 'cls') and (dotted(c.func.value) == 'Attribute' or (f.cls is not None and f.cls.qualname == ATTR)) for f, c in callers)
    if dead is not None and on_base:
        run.ok('Attribute.unpack: cache never consulted', '`%s` is False for the class every call site calls it on (Attribute, %d call sites)' % (norm(dead), len(callers)))
        return
    # the cache can answer: for which classes, and do their decoders read the session ?
    keyed = [norm(a) for c in rets for a in c.args]
    if any('negotiated' in k for k in keyed):
        run.ok('Attribute.unpack: cache key', 'the key %s includes the session' % keyed)
        return
    n = 0
    for qn, ci in sorted(model.classes.items()):
        if not model.is_subclass(qn, ATTR) or folder.class_attr(qn, 'CACHING') is not True:
            continue
        eff = model.effective(qn, 'unpack_attribute')
        if eff is None:
            continue
        params = [a.arg for a in eff.node.args.args]
        neg = params[2] if len(params) > 2 else 'negotiated'
        reads = sorted({norm(x) for x in walk_no_nested(eff.node) if isinstance(x, ast.Attribute) and isinstance(x.value, ast.Name) and x.value.id == neg})
        n += 1
        run.check(not reads, qn, 'served from the cache keyed by %s: its decoder reads %s' % (keyed, reads or 'nothing of the session'), eff.loc(), 'the first session that decodes these bytes decides what every other session gets for them: an AIGP metric decoded on a session without the AIGP capability is kept as `discard` for the session that has it (and the other way round), so decode(encode(x)) is not x')
    if n == 0:
        run.cannot('Attribute.unpack: the cache can answer but no class with CACHING = True was found')
