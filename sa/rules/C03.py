"""C03 — no peer input can crash or wedge the speaker.  DESIGN.md 3/C03."""

from __future__ import annotations

import ast

from ..alpha import Loc, amatch
from ..cfg import handler_names
from ..const import UNKNOWN, Folder
from ..flow import Slicer, always_exits, conjuncts, flat_guards, parent_map
from ..model import FuncInfo, Model, dotted, norm, walk_no_nested
from ..report import Run
from .common import CallGraph, ExcFlow, short

MESSAGE_UNPACK = 'exabgp.bgp.message.message.Message.unpack'
READ_MESSAGE = 'exabgp.reactor.protocol.Protocol.read_message'
PARSE = 'exabgp.bgp.message.update.attribute.collection.AttributeCollection.parse'

LAZY_ROOTS = [
    'exabgp.bgp.message.update.Update.parse',
    'exabgp.bgp.message.update.Update.data',
    'exabgp.bgp.message.update.attribute.mprnlri.MPRNLRI.__iter__',
    'exabgp.bgp.message.update.attribute.mprnlri.MPRNLRI.iter_routed',
    'exabgp.bgp.message.update.attribute.mpurnlri.MPURNLRI.__iter__',
]

# recursion that is bounded by construction: one symbol, one reason
RECURSION_ALLOWED = {
    'exabgp.bgp.message.update.attribute.aspath.ASPath._segment': 'splits a segment of more than 255 ASNs in two halves; depth is log2 of the segment length',
}


_SZ = 'size guard in a constructor/factory; every decode caller slices exactly that many bytes after its own length check'
R3_TRIAGED: dict[tuple[str, str], str] = {
    ('RuntimeError', 'exabgp.bgp.message.update.attribute.mpurnlri.MPURNLRI.__iter__'): 'context is always set by unpack_attribute, the only decode-side constructor',
    ('ValueError', 'exabgp.bgp.message.keepalive.KeepAlive.__init__'): 'Connection.reader validated length == 19 (Message.Length) before the body is decoded',
    ('ValueError', 'exabgp.bgp.message.open.Open.__init__'): 'data[0:9] after the len(data) < 9 guard of unpack_message',
    ('ValueError', 'exabgp.bgp.message.open.asn.ASN.unpack_asn'): 'callers pass 2- or 4-byte slices after length checks',
    ('ValueError', 'exabgp.bgp.message.open.capability.pathslimit.PathsLimit.set_limit'): 'value comes from a 2-byte unpack and is within 0..65535',
    ('ValueError', 'exabgp.bgp.message.refresh.RouteRefresh.__init__'): 'Connection.reader validated length == 23 before the body is decoded',
    ('ValueError', 'exabgp.bgp.message.update.Update.data'): 'negotiated context is stored by unpack_message before any access',
    ('ValueError', 'exabgp.bgp.message.update.Update.parse'): 'unpack_message passes the negotiated context',
    ('ValueError', 'exabgp.bgp.message.update.attribute.community.extended.community.ExtendedCommunity.from_packet'): _SZ,
    ('ValueError', 'exabgp.bgp.message.update.attribute.community.extended.community.ExtendedCommunityIPv6.from_packet'): _SZ,
    ('ValueError', 'exabgp.bgp.message.update.attribute.community.large.community.LargeCommunity.from_packet'): _SZ,
    ('ValueError', 'exabgp.bgp.message.update.nlri.qualifier.labels.Labels.__init__'): 'length multiple of 3 is guaranteed by the label loop of the NLRI decoders',
    ('ValueError', 'exabgp.bgp.message.update.nlri.qualifier.path.PathInfo.__init__'): _SZ,
    ('ValueError', 'exabgp.bgp.message.update.nlri.qualifier.rd.RouteDistinguisher.__init__'): _SZ,
    ('ValueError', 'exabgp.protocol.family.AFI.unpack_afi'): 'callers pass 2-byte slices after length checks',
    ('ValueError', 'exabgp.protocol.ip.IP.toaf'): 'text produced by inet_ntop from 4/16 packed bytes always contains . or :',
}


IMPLICIT_TRIAGED = {
    ('exabgp.bgp.message.update.attribute.bgpls.linkstate.FlagLS.unpack_flags', 'ValueError'): "int(bit): bit is a character of f'{octet:08b}', always '0' or '1'",
    ('exabgp.bgp.message.update.attribute.bgpls.node.isisarea.IsisArea.content', 'ValueError'): 'int(packed.hex(), 16): IsisArea.unpack_bgpls refuses an empty TLV and the hex of non-empty bytes is valid base 16',
    ('exabgp.bgp.message.notification.Notify.__init__', 'UnicodeEncodeError'): 'text of locally raised notifications: the decode-side messages interpolate numbers and hex dumps only',
}


def decode_roots(model: Model) -> list[str]:
    roots = [MESSAGE_UNPACK] + [q for q in model.funcs if q.endswith('.unpack_message') and '.bgp.message.' in q]
    roots += [r for r in LAZY_ROOTS if r in model.funcs]
    return roots


def decode_reachable(model: Model, cg: CallGraph) -> dict[str, str | None]:
    return cg.reachable(decode_roots(model))


def _sccs(nodes: set[str], edges: dict[str, set[str]]) -> list[list[str]]:
    index: dict[str, int] = {}
    low: dict[str, int] = {}
    onstack: set[str] = set()
    stack: list[str] = []
    out: list[list[str]] = []
    counter = 0
    for root in sorted(nodes):
        if root in index:
            continue
        work = [(root, iter(sorted(w for w in edges.get(root, ()) if w in nodes)))]
        index[root] = low[root] = counter
        counter += 1
        stack.append(root)
        onstack.add(root)
        while work:
            v, it = work[-1]
            advanced = False
            for w in it:
                if w not in index:
                    index[w] = low[w] = counter
                    counter += 1
                    stack.append(w)
                    onstack.add(w)
                    work.append((w, iter(sorted(x for x in edges.get(w, ()) if x in nodes))))
                    advanced = True
                    break
                elif w in onstack:
                    low[v] = min(low[v], index[w])
            if advanced:
                continue
            work.pop()
            if work:
                u = work[-1][0]
                low[u] = min(low[u], low[v])
            if low[v] == index[v]:
                comp = []
                while True:
                    w = stack.pop()
                    onstack.discard(w)
                    comp.append(w)
                    if w == v:
                        break
                out.append(comp)
    return out


def _is_registry_dispatch(call: ast.Call, fi: FuncInfo) -> bool:
    """`cls.registered_x[key].m(...)`, or `k = cls.registered_x.get(..) ... k.m(...)`."""
    if not isinstance(call.func, ast.Attribute):
        return False
    recv = call.func.value
    if isinstance(recv, ast.Subscript):
        d = dotted(recv.value) or ''
        return 'registered' in d or 'registry' in d.lower()
    if isinstance(recv, ast.Name):
        for n in walk_no_nested(fi.node):
            if isinstance(n, (ast.Assign, ast.AnnAssign)):
                tg = n.targets[0] if isinstance(n, ast.Assign) else n.target
                if isinstance(tg, ast.Name) and tg.id == recv.id and n.value is not None:
                    txt = norm(n.value)
                    if 'registered' in txt or 'klass_by_id' in txt or '_registry' in txt.lower():
                        return True
        # for x in registry.values()
    return False


def _identity_excluded(model: Model, fi: FuncInfo, call: ast.Call) -> set[str]:
    """`K.m(...)` reached only when `K.m is Q.m` is false: Q.m is not a callee of this site."""
    out: set[str] = set()
    if not (isinstance(call.func, ast.Attribute) and isinstance(call.func.value, ast.Name)):
        return out
    recv, meth = call.func.value.id, call.func.attr
    for test, pol in flat_guards(fi.node, call):
        if not (isinstance(test, ast.Compare) and len(test.ops) == 1 and isinstance(test.ops[0], (ast.Is, ast.IsNot))):
            continue
        excluded = (isinstance(test.ops[0], ast.Is) and pol is False) or (isinstance(test.ops[0], ast.IsNot) and pol is True)
        left, right = test.left, test.comparators[0]
        if not excluded or not (isinstance(left, ast.Attribute) and isinstance(right, ast.Attribute)):
            continue
        if dotted(left) != '%s.%s' % (recv, meth) or right.attr != meth:
            continue
        for c in model.type_classes(fi.module, right.value) or []:
            e = model.effective(c, meth)
            if e is not None:
                out.add(e.qualname)
        d = dotted(right.value)
        if d and not out:
            for q in model.classes:
                if q.endswith('.' + d) or q == d:
                    e = model.effective(q, meth)
                    if e is not None:
                        out.add(e.qualname)
    return out


def _structural_descent(fi: FuncInfo, call: ast.Call) -> bool:
    """The self-call's argument is an element of the function's own (container) parameter: `f(x) for x in param`,
    `for k, v in param.items(): f(v)`.  The depth is then the nesting depth of the Python containers handed in, which
    the decoder's own code - not the peer - builds."""
    params = {a.arg for a in fi.node.args.args}
    if len(call.args) != 1 or call.keywords or not isinstance(call.args[0], ast.Name):
        return False
    arg = call.args[0].id
    par = parent_map(fi.node)
    n: ast.AST | None = call
    while n is not None and n is not fi.node:
        gens = []
        if isinstance(n, (ast.ListComp, ast.SetComp, ast.GeneratorExp, ast.DictComp)):
            gens = [(g.target, g.iter) for g in n.generators]
        elif isinstance(n, ast.For):
            gens = [(n.target, n.iter)]
        for tgt, it in gens:
            if arg in {x.id for x in ast.walk(tgt) if isinstance(x, ast.Name)}:
                base = it
                if isinstance(base, ast.Call) and isinstance(base.func, ast.Attribute) and base.func.attr in ('items', 'values', 'keys') and not base.args:
                    base = base.func.value
                return isinstance(base, ast.Name) and base.id in params
        n = par.get(id(n))
    return False


def check(model: Model, run: Run) -> None:
    cg = CallGraph(model)
    pred = decode_reachable(model, cg)
    dec = set(pred)
    run.extra['decode_reachable_functions'] = len(dec)
    if len(dec) < 300:
        run.cannot('decode-reachable set has only %d functions (floor 300)' % len(dec))
    for q in dec:
        run.analysed(model.funcs[q])

    # ------------------------------------------------------------------ R1 recursion
    run.rule(
        'C03.R1',
        'no function reachable from the message decoders is on a call-graph cycle whose recursive call carries peer '
        'data (registry dispatch from a base-class front to registered subclasses is not recursion)',
        floor=3,
    )
    # a call `K.m(self)` that is only reached when `K.m is not Base.m` cannot land in Base.m
    edges = {q: set(v) for q, v in cg.edges.items()}
    dropped = []
    for q in dec:
        fi = model.funcs[q]
        keep: set[str] = set()
        cand: dict[str, int] = {}
        for n in walk_no_nested(fi.node):
            if isinstance(n, ast.Call):
                ex = _identity_excluded(model, fi, n)
                for t in model.callees_cha(fi.module, n):
                    if t in ex:
                        cand[t] = cand.get(t, 0) + 1
                    else:
                        keep.add(t)
        for t in cand:
            if t not in keep and t in edges.get(q, ()):
                edges[q].discard(t)
                dropped.append('%s -/-> %s' % (short(q), short(t)))
    run.extra['identity_guarded_edges_dropped'] = dropped
    for comp in _sccs(dec, edges):
        cyc = len(comp) > 1 or comp[0] in edges.get(comp[0], ())
        if not cyc:
            continue
        comp = sorted(comp)
        name = ' <-> '.join(short(c) for c in comp)
        if len(comp) == 1:
            q = comp[0]
            fi = model.funcs[q]
            site = cg.sites.get((q, q))
            # every self-call site
            sites = [
                n
                for n in walk_no_nested(fi.node)
                if isinstance(n, ast.Call) and q in (model.callees_cha(fi.module, n))
            ]
            real = [s for s in sites if not _is_registry_dispatch(s, fi)]
            if not real:
                run.ok(name, 'registry dispatch to registered subclasses (%d sites)' % len(sites))
                continue
            if all(_structural_descent(fi, s) for s in real):
                run.ok(name, 'structural descent into the containers of its own argument (%d sites): depth = nesting of the value the decoder built' % len(real))
                run.assumptions.append('%s: the containers handed to it are built by non-recursive decoder code (covered by this rule), so their nesting depth is fixed by the source' % short(q))
                continue
            if q in RECURSION_ALLOWED:
                run.ok(name, 'allowed: ' + RECURSION_ALLOWED[q])
                continue
            run.violation(
                q,
                'recursive: %d self-call sites' % len(real),
                fi.loc(real[0]),
                'the function calls itself once per element of peer-controlled input (%s); the depth is bounded only by '
                'the message size, so a valid message with many elements exceeds the interpreter recursion limit and is '
                'refused' % norm(real[0])[:80],
                ['decode path: ' + ' -> '.join(short(x) for x in cg.path(pred, q))] + ['%s: %s' % (fi.loc(s), norm(s)[:90]) for s in real[:14]],
            )
        else:
            if all(c in RECURSION_ALLOWED for c in comp):
                run.ok(name, 'allowed')
                continue
            fi = model.funcs[comp[0]]
            run.violation(
                comp[0],
                'mutual recursion: ' + name,
                fi.loc(),
                'call-graph cycle among decode-reachable functions',
                ['decode path: ' + ' -> '.join(short(x) for x in cg.path(pred, comp[0]))],
            )
    # positive control: the detector must see a cycle in a synthetic graph
    ctl = _sccs({'a', 'b', 'c'}, {'a': {'b'}, 'b': {'a'}, 'c': set()})
    if not any(len(c) == 2 for c in ctl):
        run.cannot('SCC positive control failed')

    # ------------------------------------------------------------------ R2 loops consume input
    run.rule(
        'C03.R2',
        'every `while <buffer>` loop in decode-reachable code makes progress on every path through its body: the '
        'buffer is rebound to a strict suffix (lower slice bound >= 1), or the path leaves the loop, or the rebinding '
        'is delegated to a decoder returning the rest together with an explicit progress check',
        floor=25,
    )
    _r2_loops(model, run, dec)

    # ------------------------------------------------------------------ R3 escapes
    run.rule(
        'C03.R3',
        'only Notify leaves the message decoders by explicit raise: escapes(Message.unpack) and of every registered '
        'unpack_message are a subset of {Notify(c,s)} (NotImplementedError of abstract stubs aside)',
        floor=6,
    )
    exc = ExcFlow(model)
    roots = [q for q in decode_roots(model)]
    from .common import origin_of, plain
    from .. import registry

    folder = Folder(model)
    flagged = set()
    unflagged = set()
    for rec in registry.attributes(model, folder):
        tgt = flagged if (rec['TREAT_AS_WITHDRAW'] is True or rec['DISCARD'] is True) else unflagged
        for b in rec['cls'].mro:
            if b.startswith('exabgp.') and not b.endswith('.attribute.Attribute'):
                tgt.add(b)
    flagged -= unflagged
    seen_origins: set[tuple[str, str]] = set()
    for q in sorted(roots):
        esc = exc.escapes_o(q)
        bad = sorted(e for e in esc if not plain(e).startswith('Notify(') and plain(e) not in ('NotImplementedError', 'Notify'))
        if not bad:
            run.ok(short(q), 'explicit escapes: %s' % (sorted({plain(e) for e in esc}) or 'none'))
        for b in bad:
            key = (plain(b), origin_of(b))
            if key in seen_origins:
                continue
            seen_origins.add(key)
            ocls = origin_of(b).rsplit('.', 1)[0]
            if ocls in flagged and plain(b) in ('ValueError', 'IndexError'):
                run.ok('%s from %s' % key, 'converted by AttributeCollection.parse: the class carries TREAT_AS_WITHDRAW/DISCARD (C08.R3/R4)')
                continue
            if key in R3_TRIAGED:
                run.ok('%s from %s' % key, 'triaged: ' + R3_TRIAGED[key])
                continue
            w = exc.witness(q, b)
            ofi = model.funcs.get(origin_of(b))
            run.violation(
                origin_of(b),
                'explicit %s reachable from %s' % (plain(b), short(q)),
                ofi.loc() if ofi else model.funcs[q].loc(),
                'an explicit `raise %s` is reachable from the message decoders without being converted to Notify and is '
                'not one of the defensive guards confirmed infeasible by reading; the reactor launders it into '
                'NOTIFICATION 1/0 (or, for lazily parsed parts, it surfaces outside the barrier)' % plain(b),
                w,
            )

    # ------------------------------------------------------------------ R6 implicit raisers
    run.rule(
        'C03.R6',
        'no decode-reachable function decodes/encodes peer text with a strict codec (bytes.decode / str.encode / bytes(s, enc) '
        'without errors=, int(<str>)) outside a handler for the error it raises',
        floor=1,
    )
    from .common import implicit_raise_sites

    n_scan = 0
    for q in sorted(dec):
        f = model.funcs[q]
        n_scan += 1
        for call, label in implicit_raise_sites(model, f):
            key = (q, label)
            if key in IMPLICIT_TRIAGED:
                run.ok('%s: %s' % (short(q), norm(call)[:50]), 'triaged: ' + IMPLICIT_TRIAGED[key])
                continue
            run.violation(
                q,
                'unguarded %s can raise %s' % (norm(call)[:60], label),
                f.loc(call),
                'a strict codec applied on the decode path raises %s for peer-chosen bytes; it is not a Notify, so the '
                'reactor answers NOTIFICATION 1/0 for input the RFCs may allow' % label,
                ['decode path: ' + ' -> '.join(short(x) for x in cg.path(pred, q))],
            )
    run.check(n_scan >= 300, MESSAGE_UNPACK, 'implicit-raiser scan over %d decode-reachable functions' % n_scan, model.func(MESSAGE_UNPACK).loc(), 'scan floor')

    # ------------------------------------------------------------------ R7 the text of a Notify is ASCII
    run.rule(
        'C03.R7',
        'the explanatory text of every Notify / NotifyError is ASCII whatever the peer sent: Notify.__init__ encodes it with '
        "bytes(data, 'ascii'), so a peer-chosen string interpolated without hex / ascii() / repr() raises UnicodeEncodeError "
        'where a NOTIFICATION was meant (outside the decoding barrier when it is built by read_open / read_keepalive)',
        floor=100,
    )
    _r7_notify_text(model, run)

    # ------------------------------------------------------------------ R8 no quadratic scan of what the message carries
    run.rule(
        'C03.R8',
        'linear time: no decode-reachable function searches a list it filled from the message (x in <list>, .index, .count, '
        '.remove) once per element of the message - each search is a pass over the list, so the work grows with the square of the message size',
        floor=1,
    )
    n8 = 0
    for q in sorted(dec):
        f = model.funcs[q]
        n8 += 1
        pm8 = parent_map(f.node)
        loc_names = {x.id for x in ast.walk(f.node) if isinstance(x, ast.Name) and isinstance(x.ctx, ast.Store)} | {a.arg for a in f.node.args.args}
        for c in walk_no_nested(f.node):
            operand = None
            if isinstance(c, ast.Compare) and len(c.ops) == 1 and isinstance(c.ops[0], (ast.In, ast.NotIn)):
                operand = c.comparators[0]
            elif isinstance(c, ast.Call) and isinstance(c.func, ast.Attribute) and c.func.attr in ('index', 'count', 'remove') and c.args:
                operand = c.func.value
            if not isinstance(operand, ast.Name) or operand.id not in loc_names:
                continue
            ty = model.type_of(f.module, operand)
            if not (ty.startswith('builtins.list') or ty.startswith('typing.List')):
                continue
            p_ = pm8.get(id(c))
            looping = False
            while p_ is not None and p_ is not f.node:
                if isinstance(p_, (ast.For, ast.While, ast.ListComp, ast.GeneratorExp, ast.SetComp, ast.DictComp)):
                    looping = True
                p_ = pm8.get(id(p_))
            if looping:
                run.violation(q, 'list searched inside a loop: %s' % norm(c)[:60], f.loc(c), 'the list `%s` is built from the message and searched once per element: a 65535 byte UPDATE costs minutes of reactor time instead of milliseconds (a set or dict lookup is constant time)' % operand.id, ['decode path: ' + ' -> '.join(short(x) for x in cg.path(pred, q))])
    run.check(n8 >= 300, MESSAGE_UNPACK, 'list-search scan over %d decode-reachable functions' % n8, model.func(MESSAGE_UNPACK).loc(), 'scan floor')

    # ------------------------------------------------------------------ R9 table lookups with a key the peer chose
    run.rule(
        'C03.R9',
        'a class-level table indexed with a value derived from the message is looked up under a membership test, an equality '
        'test against one of its keys, a handler for KeyError, or after the entry was created: a KeyError is not a Notify, and '
        'the reactor turns it into NOTIFICATION 1/0 for a message the RFCs may allow',
        floor=10,
    )
    n9 = 0
    for q in sorted(dec):
        f = model.funcs[q]
        pm9 = parent_map(f.node)
        for sub in walk_no_nested(f.node):
            if not (isinstance(sub, ast.Subscript) and isinstance(sub.ctx, ast.Load) and not isinstance(sub.slice, (ast.Slice, ast.Constant))):
                continue
            d = dotted(sub.value) or ''
            parts = d.split('.')
            if len(parts) != 2 or parts[0] == 'self':
                continue
            ty = model.type_of(f.module, sub.value)
            if not (ty.startswith('builtins.dict') or ty.startswith('typing.Dict')):
                continue
            n9 += 1
            key = norm(sub.slice)
            safe_why = _lookup_guard(f, sub, d, pm9)
            if safe_why is None and (short(q), d) in R9_TRIAGED:
                safe_why = 'triaged: ' + R9_TRIAGED[(short(q), d)]
            inst = '%s: %s' % (short(q), norm(sub)[:50])
            if safe_why is not None:
                run.ok(inst, safe_why)
            else:
                run.violation(q, 'unguarded lookup %s' % norm(sub)[:60], f.loc(sub), 'the key comes from the message and nothing shows it is a key of %s: a KeyError escapes the decoder' % d, ['decode path: ' + ' -> '.join(short(x) for x in cg.path(pred, q))])
    if n9 < 10:
        run.cannot('only %d class-table lookups found on the decode path' % n9)

    # ------------------------------------------------------------------ R10 / R11 outside the decoding barrier
    _r10_r11_readers(model, run, cg, dec)

    # ------------------------------------------------------------------ R12 a valid extended OPEN is not refused
    run.rule(
        'C03.R12',
        'a valid OPEN is not refused: Capabilities.unpack reads the optional parameters with the decoder of the layout the '
        'OPEN uses (RFC 4271 one-octet lengths, RFC 9072 two-octet lengths) and the capability TLVs inside a parameter with '
        'one-octet lengths in both, exactly as pack_capabilities writes them (shared with C07.R5)',
        floor=6,
    )
    from . import C07 as _c07

    _c07._r5_codec(model, run, Folder(model))

    # ------------------------------------------------------------------ R13 every next-hop length of a family is accepted
    run.rule(
        'C03.R13',
        'a valid MP_REACH_NLRI is not refused: for every family of Family.size and every next-hop length the table lists for '
        'it, the next-hop length stage of MPRNLRI.unpack_attribute is evaluated with and without a negotiated extended '
        'next hop (RFC 8950) and must not end in a raise',
        floor=40,
    )
    _r13_nexthop_lengths(model, run, Folder(model))

    run.rule(
        'C03.R4',
        'last-resort barriers: Message.unpack in read_message sits in a try whose handler covers Exception and '
        're-raises Notify; Update.unpack_message forces the lazy parse inside that barrier; Peer._run ends with an '
        'except Exception arm',
        floor=1,
    )
    _r4_barriers(model, run)

    # ------------------------------------------------------------------ R5 unknown attributes
    run.rule(
        'C03.R5',
        'unknown attributes are not refused: in AttributeCollection.parse the unknown non-transitive branch neither '
        'raises nor adds a marker and the unknown transitive branch keeps a GenericAttribute',
        floor=1,
    )
    _r5_unknown(model, run)


# ---------------------------------------------------------------------------------------------- R2
def _guard_bound(name: str, at: ast.AST, fi: FuncInfo, folder: Folder) -> int:
    """Lower bound of `name` implied by the conditions that hold at `at` (early exits included)."""
    from ..flow import flat_guards

    best = 0
    for t, pol in flat_guards(fi.node, at):
        if isinstance(t, ast.Name) and t.id == name and pol:
            best = max(best, 1)
        if isinstance(t, ast.Compare) and len(t.ops) == 1 and isinstance(t.left, ast.Name) and t.left.id == name:
            k = folder.fold(t.comparators[0], fi.module, fi.cls)
            if not isinstance(k, int) or isinstance(k, bool):
                continue
            op = t.ops[0]
            if not pol:
                if isinstance(op, ast.Lt):
                    best = max(best, k)
                elif isinstance(op, ast.LtE):
                    best = max(best, k + 1)
                elif isinstance(op, ast.Eq) and k == 0:
                    best = max(best, 1)
                elif isinstance(op, ast.NotEq):
                    best = max(best, k)
            else:
                if isinstance(op, ast.GtE):
                    best = max(best, k)
                elif isinstance(op, ast.Gt):
                    best = max(best, k + 1)
                elif isinstance(op, ast.Eq):
                    best = max(best, k)
                elif isinstance(op, ast.NotEq) and k == 0:
                    best = max(best, 1)
    return best


def _min_value(expr: ast.AST, fi: FuncInfo, model: Model, folder: Folder, depth: int = 0, at: ast.AST | None = None) -> int:
    """A sound lower bound (>= 0 assumed for wire-derived quantities) of an integer expression."""
    if depth > 6:
        return 0
    if isinstance(expr, ast.Name) and at is not None:
        g = _guard_bound(expr.id, at, fi, folder)
        if g >= 1:
            return max(g, _min_value(expr, fi, model, folder, depth + 1, None))
    v = folder.fold(expr, fi.module, fi.cls)
    if isinstance(v, int) and not isinstance(v, bool):
        return v
    if isinstance(expr, ast.BinOp):
        if isinstance(expr.op, ast.Add):
            return _min_value(expr.left, fi, model, folder, depth + 1, at) + _min_value(expr.right, fi, model, folder, depth + 1, at)
        if isinstance(expr.op, ast.Mult):
            return _min_value(expr.left, fi, model, folder, depth + 1, at) * _min_value(expr.right, fi, model, folder, depth + 1, at)
        return 0
    if isinstance(expr, ast.Name):
        vals = []
        for n in walk_no_nested(fi.node):
            if isinstance(n, ast.Assign):
                for t in n.targets:
                    if isinstance(t, ast.Name) and t.id == expr.id:
                        vals.append(_min_value(n.value, fi, model, folder, depth + 1))
                    elif isinstance(t, ast.Tuple) and any(isinstance(e, ast.Name) and e.id == expr.id for e in t.elts):
                        if isinstance(n.value, ast.Tuple) and len(n.value.elts) == len(t.elts):
                            for e, vv in zip(t.elts, n.value.elts):
                                if isinstance(e, ast.Name) and e.id == expr.id:
                                    vals.append(_min_value(vv, fi, model, folder, depth + 1))
                        else:
                            vals.append(0)
            elif isinstance(n, ast.AnnAssign) and isinstance(n.target, ast.Name) and n.target.id == expr.id and n.value is not None:
                vals.append(_min_value(n.value, fi, model, folder, depth + 1))
            elif isinstance(n, ast.AugAssign) and isinstance(n.target, ast.Name) and n.target.id == expr.id:
                if isinstance(n.op, ast.Add):
                    continue  # only grows when the increment is >= 0
                vals.append(0)
        return min(vals) if vals else 0
    return 0


def _buffer_names(test: ast.expr) -> set[str]:
    if isinstance(test, ast.Name):
        return {test.id}
    if isinstance(test, ast.BoolOp):
        out: set[str] = set()
        for v in test.values:
            out |= _buffer_names(v)
        return out
    if isinstance(test, ast.Compare):
        out = set()
        for side in [test.left] + list(test.comparators):
            if isinstance(side, ast.Call) and isinstance(side.func, ast.Name) and side.func.id == 'len' and side.args and isinstance(side.args[0], ast.Name):
                out.add(side.args[0].id)
            elif isinstance(side, ast.Name):
                out.add(side.id)
            elif isinstance(side, ast.BinOp):
                out |= {x.id for x in ast.walk(side) if isinstance(x, ast.Name) and not x.id.isupper()}
        return out
    if isinstance(test, ast.Call) and isinstance(test.func, ast.Name) and test.func.id == 'len' and test.args and isinstance(test.args[0], ast.Name):
        return {test.args[0].id}
    return set()


class _Progress:
    """Syntax-directed walk: does every path through `body` rebind one of `bufs` to a strict suffix or leave?"""

    def __init__(self, model: Model, fi: FuncInfo, bufs: set[str], folder: Folder) -> None:
        self.model = model
        self.fi = fi
        self.bufs = bufs
        self.folder = folder
        self.notes: list[str] = []
        self.delegated = False

    def block(self, body: list[ast.stmt], done: bool) -> tuple[bool, bool]:
        """Returns (progress made on all fall-through paths, all paths leave)."""
        for st in body:
            if isinstance(st, (ast.Return, ast.Raise, ast.Break)):
                return done, True
            if isinstance(st, ast.Continue):
                if not done:
                    self.notes.append('continue at line %d before the buffer advanced' % st.lineno)
                    return False, False
                return done, True
            if isinstance(st, ast.If):
                d1, l1 = self.block(st.body, done)
                d2, l2 = self.block(st.orelse, done) if st.orelse else (done, False)
                if l1 and l2:
                    return done, True
                if l1:
                    done = d2
                elif l2:
                    done = d1
                else:
                    done = d1 and d2
                continue
            if isinstance(st, ast.Try):
                d1, l1 = self.block(st.body + st.orelse, done)
                outs = [(d1, l1)]
                for h in st.handlers:
                    outs.append(self.block(h.body, done))
                live = [d for d, l in outs if not l]
                if not live:
                    return done, True
                done = all(live)
                if st.finalbody:
                    done, lf = self.block(st.finalbody, done)
                    if lf:
                        return done, True
                continue
            if isinstance(st, (ast.With, ast.AsyncWith)):
                done, l = self.block(st.body, done)
                if l:
                    return done, True
                continue
            if isinstance(st, (ast.For, ast.While)):
                # inner loop: progress inside it is not guaranteed (may run zero times)
                continue
            if self._advances(st):
                done = True
        return done, False

    def _advances(self, st: ast.stmt) -> bool:
        targets: list[tuple[ast.expr, ast.expr | None]] = []
        if isinstance(st, ast.Assign):
            for t in st.targets:
                if isinstance(t, ast.Tuple) and isinstance(st.value, ast.Tuple) and len(t.elts) == len(st.value.elts):
                    targets.extend(zip(t.elts, st.value.elts))
                elif isinstance(t, ast.Tuple):
                    for e in t.elts:
                        targets.append((e, None if not isinstance(st.value, ast.Call) else st.value))
                else:
                    targets.append((t, st.value))
        elif isinstance(st, ast.AnnAssign) and st.value is not None:
            targets.append((st.target, st.value))
        elif isinstance(st, ast.AugAssign):
            # offset += k : counters handled by the compare-loop form
            if isinstance(st.target, ast.Name) and st.target.id in self.bufs and isinstance(st.op, (ast.Add, ast.Sub)):
                if _min_value(st.value, self.fi, self.model, self.folder, at=st) >= 1:
                    return True
                self.notes.append('line %d: %s may change by 0' % (st.lineno, norm(st)))
            return False
        for t, v in targets:
            if not (isinstance(t, ast.Name) and t.id in self.bufs):
                continue
            if v is None:
                self.notes.append('line %d: %s rebinding not understood' % (st.lineno, norm(st)[:70]))
                continue
            if isinstance(v, ast.Subscript) and isinstance(v.slice, ast.Slice) and v.slice.lower is not None and v.slice.upper is None:
                base = dotted(v.value)
                lo = _min_value(v.slice.lower, self.fi, self.model, self.folder, at=st)
                if lo >= 1 and base in self.bufs | {t.id}:
                    return True
                self.notes.append('line %d: %s lower bound may be 0' % (st.lineno, norm(st)[:70]))
                continue
            if isinstance(v, ast.Call):
                # x, data = decoder(data): delegated consumption
                self.delegated = True
                self.notes.append('line %d: delegated to %s' % (st.lineno, norm(v.func)))
                return True
            if isinstance(v, ast.Name):
                # data = left where left came from a decoder call result in this body
                self.delegated = True
                self.notes.append('line %d: %s = %s (rest returned by a decoder)' % (st.lineno, t.id, v.id))
                return True
        return False


def _has_progress_assert(loop: ast.While, bufs: set[str]) -> bool:
    """`if left == data: raise ...` / `if len(left) >= len(data): raise`."""
    for n in walk_no_nested(loop):
        if isinstance(n, ast.If) and isinstance(n.test, ast.Compare) and always_exits(n.body, loop_exit_counts=False):
            names = {x.id for x in ast.walk(n.test) if isinstance(x, ast.Name)}
            if names & bufs and len(names) >= 2 and isinstance(n.test.ops[0], (ast.Eq, ast.GtE, ast.Is)):
                return True
    return False


# loops that the rule cannot prove and that were confirmed by reading: qualname + normalised test -> reason
LOOP_ALLOWED: dict[tuple[str, str], str] = {}


def _r2_loops(model: Model, run: Run, dec: set[str]) -> None:
    folder = Folder(model)
    n_loops = 0
    for q in sorted(dec):
        fi = model.funcs[q]
        if not fi.module.rel.startswith('exabgp/bgp/message') and not fi.module.rel.startswith('exabgp/protocol'):
            continue
        for loop in walk_no_nested(fi.node):
            if not isinstance(loop, ast.While):
                continue
            bufs = _buffer_names(loop.test)
            if not bufs:
                if isinstance(loop.test, ast.Constant):
                    # while True: must contain a break/return/raise on a consumed-input condition
                    pass
                continue
            # only loops over buffers (bytes-like) or counters tied to them
            types = {model.type_of(fi.module, n) for n in ast.walk(loop.test) if isinstance(n, ast.Name)}
            n_loops += 1
            pr = _Progress(model, fi, bufs, folder)
            done, leaves = pr.block(loop.body, False)
            key = (q, norm(loop.test))
            inst = '%s: while %s' % (short(q), norm(loop.test))
            if done or leaves:
                if pr.delegated and not _has_progress_assert(loop, bufs):
                    run.ok(inst, 'delegated to a decoder returning the rest: ' + '; '.join(pr.notes[:2]))
                else:
                    run.ok(inst, 'strict suffix on every path')
            elif key in LOOP_ALLOWED:
                run.ok(inst, 'allowed: ' + LOOP_ALLOWED[key])
            else:
                run.violation(
                    q,
                    'while %s' % norm(loop.test),
                    fi.loc(loop),
                    'a path through the loop body does not provably shorten the buffer (a wire length of zero keeps '
                    'the loop spinning): ' + '; '.join(pr.notes[:4]),
                )
    run.extra['while_loops_over_buffers'] = n_loops


# ---------------------------------------------------------------------------------------------- R4
def _r4_barriers(model: Model, run: Run) -> None:
    rm = model.func(READ_MESSAGE)
    run.analysed(rm)
    calls = model.calls_to(rm.module, rm.node, 'Message.unpack')
    if not calls:
        run.cannot('Message.unpack call vanished from read_message')
        return
    pm = parent_map(rm.node)
    call = calls[0]
    t = None
    cur: ast.AST | None = call
    while cur is not None:
        p = pm.get(id(cur))
        if isinstance(p, ast.Try) and any(x is cur for x in p.body):
            t = p
            break
        cur = p
    ok = False
    why = 'Message.unpack is not inside a try'
    if t is not None:
        why = 'no handler covering Exception re-raises Notify'
        for h in t.handlers:
            names = handler_names(h)
            if 'Exception' in names or '*' in names or 'BaseException' in names:
                raises = [r for r in walk_no_nested(h) if isinstance(r, ast.Raise) and isinstance(r.exc, ast.Call) and model.call_matches(rm.module, r.exc, 'Notify')]
                if raises and always_exits(h.body, loop_exit_counts=False):
                    ok = True
    run.check(ok, rm.qualname, 'barrier around Message.unpack', rm.loc(call), why)

    upd = model.func('exabgp.bgp.message.update.Update.unpack_message')
    run.analysed(upd)
    forced = model.calls_to(upd.module, upd.node, 'Update.parse') or model.calls_to(upd.module, upd.node, 'UpdateCollection._parse_payload')
    run.check(
        bool(forced),
        upd.qualname,
        'eager parse inside the barrier',
        upd.loc(),
        'Update.unpack_message must force the payload parse (Update.parse) so that lazy decoding cannot raise outside '
        "read_message's barrier",
    )

    prun = model.func('exabgp.reactor.peer.peer.Peer._run')
    run.analysed(prun)
    has = False
    for n in walk_no_nested(prun.node):
        if isinstance(n, ast.Try):
            for h in n.handlers:
                if 'Exception' in handler_names(h) or '*' in handler_names(h):
                    if model.calls_to(prun.module, h, 'Peer._reset'):
                        has = True
    run.check(has, prun.qualname, 'except Exception arm resets the session', prun.loc(), 'Peer._run must end in a catch-all that resets the session')


# ---------------------------------------------------------------------------------------------- R5
def _r5_unknown(model: Model, run: Run) -> None:
    parse = model.func(PARSE)
    mod = parse.module
    # transitive branch: `if flag & Attribute.Flag.TRANSITIVE:` containing GenericAttribute.make_generic and add
    trans = None
    for n in walk_no_nested(parse.node):
        if isinstance(n, ast.If) and any(isinstance(a, ast.Attribute) and a.attr == 'TRANSITIVE' for a in ast.walk(n.test)):
            trans = n
    if trans is None:
        run.cannot('transitive branch not found in parse')
        return
    gen = model.calls_to(mod, trans, 'GenericAttribute.make_generic', 'GenericAttribute')
    adds = model.calls_to(mod, trans, 'AttributeCollection.add')
    raises = [r for r in walk_no_nested(trans) if isinstance(r, ast.Raise)]
    run.check(
        bool(gen) and bool(adds) and not raises,
        parse.qualname,
        'unknown transitive attribute kept as GenericAttribute',
        parse.loc(trans),
        'the unknown-transitive branch must build a GenericAttribute, add it and not raise',
    )
    # what follows the transitive `if` in the same block is the unknown non-transitive tail
    pm = parent_map(parse.node)
    from ..flow import block_of

    b = block_of(pm, trans)
    if b is None:
        run.cannot('cannot locate the tail after the transitive branch')
        return
    lst = b[2]
    tail = lst[lst.index(trans) + 1 :]
    bad = []
    for st in tail:
        for n in walk_no_nested(st):
            if isinstance(n, ast.Raise):
                bad.append('raise')
            if isinstance(n, ast.Call) and model.call_matches(mod, n, 'AttributeCollection.add'):
                bad.append('add')
    cont = bool(tail) and (
        (isinstance(tail[-1], ast.Return) and isinstance(tail[-1].value, ast.Call) and model.call_matches(mod, tail[-1].value, 'AttributeCollection.parse'))
        or isinstance(tail[-1], ast.Continue)
        # the last statements of the loop body: falling off them is the next turn of the loop
        or (isinstance(b[0], (ast.While, ast.For)) and b[1] == 'body' and not any(isinstance(n, (ast.Break, ast.Return)) for st in tail for n in walk_no_nested(st)))
    )
    run.check(
        not bad and cont,
        parse.qualname,
        'unknown non-transitive attribute ignored',
        parse.loc(tail[0]) if tail else parse.loc(trans),
        'the unknown non-transitive tail must not raise nor add a marker and must continue the walk (found %s)' % (bad or 'no continuation'),
    )



def _lookup_guard(f: FuncInfo, sub: ast.Subscript, d: str, pm: dict) -> str | None:
    """Why the lookup `d[key]` cannot raise KeyError (None when nothing shows it)."""
    key = norm(sub.slice)
    safe_why = None
    for t_, pol in flat_guards(f.node, sub):
        nt = norm(t_).replace('(', '').replace(')', '')
        k2 = key.replace('(', '').replace(')', '')
        if (('%s in %s' % (k2, d)) in nt and pol) or (('%s not in %s' % (k2, d)) in nt and not pol) or (('%s in %s.keys' % (k2, d)) in nt and pol):
            safe_why = 'membership test'
        if isinstance(t_, ast.Compare) and len(t_.ops) == 1 and isinstance(t_.ops[0], ast.Eq) and pol and norm(t_.left) == key:
            safe_why = 'equality with a constant key'
        # `D.announced(key)`: a membership test spelt as a method (Capabilities.announced is `return capability in self`)
        if pol and isinstance(t_, ast.Call) and isinstance(t_.func, ast.Attribute) and t_.func.attr in ('announced', '__contains__', 'has_key') and dotted(t_.func.value) == d and t_.args and norm(t_.args[0]) == key:
            safe_why = 'membership test (%s)' % t_.func.attr
    p_ = pm.get(id(sub))
    while p_ is not None and p_ is not f.node and safe_why is None:
        if isinstance(p_, ast.Try) and any(set(handler_names(h)) & {'KeyError', 'Exception', '*', 'LookupError'} for h in p_.handlers) and any(sub is x for b in p_.body for x in ast.walk(b)):
            safe_why = 'KeyError handled'
        p_ = pm.get(id(p_))
    p_ = pm.get(id(sub))
    while p_ is not None and p_ is not f.node and safe_why is None:
        if isinstance(p_, (ast.For, ast.AsyncFor)) and norm(p_.target) == key and norm(p_.iter) in (d, d + '.keys()', 'list(%s)' % d, 'sorted(%s)' % d):
            safe_why = 'the key comes from iterating over the table'
        p_ = pm.get(id(p_))
    if safe_why is None:
        # the entry was created just before: D[k] = ..., D.setdefault(k, ...)
        created = any((isinstance(n, ast.Assign) and any(isinstance(t, ast.Subscript) and t is not sub and dotted(t.value) == d and norm(t.slice) == key for t in n.targets)) or (isinstance(n, ast.Call) and isinstance(n.func, ast.Attribute) and n.func.attr == 'setdefault' and dotted(n.func.value) == d and n.args and norm(n.args[0]) == key) for n in walk_no_nested(f.node) if getattr(n, 'lineno', 0) <= sub.lineno)
        if created:
            safe_why = 'entry created in this function'
    return safe_why


R10_TRIAGED = {
    ('Protocol.write', 'self.peer.stats'): 'send counters: from the receive path only NOTIFICATION is written (send-notification exists, like open / update / refresh / keepalive); an OPERATIONAL message is sent on operator request, not because of peer input',
}


# class-table lookups whose key is known to be present although no guard shows it (confirmed by reading)
R9_TRIAGED = {
    ('Attribute.unpack', 'cls.cache'): 'the per-code cache is created when the attribute class is registered; reached only when caching is on',
    ('IP.toafi', 'cls._AF_TO_AFI'): 'toaf() returns AF_INET or AF_INET6, the two keys, or raises ValueError',
}


# str parameters that end in a Notify text: every caller passes a literal (confirmed by reading)
R7_LITERAL_PARAMS = {
    ('exabgp.bgp.message.operational.Operational._check_size', 'holds'): 'callers pass literal descriptions of the field being read',
    ('exabgp.bgp.message.open.capability.capabilities.Capabilities.unpack._extended_type_length', 'name'): "called with 'parameter' / 'capability'",
    ('exabgp.bgp.message.open.capability.capabilities.Capabilities.unpack._key_values', 'name'): "called with 'parameter' / 'capability'",
    ('exabgp.bgp.message.open.capability.capability.decode_utf8', 'what'): 'callers pass the literal name of the field',
    ('exabgp.bgp.message.notification.Notify.make_notify', 'data'): 'forwarding wrapper: its call sites are checked as Notify sites',
}


R7_BYTES_TRIAGED = {
    'exabgp.bgp.message.keepalive.KeepAlive.unpack_message': 'Connection.reader refuses a KEEPALIVE whose Length is not 19 before the body reaches the decoder; the branch is reached only by programmatic callers',
}


def _strict_data_decoders(model: Model) -> list[tuple[FuncInfo, ast.Call]]:
    """`<notification>.data.decode(<codec>)` without errors= : raises UnicodeDecodeError for octets that are not text."""
    cache = model.__dict__.setdefault('_strict_data_decoders', None)
    if cache is not None:
        return cache
    out = []
    for fi in model.funcs.values():
        for c in walk_no_nested(fi.node):
            if isinstance(c, ast.Call) and isinstance(c.func, ast.Attribute) and c.func.attr == 'decode' and isinstance(c.func.value, ast.Attribute) and c.func.value.attr in ('data', 'raw_data'):
                if len(c.args) >= 2 or any(k.arg == 'errors' for k in c.keywords):
                    continue
                if any(model.is_subclass(k, 'exabgp.bgp.message.notification.Notification') for k in model.type_classes(fi.module, c.func.value.value)):
                    out.append((fi, c))
    model.__dict__['_strict_data_decoders'] = out
    return out


def _r7_bytes_data(model: Model, run: Run, fi: FuncInfo, call: ast.Call, t: ast.AST) -> None:
    """The Data field given as octets: the sender logs it with a strict .decode(), so the octets must be text (< 0x80)."""
    inst = '%s: Notify data %s' % (short(fi.qualname), norm(t)[:50])
    strict = _strict_data_decoders(model)
    if not strict:
        run.ok(inst, 'nothing decodes the Data field strictly')
        return
    folder = Folder(model)
    why = None
    b = amatch("pack('!H', E_a + E_b)", t)
    if b is not None:
        ea, eb = (ast.parse(str(b[x]), mode='eval').body for x in ('E_a', 'E_b'))
        ka, kb = folder.fold(ea, fi.module, fi.cls), folder.fold(eb, fi.module, fi.cls)
        k, nexpr = (ka, eb) if isinstance(ka, int) else ((kb, ea) if isinstance(kb, int) else (None, None))
        if k is not None:
            nname = norm(nexpr)
            loc = Loc(model, fi)
            for g, pol in flat_guards(fi.node, call):
                if not (isinstance(g, ast.Compare) and len(g.ops) == 1):
                    continue
                left = loc.expand(g.left)
                if left != nname and left != loc.expand(nexpr):
                    continue
                m = folder.fold(g.comparators[0], fi.module, fi.cls)
                if not isinstance(m, int):
                    continue
                op = g.ops[0]
                top = None
                if isinstance(op, ast.Lt) and pol:
                    top = m - 1
                elif isinstance(op, ast.LtE) and pol:
                    top = m
                elif isinstance(op, ast.GtE) and not pol:
                    top = m - 1
                elif isinstance(op, ast.Gt) and not pol:
                    top = m
                if top is not None and 0 <= k + top < 0x80:
                    why = 'two octets of a length that is at most %d: both below 0x80' % (k + top)
    if why is None and fi.qualname in R7_BYTES_TRIAGED:
        why = 'triaged: ' + R7_BYTES_TRIAGED[fi.qualname]
    if why is not None:
        run.ok(inst, why)
    else:
        sf, sc = strict[0]
        run.violation(
            fi.qualname,
            'octets the peer chose in the Notify data: %s' % norm(t)[:70],
            fi.loc(call),
            'the Data field is handed over as raw octets whose value is not bounded below 0x80, and %s logs what it sent with '
            '`%s` (strict): an octet >= 0x80 raises UnicodeDecodeError out of the except-Notify arm of Peer._run right after the '
            'NOTIFICATION was written, the session is never reset and the reactor drops the peer' % (short(sf.qualname), norm(sc)[:60]),
        )


def _r7_notify_text(model: Model, run: Run) -> None:
    from ..strsafe import Safe, Taint, interpolations
    from .C13 import CLOSED

    taint = Taint(model)
    safe = Safe(model, taint, {'hex', 'ascii', 'repr', 'hexstring'}, CLOSED, {'time'}, set())
    safe.follow_overrides = True
    safe.checked_text_classes = {'exabgp.reactor.network.error.NotifyError', 'exabgp.bgp.message.notification.Notify'}
    # a received UPDATE is an Update (wire container) or an EOR: UpdateCollection is what the encoder and the lazy parse
    # build, Message.unpack never returns one
    safe.never_instances = {'exabgp.bgp.message.update.collection.UpdateCollection'}
    n = 0
    for fi in sorted(model.funcs.values(), key=lambda f: f.qualname):
        sl = None
        for c in walk_no_nested(fi.node):
            if not (isinstance(c, ast.Call) and model.call_matches(fi.module, c, 'Notify', 'NotifyError', 'Notify.make_notify') and len(c.args) >= 3):
                continue
            t = c.args[2]
            if isinstance(t, ast.Constant):
                continue
            n += 1
            if model.type_of(fi.module, t).split('[')[0] in ('builtins.bytes', 'builtins.bytearray', 'builtins.memoryview'):
                _r7_bytes_data(model, run, fi, c, t)
                continue
            sl = sl or Slicer(model, fi)
            parts = [v for _, v in interpolations(t)] or [t]
            why = None
            for v in parts:
                # a list of hex() strings rendered with str() is ASCII
                if isinstance(v, ast.Call) and dotted(v.func) == 'str' and v.args and isinstance(v.args[0], ast.ListComp) and isinstance(v.args[0].elt, ast.Call) and dotted(v.args[0].elt.func) == 'hex':
                    continue
                tv = model.type_of(fi.module, v)
                if not isinstance(v, ast.Call) and any(c_ in model.classes for c_ in model.type_classes(fi.module, v)) and not safe.closed_type(tv):
                    # an object formatted into the text: what its __str__ gives
                    v = ast.copy_location(ast.Call(func=ast.Name(id='str', ctx=ast.Load()), args=[v], keywords=[]), v)
                w = safe.why_tainted(v, fi, sl)
                if w and w.startswith('parameter '):
                    pname = w.split()[1]
                    if (fi.qualname, pname) in R7_LITERAL_PARAMS:
                        continue
                if w:
                    why = w
                    break
            inst = '%s: Notify text %s' % (short(fi.qualname), norm(t)[:50])
            if why is None:
                run.ok(inst)
            else:
                run.violation(fi.qualname, 'peer text in the Notify explanation: %s' % norm(t)[:70], fi.loc(c), "a string the peer chose can reach bytes(data, 'ascii') in Notify.__init__ (%s): one non-ASCII character raises UnicodeEncodeError instead of the NOTIFICATION" % why)
    if n < 100:
        run.cannot('only %d Notify sites with a computed text found' % n)


# ---------------------------------------------------------------------------------------------- R10 / R11
MESSAGE_BASE = 'exabgp.bgp.message.message.Message'


def _reader_functions(model: Model, cg: CallGraph, dec: set[str]) -> tuple[set[str], set[str]]:
    """(F, F1): the functions that call Message.unpack from outside the decoders plus their direct callers;
    F1 adds what they hand a Message to."""
    f0 = {q for q, v in cg.edges.items() if MESSAGE_UNPACK in v and q not in dec and q in model.funcs}
    f = f0 | {q for q, v in cg.edges.items() if v & f0 and q in model.funcs}
    # ... and who calls those (Peer._establish / _read_open: the OPEN goes on to the negotiation from there)
    for _ in range(4):
        f |= {q for q, v in cg.edges.items() if v & f and q in model.funcs and (q.startswith('exabgp.reactor.peer.peer.') or q.startswith('exabgp.reactor.protocol.'))}
    f1 = set(f)

    def handed_on(qs) -> set[str]:  # noqa: ANN001
        out: set[str] = set()
        for q in qs:
            fi = model.funcs[q]
            for c in walk_no_nested(fi.node):
                if isinstance(c, ast.Call):
                    for a in c.args:
                        t = model.type_of(fi.module, a)
                        if t.endswith('message.Message') or t.endswith('message.Message | None') or any(k in model.classes and model.is_subclass(k, 'exabgp.bgp.message.message.Message') for k in model.type_classes(fi.module, a)):
                            out |= {t2 for t2 in model.callees_cha(fi.module, c) if t2 in model.funcs and t2.startswith('exabgp.')}
        return out

    f1 |= handed_on(f)
    # what a function that was handed the message calls on its own object (Negotiated.received -> _negotiate), and what
    # those hand the message on to (RequirePath.setup(received_open, sent_open)), not into the decoders
    for _ in range(2):
        new = set()
        for q in list(f1 - f):
            fi = model.funcs[q]
            if fi.cls is None:
                continue
            for c in walk_no_nested(fi.node):
                if isinstance(c, ast.Call) and isinstance(c.func, ast.Attribute) and dotted(c.func.value) == 'self':
                    new |= {t for t in model.callees_cha(fi.module, c) if t in model.funcs and t.rsplit('.', 1)[0] == q.rsplit('.', 1)[0]}
        new |= {t for t in handed_on(f1 - f) if t not in dec}
        if new <= f1:
            break
        f1 |= new
    return f, f1


def _resolve_cls(model: Model, mod, name: str) -> str | None:
    if not name:
        return None
    if name in mod.classes:
        return mod.classes[name].qualname
    head = name.split('.')[0]
    full = mod.imports.get(head)
    if full is not None:
        full = full + name[len(head):]
        if full in model.classes:
            return full
    last = name.rsplit('.', 1)[-1]
    cands = [q for q in model.classes if q.endswith('.' + last) and model.is_subclass(q, MESSAGE_BASE)]
    return cands[0] if len(cands) == 1 else None


def _key_from_constant_arguments(model: Model, cg: CallGraph, f: FuncInfo, key: ast.AST) -> str | None:
    """the key reads nothing but parameters of the function, and every call of the function in the program passes literals
    for them ('send' / 'receive'): it is one of a few constant keys, not something computed from the peer's message"""
    params = [a.arg for a in f.node.args.posonlyargs + f.node.args.args]
    names = {n.id for n in ast.walk(key) if isinstance(n, ast.Name)}
    if not names or not names <= set(params) or names & {'self', 'cls'}:
        return None
    offset = 1 if f.cls is not None and params and params[0] in ('self', 'cls') else 0
    sites = 0
    for cq, outs in cg.edges.items():
        if f.qualname not in outs or cq not in model.funcs:
            continue
        cf = model.funcs[cq]
        for c in walk_no_nested(cf.node):
            if not (isinstance(c, ast.Call) and f.qualname in model.callees_cha(cf.module, c)):
                continue
            for nm in names:
                i = params.index(nm) - offset
                arg = c.args[i] if 0 <= i < len(c.args) else next((k.value for k in c.keywords if k.arg == nm), None)
                if not isinstance(arg, ast.Constant):
                    return None
            sites += 1
    return 'the key is built from %s, a literal at each of the %d call sites' % (sorted(names), sites) if sites else None


def _dict_by_default(model: Model, f: FuncInfo, e: ast.AST) -> bool:
    """an untyped local bound once to `<mapping>.get(key, <default>)` whose default is a dict (a literal, dict(), an
    instance of a dict subclass): whatever the mapping holds under that key is used as a dict"""
    if not isinstance(e, ast.Name):
        return False
    v = Loc(model, f).single(e.id)
    if not (isinstance(v, ast.Call) and isinstance(v.func, ast.Attribute) and v.func.attr == 'get' and len(v.args) == 2):
        return False
    d = v.args[1]
    if isinstance(d, ast.Dict):
        return True
    if isinstance(d, ast.Call) and isinstance(d.func, ast.Name):
        if d.func.id == 'dict':
            return True
        for n in ast.walk(f.node):
            if isinstance(n, ast.ClassDef) and n.name == d.func.id and any('dict' in norm(b).lower() for b in n.bases):
                return True
        ci = f.module.classes.get(d.func.id)
        return bool(ci and 'builtins.dict' in ci.mro)
    return False


def _is_dict_type(model: Model, ty: str) -> bool:
    base = ty.split('[')[0]
    if base in ('builtins.dict', 'typing.Dict', 'collections.OrderedDict'):
        return True
    ci = model.classes.get(base)
    return bool(ci and 'builtins.dict' in ci.mro)


def _class_defines(model: Model, qn: str, attr: str) -> bool:
    ci = model.classes.get(qn)
    if ci is None:
        return True  # outside the repository: unknown, assume present
    for b in ci.mro:
        bi = model.classes.get(b)
        if bi is None:
            continue
        if attr in bi.methods or attr in bi.assigns:
            return True
        for st in bi.node.body:
            if isinstance(st, ast.AnnAssign) and isinstance(st.target, ast.Name) and st.target.id == attr:
                return True
        for m in bi.methods.values():
            for n in ast.walk(m.node):
                if isinstance(n, ast.Attribute) and isinstance(n.ctx, ast.Store) and n.attr == attr and isinstance(n.value, ast.Name) and n.value.id == 'self':
                    return True
    return False


def _const_class_flag(model: Model, qn: str, attr: str):
    ci = model.classes.get(qn)
    if ci is None:
        return None
    for b in ci.mro:
        bi = model.classes.get(b)
        if bi is None:
            continue
        for st in bi.node.body:
            v = None
            if isinstance(st, ast.AnnAssign) and isinstance(st.target, ast.Name) and st.target.id == attr:
                v = st.value
            elif isinstance(st, ast.Assign) and any(isinstance(t, ast.Name) and t.id == attr for t in st.targets):
                v = st.value
            elif isinstance(st, (ast.FunctionDef, ast.AsyncFunctionDef)) and st.name == attr:
                return None
            else:
                continue
            return v.value if isinstance(v, ast.Constant) and isinstance(v.value, bool) else None
    return None


def _excluded_by(model: Model, fi: FuncInfo, guards: list[tuple[ast.expr, bool]], names: set[str], group: list[str], depth: int = 0) -> set[str]:
    """Classes of `group` that cannot be the value of one of `names` given the guards."""
    out: set[str] = set()
    for t_, pol in guards:
        if isinstance(t_, ast.Call) and isinstance(t_.func, ast.Name) and t_.func.id == 'isinstance' and len(t_.args) == 2 and norm(t_.args[0]) in names:
            ks = t_.args[1].elts if isinstance(t_.args[1], ast.Tuple) else [t_.args[1]]
            qs = [_resolve_cls(model, fi.module, dotted(k) or '') for k in ks]
            if any(q is None for q in qs):
                continue
            for g in group:
                inside = any(model.is_subclass(g, q) for q in qs)
                if (pol and not inside) or (not pol and inside):
                    out.add(g)
            continue
        flag = None
        if isinstance(t_, ast.Attribute) and norm(t_.value) in names:
            flag = t_.attr
        elif isinstance(t_, ast.Call) and isinstance(t_.func, ast.Name) and t_.func.id == 'getattr' and len(t_.args) >= 2 and norm(t_.args[0]) in names and isinstance(t_.args[1], ast.Constant):
            flag = t_.args[1].value
        if flag is not None:
            for g in group:
                v = _const_class_flag(model, g, flag)
                if v is not None and v != pol:
                    out.add(g)
            continue
        # a predicate helper whose body is `return <expr over its parameter>`
        if isinstance(t_, ast.Call) and depth < 2 and any(norm(a) in names for a in t_.args):
            for tq in model.callees_cha(fi.module, t_):
                tf = model.funcs.get(tq)
                if tf is None:
                    continue
                body = [x for x in tf.node.body if not (isinstance(x, ast.Expr) and isinstance(x.value, ast.Constant))]
                if len(body) != 1 or not isinstance(body[0], ast.Return) or body[0].value is None:
                    continue
                params = [a.arg for a in tf.node.args.args if a.arg not in ('self', 'cls')]
                pn = {params[i] for i, a in enumerate(t_.args) if i < len(params) and norm(a) in names}
                from ..flow import conjuncts

                sub = _excluded_by(model, tf, conjuncts(body[0].value, pol), pn, group, depth + 1)
                out |= sub
    return out


def _r10_r11_readers(model: Model, run: Run, cg: CallGraph, dec: set[str]) -> None:
    readers, handed = _reader_functions(model, cg, dec)
    run.rule(
        'C03.R10',
        'outside the decoding barrier (Protocol.read_message, its callers, and what they hand the message to) a dict indexed '
        'with a computed key is read under a membership test, a KeyError handler, an iteration over its own keys, or a '
        'registry that covers every acceptable message type: a KeyError there ends the session without any NOTIFICATION',
        floor=2,
    )
    if not any(q.endswith('.read_message') for q in readers) and len(readers) < 3:
        run.cannot('reader functions not found (%s)' % sorted(readers))
    run.extra['reader_functions'] = sorted(short(q) for q in handed)
    n10 = 0
    for q in sorted(handed):
        f = model.funcs[q]
        run.analysed(f)
        pm = parent_map(f.node)
        for sub in walk_no_nested(f.node):
            if not (isinstance(sub, ast.Subscript) and not isinstance(sub.slice, (ast.Slice, ast.Constant))):
                continue
            par = pm.get(id(sub))
            reads = isinstance(sub.ctx, ast.Load) or (isinstance(par, ast.AugAssign) and par.target is sub)
            if not reads:
                continue
            if not (_is_dict_type(model, model.type_of(f.module, sub.value)) or _dict_by_default(model, f, sub.value)):
                continue
            n10 += 1
            d = dotted(sub.value) or norm(sub.value)
            why = _lookup_guard(f, sub, d, pm)
            if why is None:
                why = _registry_covers(model, f, sub)
            if why is None:
                why = _key_from_constant_arguments(model, cg, f, sub.slice)
            if why is None and (short(q), d) in R10_TRIAGED:
                why = 'triaged: ' + R10_TRIAGED[(short(q), d)]
            inst = '%s: %s' % (short(q), norm(sub)[:50])
            if why is not None:
                run.ok(inst, why)
            else:
                run.violation(
                    q,
                    'unguarded lookup %s' % norm(sub)[:60],
                    f.loc(sub),
                    'the key is computed from what the peer sent (message type, family) and nothing shows it is a key of %s: the '
                    'KeyError is raised outside the try around Message.unpack, so Peer._run ends in its unhandled-exception arm '
                    'and the session is dropped without a NOTIFICATION' % d,
                    [],
                )
    if n10 < 2:
        run.cannot('only %d computed-key dict reads found in the reader functions' % n10)

    run.rule(
        'C03.R11',
        'message classes that share a TYPE are indistinguishable to a TYPE test: where a reader function casts a message to one '
        'of them, every attribute it then reads exists on all the classes with that TYPE, or an isinstance / IS_EOR guard (in '
        'the function, or at every call site) excludes the ones that lack it - otherwise a valid message (End-of-RIB) raises '
        'AttributeError outside the decoding barrier',
        floor=1,
    )
    groups: dict[str, list[str]] = {}
    for qn, ci in model.classes.items():
        if not model.is_subclass(qn, MESSAGE_BASE) or qn == MESSAGE_BASE:
            continue
        for st in ci.node.body:
            if isinstance(st, ast.Assign) and any(isinstance(t, ast.Name) and t.id == 'TYPE' for t in st.targets):
                groups.setdefault(norm(st.value), []).append(qn)
    shared = {k: sorted(v) for k, v in groups.items() if len(v) > 1}
    run.extra['type_sharing_classes'] = {k: [short(x) for x in v] for k, v in shared.items()}
    if not any(any(x.endswith('.EOR') for x in v) for v in shared.values()):
        run.cannot('EOR/Update TYPE group not found (%s)' % shared)
    n11 = 0
    for q in sorted(handed):
        f = model.funcs[q]
        pm = parent_map(f.node)
        for c in walk_no_nested(f.node):
            if not (isinstance(c, ast.Call) and isinstance(c.func, ast.Name) and c.func.id == 'cast' and len(c.args) == 2):
                continue
            kq = _resolve_cls(model, f.module, dotted(c.args[0]) or '')
            group = next((v for v in shared.values() if kq in v), None)
            if group is None:
                continue
            src = norm(c.args[1])
            par = pm.get(id(c))
            names = {src}
            reads: list[ast.Attribute] = []
            if isinstance(par, ast.Attribute):
                reads.append(par)
            elif isinstance(par, (ast.Assign, ast.AnnAssign)):
                tg = par.targets[0] if isinstance(par, ast.Assign) else par.target
                if isinstance(tg, ast.Name):
                    names.add(tg.id)
                    reads = [n for n in walk_no_nested(f.node) if isinstance(n, ast.Attribute) and isinstance(n.ctx, ast.Load) and isinstance(n.value, ast.Name) and n.value.id == tg.id]
            for r in reads:
                lacking = {g for g in group if g != kq and not model.is_subclass(g, kq) and not _class_defines(model, g, r.attr)}
                n11 += 1
                inst = '%s: %s after cast(%s)' % (short(q), norm(r), norm(c.args[0]))
                if not lacking:
                    run.ok(inst, 'defined by every class of TYPE %s' % [short(g) for g in group])
                    continue
                gs11 = []
                l11 = Loc(model, f)
                for t11, pol11 in flat_guards(f.node, r, pm) + flat_guards(f.node, c, pm):
                    # a test hoisted into a local bound once (`is_update = isinstance(message, Update)`) is that test
                    v11 = l11.single(t11.id) if isinstance(t11, ast.Name) else None
                    gs11.extend(conjuncts(v11, pol11) if isinstance(v11, ast.expr) else [(t11, pol11)])
                ex = _excluded_by(model, f, gs11, names, group)
                left = lacking - ex
                if left and src in {a.arg for a in f.node.args.args}:
                    # every call site from a reader function excludes them
                    idx = [a.arg for a in f.node.args.args if a.arg not in ('self', 'cls')].index(src)
                    site_ex: set[str] | None = None
                    for cq in sorted(handed):
                        cf = model.funcs[cq]
                        cpm = None
                        for cc in walk_no_nested(cf.node):
                            if isinstance(cc, ast.Call) and q in model.callees_cha(cf.module, cc) and idx < len(cc.args):
                                cpm = cpm or parent_map(cf.node)
                                e2 = _excluded_by(model, cf, flat_guards(cf.node, cc, cpm), {norm(cc.args[idx])}, group)
                                site_ex = e2 if site_ex is None else (site_ex & e2)
                    if site_ex:
                        left -= site_ex
                if not left:
                    run.ok(inst, 'guards exclude %s' % sorted(short(g) for g in lacking))
                else:
                    run.violation(
                        q,
                        '%s read after cast(%s, %s); %s has no such attribute' % (r.attr, norm(c.args[0]), src, ', '.join(sorted(short(g) for g in left))),
                        f.loc(r),
                        'the function is reached for every message whose TYPE is %s; %s share that TYPE and do not define `%s`, so '
                        'a valid message of that class raises AttributeError outside the decoding barrier: the session is dropped '
                        'without a NOTIFICATION' % (next(k for k, v in shared.items() if v is group), ', '.join(sorted(short(g) for g in left)), r.attr),
                        [],
                    )
    if n11 < 1:
        run.cannot('only %d attribute reads after a cast to a TYPE-sharing message class' % n11)


def _registry_covers(model: Model, f: FuncInfo, sub: ast.Subscript) -> str | None:
    """`self.T[message_id]` where T is filled by a class-level decorator @reg(Message.CODE.X): every wire-acceptable message
    type (Message.CODE.MESSAGES minus the internal NOP) has an entry."""
    d = dotted(sub.value) or ''
    if not d.startswith('self.') or d.count('.') != 1 or f.cls is None:
        return None
    ci = model.classes.get(f.cls) if isinstance(f.cls, str) else f.cls
    if ci is None:
        return None
    registered: set[str] = set()
    for m in ci.methods.values():
        for dec in m.node.decorator_list:
            if isinstance(dec, ast.Call) and len(dec.args) == 1:
                a = dotted(dec.args[0]) or ''
                if '.CODE.' in a:
                    registered.add(a.rsplit('.', 1)[1])
    if not registered:
        return None
    code = model.classes.get(MESSAGE_BASE + '.CODE')
    wanted: set[str] = set()
    if code is not None and 'MESSAGES' in code.assigns and isinstance(code.assigns['MESSAGES'], ast.List):
        wanted = {e.id for e in code.assigns['MESSAGES'].elts if isinstance(e, ast.Name)} - {'NOP'}
    else:
        for st in (code.node.body if code else []):
            if isinstance(st, ast.AnnAssign) and isinstance(st.target, ast.Name) and st.target.id == 'MESSAGES' and isinstance(st.value, ast.List):
                wanted = {e.id for e in st.value.elts if isinstance(e, ast.Name)} - {'NOP'}
    if wanted and wanted <= registered:
        return 'registry covers every wire message type %s' % sorted(wanted)
    return None


def _r13_nexthop_lengths(model: Model, run: Run, folder: Folder) -> None:
    from ..evalfn import Raised, Undecided, eval_function

    fi = model.func('exabgp.bgp.message.update.attribute.mprnlri.MPRNLRI.unpack_attribute')
    run.analysed(fi)
    fam = model.cls('exabgp.protocol.family.Family')
    table = folder.class_attr(fam.qualname, 'size')
    if not isinstance(table, dict) or len(table) < 20:
        run.cannot('Family.size could not be folded into a table')
        return
    # the stage starts where the sizes of the family are looked up and ends with the membership test of the length
    start = None
    for i, st in enumerate(fi.node.body):
        if isinstance(st, ast.Assign) and isinstance(st.targets[0], ast.Tuple) and 'Family.size[' in norm(st.value):
            start = i
            break
    if start is None:
        run.cannot('the lookup of Family.size[(afi, safi)] was not found in MPRNLRI.unpack_attribute')
        return
    tg = fi.node.body[start].targets[0]
    lname = tg.elts[0].id if isinstance(tg.elts[0], ast.Name) else '?'
    key = fi.node.body[start].value.slice
    names = [e.id for e in key.elts] if isinstance(key, ast.Tuple) and all(isinstance(e, ast.Name) for e in key.elts) else []
    member = None
    for j, st in enumerate(fi.node.body[start:], start):
        if isinstance(st, ast.If) and isinstance(st.test, ast.Compare) and isinstance(st.test.ops[0], ast.NotIn) and norm(st.test.comparators[0]) == lname and isinstance(st.test.left, ast.Name):
            member = j
            nh = st.test.left.id
    if member is None or len(names) != 2:
        run.cannot('the test `<next-hop length> not in <sizes of the family>` was not found after the lookup')
        return
    stage = fi.node.body[start : member + 1]
    neg = fi.node.args.args[-1].arg
    for (afi, safi), (sizes, _rd) in sorted(table.items()):
        for size in sizes:
            for label, ext in (('no extended next hop', []), ('extended next hop negotiated', [(1, 1, 2)])):
                r = eval_function(folder, fi, {names[0]: afi, names[1]: safi, nh: size, neg: {'nexthop': ext}}, body=stage, outcomes=True)
                if isinstance(r, Undecided):
                    run.cannot('%s: family %s/%s length %s (%s): statement at line %s not evaluated' % (short(fi.qualname), afi, safi, size, label, getattr(r.at, 'lineno', '?')))
                    continue
                run.check(not isinstance(r, Raised), fi.qualname, 'afi %s safi %s next-hop length %s, %s: %s' % (afi, safi, size, label, 'refused' if isinstance(r, Raised) else 'accepted'), fi.loc(r.stmt) if isinstance(r, Raised) else fi.loc(stage[0]), 'Family.size lists this next-hop length for the family (flowspec carries none, RFC 8955), so an UPDATE using it is valid; it is refused %s' % ('only because some other family negotiated an RFC 8950 next hop on the session' if ext else ''))
