"""C11 — after any session loss the peer is fully resynchronised.  DESIGN.md 3/C11."""

from __future__ import annotations

import ast

from ..alpha import Loc, afind, amatch
from ..cfg import CFG
from ..const import Folder
from ..flow import Slicer, block_of, flat_guards, parent_map
from ..model import Model, dotted, norm, walk_no_nested
from ..report import Run
from .C05 import _calls_in_stmt
from .common import prev_minus_new, short

PEER = 'exabgp.reactor.peer.peer.Peer'
RIB = 'exabgp.rib.outgoing.OutgoingRIB'
PROTO = 'exabgp.reactor.protocol.Protocol'


def check(model: Model, run: Run) -> None:
    folder = Folder(model)
    mainf = model.func(PEER + '._main')
    run.analysed(mainf)
    mod = mainf.module

    # ------------------------------------------------------------------ R1
    run.rule('C11.R1', 'every path from the entry of Peer._main to the first _send_route_updates passes OutgoingRIB.replace_restart(previous, current), called unconditionally with the neighbor route lists', floor=1)
    cfg = CFG(mainf.node)
    rr = model.calls_to(mod, mainf.node, 'OutgoingRIB.replace_restart')
    sends = model.calls_to(mod, mainf.node, 'Peer._send_route_updates')
    ok = False
    if rr and sends:
        a = cfg.stmt_node_containing(rr[0])
        b = cfg.stmt_node_containing(sends[0])
        ok = a is not None and b is not None and cfg.dominates(a, b) and any(st is a.ast for st in mainf.node.body)
    run.check(ok, mainf.qualname, 'replace_restart dominates the first _send_route_updates', mainf.loc(rr[0]) if rr else mainf.loc(), 'after (re-)establishment the complete Adj-RIB-Out must be queued before anything is sent')
    okargs = False
    if rr and len(rr[0].args) == 2:
        ml0 = Loc(model, mainf)

        def texts(a: ast.AST) -> list[str]:
            vs = ml0.values(a.id) if isinstance(a, ast.Name) else []
            return [ml0.expand(v) for v in vs] or [ml0.expand(a)]

        okargs = any('self.neighbor.previous.routes' in x for x in texts(rr[0].args[0])) and any(x == 'self.neighbor.routes' for x in texts(rr[0].args[1]))
    run.check(okargs, mainf.qualname, 'replace_restart(previous configured routes, current configured routes)', mainf.loc(rr[0]) if rr else mainf.loc(), 'the delta of configured routes is previous -> current')

    # the delta previous -> current is applied ONCE: the link to the previous configuration is cut after replace_restart has
    # used it, on every path to the first _send_route_updates; kept, the same delta is re-applied at every later session and
    # withdraws again what the reload removed - also when the API has announced that prefix since
    if rr:
        mloc = Loc(model, mainf)
        cuts = [n for n in walk_no_nested(mainf.node) if isinstance(n, ast.Assign) and isinstance(n.targets[0], ast.Attribute) and n.targets[0].attr == 'previous' and mloc.expand(n.targets[0].value) == 'self.neighbor' and isinstance(n.value, ast.Constant) and n.value.value is None]
        first_send = model.calls_to(mainf.module, mainf.node, 'Peer._send_route_updates')
        okcut = False
        if cuts and first_send:
            tg = {x.id for c_ in cuts for x in cfg.nodes_of(c_)}
            stop = cfg.stmt_node_containing(sorted(first_send, key=lambda c_: c_.lineno)[0])
            if stop is not None:
                okcut, _p = cfg.all_paths_pass(cfg.entry.id, tg, {stop.id}, skip_labels=('exc',))
        run.check(okcut, mainf.qualname, 'self.neighbor.previous is cleared once replace_restart has applied the reload delta', mainf.loc(rr[0]), 'the previous configuration stays linked: every later session withdraws the routes the reload removed once more, API routes for those prefixes included (they are removed from the Adj-RIB-Out cache and never re-advertised)')

    # ------------------------------------------------------------------ R2
    run.rule('C11.R2', 'replace_restart re-queues EVERY cached route of the negotiated families with force=True (bypassing the dedup cache), withdraws previous-minus-new, and queues nothing else (a route that left the cache is not resurrected)', floor=2)
    f = model.func(RIB + '.replace_restart')
    run.analysed(f)
    adds = model.calls_to(f.module, f.node, 'OutgoingRIB.add_to_rib')
    dels = model.calls_to(f.module, f.node, 'OutgoingRIB.del_from_rib')
    pm = parent_map(f.node)
    forced = []
    for c in adds:
        force = None
        if len(c.args) >= 2:
            force = folder.fold(c.args[1], f.module)
        for k in c.keywords:
            if k.arg == 'force':
                force = folder.fold(k.value, f.module)
        loop = pm.get(id(c))
        while loop is not None and not isinstance(loop, ast.For):
            loop = pm.get(id(loop))
        src = norm(loop.iter) if loop is not None else ''
        forced.append((force, src, c))
    good = [x for x in forced if x[0] is True and x[1] == 'self.cached_routes(list(self.families))' and dotted(x[2].args[0]) == (dotted(pm_loop_target(pm, x[2])) or '?')]
    run.check(len(good) == 1, f.qualname, 'for route in self.cached_routes(list(self.families)): add_to_rib(route, True)', f.loc(adds[0]) if adds else f.loc(), 'every cached route must be re-queued with force=True, otherwise in_cache() deduplicates it away and nothing is re-advertised')
    extra = [x for x in forced if x not in good]
    run.check(not extra, f.qualname, 'no other announcement queued by replace_restart (%d extra)' % len(extra), f.loc(extra[0][2]) if extra else f.loc(), 'queueing anything else than the cached routes (%s) re-advertises routes that were withdrawn while the session was down' % '; '.join('%s over %s force=%s' % (norm(x[2])[:40], x[1][:40], x[0]) for x in extra))
    # withdraw previous - new
    pmn = prev_minus_new(model, f)
    okw = pmn['filled'] and pmn['pruned'] and len(dels) == 1 and pmn['withdrawn'] == dels and all(flat_guards(f.node, d) in ([], [(t, p) for t, p in flat_guards(f.node, d) if dotted(t) == 'self.enabled']) for d in dels)
    run.check(okw, f.qualname, 'del_from_rib for previous minus new', f.loc(dels[0]) if dels else f.loc(), 'configured routes that disappeared are withdrawn')
    g = [c for c in adds + dels if any(not (dotted(t) == 'self.enabled') for t, pol in flat_guards(f.node, c) if not isinstance(t, ast.Name))]
    # order: the cached routes are re-queued in a loop at function level
    top_loops = [st for st in f.node.body if isinstance(st, ast.For)]
    run.check(any(norm(l.iter) == 'self.cached_routes(list(self.families))' for l in top_loops), f.qualname, 're-queue loop is unconditional', f.loc(), 'the re-queue must not depend on a condition')

    # ------------------------------------------------------------------ R3
    run.rule('C11.R3', 'Peer._reset reaches Neighbor.reset_rib on every restart path; reset_rib resets the RIB; OutgoingRIB.reset drains the pending queues by consuming updates()', floor=3)
    rs = model.func(PEER + '._reset')
    run.analysed(rs)
    calls = model.calls_to(rs.module, rs.node, 'Neighbor.reset_rib')
    okr = False
    if calls:
        g = flat_guards(rs.node, calls[0])
        rsl = Loc(model, rs)
        # only the early "no restart" return may precede it
        okr = all(('_restart' in rsl.expand(t) or 'ephemeral' in rsl.expand(t)) for t, pol in g) and any(st.value is calls[0] for st in rs.node.body if isinstance(st, ast.Expr))
    run.check(okr, rs.qualname, 'neighbor.reset_rib() on every restarting path', rs.loc(calls[0]) if calls else rs.loc(), 'the queues of the lost session must be dropped before the next one')
    nr = model.func('exabgp.bgp.neighbor.neighbor.Neighbor.reset_rib')
    run.check('self.rib.reset()' in norm(nr.node), nr.qualname, 'calls self.rib.reset()', nr.loc(), 'reset_rib must reset the RIB')
    rr_ = model.func('exabgp.rib.RIB.reset')
    run.check('self.outgoing.reset()' in norm(rr_.node), rr_.qualname, 'resets the outgoing RIB', rr_.loc(), 'RIB.reset must reach the outgoing RIB')
    orr = model.func(RIB + '.reset')
    run.analysed(orr)
    drains = [n for n in walk_no_nested(orr.node) if isinstance(n, ast.For) and model.calls_to(orr.module, n.iter, 'OutgoingRIB.updates')]
    t2 = norm(orr.node)
    run.check(bool(drains) and 'self._refresh_families = set()' in t2 and 'self._refresh_routes = []' in t2 and 'clear_cache' not in t2 and '_seen' not in t2, orr.qualname, 'drains updates() and the refresh queues, keeps the cache', orr.loc(), 'reset drops what was pending but must keep the Adj-RIB-Out cache (it is what gets re-advertised)')

    # ------------------------------------------------------------------ R4
    run.rule('C11.R4', 'End-of-RIB goes out only once the update generator is exhausted (new_routes is None) and send_eor is still true; send_eor starts as `not manual_eor` and is cleared when sent; new_eors walks negotiated.families', floor=3)
    se = model.func(PEER + '._send_eor_messages')
    run.analysed(se)
    eors = model.calls_to(se.module, se.node, 'Protocol.new_eors')
    auto = [c for c in eors if not c.args]
    okg = False
    sep = [a.arg for a in se.node.args.args]
    flag_p, gen_p = (sep[1], sep[2]) if len(sep) >= 3 else ('?', '?')
    if len(auto) == 1:
        g = [(norm(t), pol) for t, pol in flat_guards(se.node, auto[0])]
        okg = sorted(g) == sorted([(gen_p, False), (flag_p, True)])
    run.check(okg, se.qualname, 'automatic EOR under (not new_routes and send_eor)', se.loc(auto[0]) if auto else se.loc(), 'the End-of-RIB marker must follow the last UPDATE of the initial batch: new_routes (the live generator) must be exhausted; RIB.pending() is already false while the generator still holds the batch')
    # on the path that sends the automatic EOR the flag handed back is False (assigned, or returned directly)
    cleared = False
    if auto:
        blk = block_of(parent_map(se.node), parent_map(se.node).get(id(auto[0])) if not isinstance(parent_map(se.node).get(id(auto[0])), ast.Await) else parent_map(se.node).get(id(parent_map(se.node).get(id(auto[0])))))
        sts = blk[2] if blk is not None else []
        for st_ in sts:
            if isinstance(st_, ast.Assign) and dotted(st_.targets[0]) == flag_p and folder.fold(st_.value, se.module) is False:
                cleared = True
            if isinstance(st_, ast.Return) and st_.value is not None and folder.fold(st_.value, se.module) is False:
                cleared = True
    run.check(cleared, se.qualname, 'send_eor cleared when the EOR is sent', se.loc(), 'exactly one automatic EOR batch per session')
    ml = Loc(model, mainf)
    flags = ml.from_value(lambda v: norm(v) == 'not self.neighbor.manual_eor')
    thread = [b for n, b in afind('V_e = await self._send_eor_messages(V_e, V_g)', mainf.node) if b['V_e'] in flags]
    gen_v = thread[0]['V_g'] if thread else None
    run.check(len(flags) == 1 and len(thread) == 1, mainf.qualname, 'send_eor = not manual_eor, then threaded through _send_eor_messages(send_eor, new_routes)', mainf.loc(), 'the EOR state must survive loop iterations')
    # new_routes is set to None only on exhaustion
    sru = model.func(PEER + '._send_route_updates')
    srp = sru.node.args.args[1].arg if len(sru.node.args.args) > 1 else '?'
    nn = [n for n in walk_no_nested(sru.node) if isinstance(n, ast.Assign) and dotted(n.targets[0]) == srp and isinstance(n.value, ast.Constant) and n.value.value is None]
    okn = len(nn) == 1
    if okn:
        p = pm_handler(parent_map(sru.node), nn[0])
        okn = p is not None and 'StopAsyncIteration' in norm(p.type)
    run.check(okn, sru.qualname, 'new_routes = None only in the StopAsyncIteration arm', sru.loc(nn[0]) if nn else sru.loc(), 'the generator must be dropped exactly when it is exhausted')
    ne = model.func(PROTO + '.new_eors')
    run.analysed(ne)
    nep = [a.arg for a in ne.node.args.args]
    nel = Loc(model, ne)

    def _expanded(v: ast.AST) -> ast.AST:
        try:
            return ast.parse(nel.expand(v), mode='eval').body
        except SyntaxError:
            return v

    fam = [n for n in walk_no_nested(ne.node) if isinstance(n, ast.Assign) and len(nep) >= 3 and amatch('self.negotiated.families if (V_a, V_s) == (AFI.undefined, SAFI.undefined) else [(V_a, V_s)]', _expanded(n.value), {'V_a': nep[1], 'V_s': nep[2]}) is not None and isinstance(n.targets[0], ast.Name)]
    each = False
    if len(fam) == 1:
        for lp in walk_no_nested(ne.node):
            if isinstance(lp, ast.For) and isinstance(lp.iter, ast.Name) and lp.iter.id == fam[0].targets[0].id and isinstance(lp.target, ast.Tuple) and len(lp.target.elts) == 2:
                a, b = (dotted(e) for e in lp.target.elts)
                each = any(amatch('await self.new_eor(V_a, V_s)', x, {'V_a': a, 'V_s': b}) is not None for st in lp.body for x in ast.walk(st))
    run.check(each, ne.qualname, 'one EOR per negotiated family', ne.loc(), 'RFC 4724: an End-of-RIB marker for each negotiated family')

    # ------------------------------------------------------------------ R5
    run.rule('C11.R5', 'a withdraw while the session is down removes the route from the cache (shared with C04.R2), so replace_restart cannot see it; the generator of the lost session is a local of _main', floor=1)
    di = model.func(RIB + '._del_from_rib_impl')
    calls = model.calls_to(di.module, di.node, 'Cache.update_cache_withdraw')
    run.check(len(calls) == 1 and any(isinstance(st, ast.Expr) and st.value is calls[0] for st in di.node.body), di.qualname, 'update_cache_withdraw(nlri) unconditionally', di.loc(), 'a withdrawn route must leave the cache whatever the session state')
    stores = [n for n in walk_no_nested(mainf.node) if isinstance(n, ast.Assign) and any(isinstance(t, ast.Attribute) for t in n.targets) and gen_v is not None and gen_v in ml.reads(n.value)]
    run.check(gen_v is not None and not stores and any(isinstance(v, ast.Constant) and v.value is None for v in ml.values(gen_v)), mainf.qualname, 'the update generator is a local of _main (dropped with the frame on session loss)', mainf.loc(), 'a half-consumed generator of the lost session must not survive into the next one')

    # ------------------------------------------------------------------ R6 every family is replayed
    run.rule(
        'C11.R6',
        'the replay covers every family: the per-family loops of Cache.cached_routes, OutgoingRIB.replace_restart and Protocol.new_eors '
        'have no early exit - a `return` / `break` reached for one family (nothing cached for it) ends the replay for all the families '
        'that come after it',
        floor=3,
    )
    n6 = 0
    for fq in ('exabgp.rib.cache.Cache.cached_routes', RIB + '.replace_restart', 'exabgp.reactor.protocol.Protocol.new_eors', RIB + '.resend'):
        f6 = model.funcs.get(fq)
        if f6 is None:
            run.cannot('%s vanished' % fq)
            continue
        run.analysed(f6)
        for lp in walk_no_nested(f6.node):
            if not isinstance(lp, (ast.For, ast.AsyncFor)):
                continue
            it = norm(lp.iter)
            if 'famil' not in it and 'famil' not in norm(lp.target):
                continue
            n6 += 1
            exits = []
            stack = list(lp.body)
            while stack:
                x = stack.pop()
                if isinstance(x, (ast.Return, ast.Break)):
                    exits.append(x)
                elif isinstance(x, (ast.For, ast.AsyncFor, ast.While)):
                    # a break of an inner loop only leaves that loop; a return leaves everything
                    stack += [y for y in ast.walk(x) if isinstance(y, ast.Return)]
                elif not isinstance(x, (ast.FunctionDef, ast.AsyncFunctionDef, ast.Lambda)):
                    stack += list(ast.iter_child_nodes(x))
            run.check(
                not exits,
                fq,
                'the loop over %s visits every family' % it[:50],
                f6.loc(exits[0]) if exits else f6.loc(lp),
                'the loop is left at %s for one family: the families after it are not replayed (their cached routes are not re-advertised, '
                'or their End-of-RIB is not sent) after the session is re-established' % (norm(exits[0])[:40] if exits else ''),
            )
    if n6 < 3:
        run.cannot('only %d per-family loops found in the replay functions' % n6)

    # ------------------------------------------------------------------ R7 kept / not kept, each RIB by its own setting
    run.rule(
        'C11.R7',
        'the shared RIB of a neighbor is emptied on (re)configuration only by its own setting: outgoing.clear() under `not adj_rib_out`, '
        'incoming.clear() under `not adj_rib_in`; and no call in rib/ or reactor/peer/ passes two same-typed values in the order opposite '
        'to the parameters they are named after',
        floor=4,
    )
    from .common import swapped_arguments_rule

    for fq in ('exabgp.rib.RIB.__init__', 'exabgp.rib.RIB.enable'):
        f7 = model.funcs.get(fq)
        if f7 is None:
            run.cannot('%s vanished' % fq)
            continue
        run.analysed(f7)
        pm7 = parent_map(f7.node)
        for c in walk_no_nested(f7.node):
            if isinstance(c, ast.Call) and isinstance(c.func, ast.Attribute) and c.func.attr == 'clear' and dotted(c.func.value) in ('self.outgoing', 'self.incoming'):
                side = 'adj_rib_out' if dotted(c.func.value) == 'self.outgoing' else 'adj_rib_in'
                other = 'adj_rib_in' if side == 'adj_rib_out' else 'adj_rib_out'
                g = [(norm(t), pol) for t, pol in flat_guards(f7.node, c, pm7)]
                ok7 = any(t == side and not pol for t, pol in g) and not any(other in t for t, _ in g)
                run.check(ok7, fq, '%s.clear() only when %s is false' % (dotted(c.func.value), side), f7.loc(c), 'found guards %s: with adj-rib-in false and adj-rib-out true every reload empties the Adj-RIB-Out, so the routes announced through the API are not replayed after the next session loss' % g)
    swapped_arguments_rule(model, run, ('exabgp.rib.', 'exabgp.reactor.peer.', 'exabgp.reactor.protocol.', 'exabgp.bgp.neighbor.'), 'the wrong table is emptied or the wrong flag applied', floor=20)


def pm_loop_target(pm: dict, node: ast.AST):
    cur = node
    while cur is not None:
        cur = pm.get(id(cur))
        if isinstance(cur, ast.For):
            return cur.target
    return None


def pm_handler(pm: dict, node: ast.AST):
    cur = node
    while cur is not None:
        cur = pm.get(id(cur))
        if isinstance(cur, ast.ExceptHandler):
            return cur
    return None
