"""Shared interprocedural helpers: call graph, explicit exception flow."""

from __future__ import annotations

import ast
from typing import Iterable

from ..cfg import handler_names
from ..const import UNKNOWN, Folder
from ..flow import parent_map
from ..model import FuncInfo, Model, dotted, norm, walk_no_nested

# builtin exception hierarchy (child -> parents), enough for what the repository raises/catches
_BUILTIN_PARENTS = {
    'BaseException': [],
    'Exception': ['BaseException'],
    'KeyboardInterrupt': ['BaseException'],
    'SystemExit': ['BaseException'],
    'GeneratorExit': ['BaseException'],
    'CancelledError': ['BaseException'],
    'ArithmeticError': ['Exception'],
    'ZeroDivisionError': ['ArithmeticError'],
    'OverflowError': ['ArithmeticError'],
    'AssertionError': ['Exception'],
    'AttributeError': ['Exception'],
    'EOFError': ['Exception'],
    'ImportError': ['Exception'],
    'LookupError': ['Exception'],
    'IndexError': ['LookupError'],
    'KeyError': ['LookupError'],
    'MemoryError': ['Exception'],
    'NameError': ['Exception'],
    'OSError': ['Exception'],
    'IOError': ['OSError'],
    'error': ['Exception'],  # struct.error / socket.error
    'ConnectionError': ['OSError'],
    'BrokenPipeError': ['ConnectionError'],
    'TimeoutError': ['OSError'],
    'FileNotFoundError': ['OSError'],
    'PermissionError': ['OSError'],
    'RuntimeError': ['Exception'],
    'NotImplementedError': ['RuntimeError'],
    'RecursionError': ['RuntimeError'],
    'StopIteration': ['Exception'],
    'StopAsyncIteration': ['Exception'],
    'SyntaxError': ['Exception'],
    'TypeError': ['Exception'],
    'ValueError': ['Exception'],
    'UnicodeError': ['ValueError'],
    'UnicodeDecodeError': ['UnicodeError'],
    'UnicodeEncodeError': ['UnicodeError'],
    'JSONDecodeError': ['ValueError'],
}


def exc_class(label: str) -> str:
    return label.split('@')[0].split('(')[0]


def plain(label: str) -> str:
    return label.split('@')[0]


def origin_of(label: str) -> str:
    return label.split('@', 1)[1] if '@' in label else ''


class ExcFlow:
    """escapes(f): labels of exceptions that can leave f by an explicit `raise` (own or of a resolved callee)."""

    def __init__(self, model: Model, cha: bool = True) -> None:
        self.model = model
        self.folder = Folder(model)
        self.cha = cha
        self._sites: dict[str, list[tuple]] = {}
        self._esc: dict[str, set[str]] = {}
        self._origin: dict[tuple[str, str], tuple[str, str]] = {}  # (func,label) -> (where, via callee or '')
        self._parents_cache: dict[str, set[str]] = {}
        self._done = False

    # ------------------------------------------------------------------ hierarchy
    def ancestors(self, cls: str) -> set[str]:
        if cls in self._parents_cache:
            return self._parents_cache[cls]
        out = {cls}
        # repository class?
        cands = [ci for qn, ci in self.model.classes.items() if ci.name == cls]
        for ci in cands:
            for b in ci.mro:
                out.add(b.rsplit('.', 1)[-1])
        stack = list(out)
        while stack:
            c = stack.pop()
            for p in _BUILTIN_PARENTS.get(c, []):
                if p not in out:
                    out.add(p)
                    stack.append(p)
        if len(out) == 1 and cls not in _BUILTIN_PARENTS:
            out.add('Exception')
            out.add('BaseException')
        self._parents_cache[cls] = out
        return out

    def caught_by(self, label: str, names: list[str]) -> bool:
        if '*' in names:
            return True
        anc = self.ancestors(exc_class(label))
        return any(n in anc for n in names)

    # ------------------------------------------------------------------ sites
    def _label_of_raise(self, fi: FuncInfo, r: ast.Raise, handler_var: dict[str, list[str]]) -> list[str]:
        e = r.exc
        if e is None:
            return ['<rethrow>']
        if isinstance(e, ast.Name) and e.id in handler_var:
            return ['<rethrow:%s>' % e.id]
        if isinstance(e, ast.Call):
            if isinstance(e.func, ast.Name) and e.func.id == 'cast' and len(e.args) == 2:
                t = e.args[0]
                return [(dotted(t) or '?').rsplit('.', 1)[-1]]
            names = self.model.callees(fi.module, e)
            cname = None
            for nm in names:
                if nm in self.model.classes or nm.startswith('builtins.') or nm.rsplit('.', 1)[-1][:1].isupper():
                    cname = nm.rsplit('.', 1)[-1]
                    break
            if cname is None:
                cname = (dotted(e.func) or '?').rsplit('.', 1)[-1]
            if cname in ('Notify', 'NotifyError') or 'Notify' in self.ancestors(cname) and cname != 'Notification':
                if e.args and isinstance(e.args[0], ast.Starred):
                    return ['%s(?)' % cname]
                if len(e.args) >= 2:
                    c = self.folder.fold(e.args[0], fi.module, fi.cls)
                    s = self.folder.fold(e.args[1], fi.module, fi.cls)
                    return ['%s(%s,%s)' % (cname, c if c is not UNKNOWN else '?', s if s is not UNKNOWN else '?')]
                return ['%s(?)' % cname]
            return [cname]
        if isinstance(e, ast.Name):
            t = self.model.type_of(fi.module, e)
            if t.startswith('Type['):
                return [t[5:-1].rsplit('.', 1)[-1]]
            if t not in ('?', 'Any'):
                return [t.split('[')[0].rsplit('.', 1)[-1]]
            return [e.id]
        if isinstance(e, ast.Attribute):
            t = self.model.type_of(fi.module, e)
            if t.startswith('Type['):
                return [t[5:-1].rsplit('.', 1)[-1]]
            if t not in ('?', 'Any'):
                return [t.split('[')[0].rsplit('.', 1)[-1]]
            return [e.attr]
        return ['?']

    def sites(self, fi: FuncInfo) -> list[tuple]:
        """[(kind, payload, node, tries)] where tries = [(Try, 'body'|'handler:i'|'else'|'final')...] inner first."""
        if fi.qualname in self._sites:
            return self._sites[fi.qualname]
        pm = parent_map(fi.node)
        out = []

        def context(n: ast.AST) -> list[tuple[ast.Try, str]]:
            ctx = []
            cur = n
            while True:
                p = pm.get(id(cur))
                if p is None:
                    break
                if isinstance(p, ast.Try):
                    if any(x is cur for x in p.body):
                        ctx.append((p, 'body'))
                    elif any(x is cur for x in p.orelse):
                        ctx.append((p, 'else'))
                    elif any(x is cur for x in p.finalbody):
                        ctx.append((p, 'final'))
                elif isinstance(p, ast.ExceptHandler):
                    gp = pm.get(id(p))
                    if isinstance(gp, ast.Try):
                        ctx.append((gp, 'handler:%d' % gp.handlers.index(p)))
                    cur = p
                    # skip the Try parent (already recorded)
                    cur = gp if gp is not None else p
                    continue
                cur = p
            return ctx

        handler_var: dict[str, list[str]] = {}
        for n in walk_no_nested(fi.node):
            if isinstance(n, ast.ExceptHandler) and n.name:
                handler_var[n.name] = handler_names(n)
        for n in walk_no_nested(fi.node):
            if isinstance(n, ast.Raise):
                out.append(('raise', self._label_of_raise(fi, n, handler_var), n, context(n)))
            elif isinstance(n, ast.Call):
                cs = self.model.callees_cha(fi.module, n) if self.cha else self.model.callees(fi.module, n)
                cs = [c for c in cs if c in self.model.funcs or c in self.model.classes]
                if cs:
                    out.append(('call', cs, n, context(n)))
        self._sites[fi.qualname] = out
        return out

    def _callee_funcs(self, names: Iterable[str]) -> list[str]:
        out = []
        for c in names:
            if c in self.model.funcs:
                out.append(c)
            elif c in self.model.classes:
                if 'builtins.BaseException' in self.model.classes[c].mro:
                    continue  # constructing an exception object: accepted as non-raising
                init = self.model.effective(c, '__init__')
                if init is not None:
                    out.append(init.qualname)
                new = self.model.effective(c, '__new__')
                if new is not None:
                    out.append(new.qualname)
        return out

    # ------------------------------------------------------------------ fixpoint
    def solve(self) -> None:
        if self._done:
            return
        funcs = list(self.model.funcs.values())
        for f in funcs:
            self._esc[f.qualname] = set()
        changed = True
        rounds = 0
        while changed and rounds < 40:
            changed = False
            rounds += 1
            for f in funcs:
                new = self._compute(f)
                if not new <= self._esc[f.qualname]:
                    self._esc[f.qualname] |= new
                    changed = True
        self._done = True

    def _filter(self, fi: FuncInfo, labels: set[str], ctx: list[tuple[ast.Try, str]], where: str, via: str) -> set[str]:
        """Apply enclosing handlers (inner first) to labels raised at a site."""
        cur = set(labels)
        for t, role in ctx:
            if role == 'body':
                nxt = set()
                for lab in cur:
                    caught = None
                    for h in t.handlers:
                        if self.caught_by(lab, handler_names(h)):
                            caught = h
                            break
                    if caught is None:
                        nxt.add(lab)
                    else:
                        # rethrown by the handler?  (handled when the rethrow site itself is processed)
                        pass
                cur = nxt
            # sites in handlers / else / finally are not protected by this try's handlers
        return cur

    def _compute(self, fi: FuncInfo) -> set[str]:
        out: set[str] = set()
        sites = self.sites(fi)
        # first: labels arriving at each try body (for rethrow resolution)
        for kind, payload, node, ctx in sites:
            if kind == 'raise':
                labels = set()
                for lab in payload:
                    if lab.startswith('<rethrow'):
                        labels |= self._rethrown(fi, node, ctx, lab)
                    else:
                        labels.add(lab + '@' + fi.qualname)
                via = ''
            else:
                labels = set()
                for c in self._callee_funcs(payload):
                    for lab in self._esc.get(c, ()):  # type: ignore[arg-type]
                        labels.add(lab)
                        self._origin.setdefault((fi.qualname + '@' + str(node.lineno), lab), (c, ''))
                via = 'call'
            left = self._filter(fi, labels, ctx, fi.loc(node), via)
            for lab in left:
                if (fi.qualname, lab) not in self._origin:
                    if kind == 'raise':
                        self._origin[(fi.qualname, lab)] = (fi.loc(node) + ' ' + norm(node)[:80], '')
                    else:
                        src = next((c for c in self._callee_funcs(payload) if lab in self._esc.get(c, ())), '')
                        self._origin[(fi.qualname, lab)] = (fi.loc(node) + ' ' + norm(node)[:60], src)
            out |= left
        return out

    def _rethrown(self, fi: FuncInfo, node: ast.AST, ctx: list[tuple[ast.Try, str]], lab: str) -> set[str]:
        """Labels re-raised by a bare `raise` / `raise exc` inside a handler: what the handler caught."""
        for t, role in ctx:
            if role.startswith('handler:'):
                h = t.handlers[int(role.split(':')[1])]
                names = handler_names(h)
                caught: set[str] = set()
                for kind, payload, n2, ctx2 in self.sites(fi):
                    if not any(tt is t and r == 'body' for tt, r in ctx2):
                        continue
                    if kind == 'raise':
                        labs = {l + '@' + fi.qualname for l in payload if not l.startswith('<rethrow')}
                    else:
                        labs = set()
                        for c in self._callee_funcs(payload):
                            labs |= self._esc.get(c, set())
                    # apply inner tries between the site and t
                    inner = []
                    for tt, r in ctx2:
                        if tt is t:
                            break
                        inner.append((tt, r))
                    labs = self._filter(fi, labs, inner, '', '')
                    # earlier handlers of the same try take precedence
                    for l in labs:
                        for hh in t.handlers:
                            if self.caught_by(l, handler_names(hh)):
                                if hh is h:
                                    caught.add(l)
                                break
                if not caught:
                    # the handler names themselves (e.g. except ValueError: raise) - implicit raisers
                    caught = {n for n in names if n not in ('*',)} if False else set()
                return caught
        return set()

    def escapes_o(self, qualname: str) -> set[str]:
        """labels with their origin function: 'ValueError@exabgp.x.f'"""
        self.solve()
        return set(self._esc.get(qualname, set()))

    def escapes(self, qualname: str) -> set[str]:
        self.solve()
        return {plain(l) for l in self._esc.get(qualname, set())}

    def witness(self, qualname: str, label: str, depth: int = 8) -> list[str]:
        out = []
        cur = qualname
        seen = set()
        while cur and cur not in seen and depth > 0:
            seen.add(cur)
            depth -= 1
            o = self._origin.get((cur, label))
            if o is None:
                o = next((v for (f, l), v in self._origin.items() if f == cur and plain(l) == plain(label)), None)
            if o is None:
                break
            out.append('%s: %s%s' % (cur.rsplit('.', 2)[-2] + '.' + cur.rsplit('.', 1)[-1], o[0], (' -> ' + o[1]) if o[1] else ''))
            cur = o[1]
        return out


class CallGraph:
    def __init__(self, model: Model, cha: bool = True) -> None:
        self.model = model
        self.cha = cha
        self.edges: dict[str, set[str]] = {}
        self.sites: dict[tuple[str, str], ast.Call] = {}
        props = {
            q
            for q, f in model.funcs.items()
            if any((dotted(d) or '').rsplit('.', 1)[-1] in ('property', 'cached_property') for d in f.node.decorator_list)
        }
        prop_names = {q.rsplit('.', 1)[-1] for q in props}
        self.properties = props
        for fi in model.funcs.values():
            outs: set[str] = set()
            for n in walk_no_nested(fi.node):
                if isinstance(n, ast.Call):
                    cs = model.callees_cha(fi.module, n) if cha else model.callees(fi.module, n)
                    for c in cs:
                        tgt = None
                        if c in model.funcs:
                            tgt = [c]
                        elif c in model.classes:
                            tgt = []
                            for m in ('__init__', '__new__', '__post_init__'):
                                e = model.effective(c, m)
                                if e is not None:
                                    tgt.append(e.qualname)
                        for t in tgt or []:
                            outs.add(t)
                            self.sites.setdefault((fi.qualname, t), n)
                elif isinstance(n, ast.Attribute) and isinstance(n.ctx, ast.Load) and n.attr in prop_names:
                    # reading a property runs its getter (lazy parsers live there)
                    for c in model.type_classes(fi.module, n.value):
                        if c not in model.classes:
                            continue
                        for k in [c] + (sorted(model.subclasses.get(c, ())) if cha else []):
                            e = model.effective(k, n.attr)
                            if e is not None and e.qualname in props:
                                outs.add(e.qualname)
                                self.sites.setdefault((fi.qualname, e.qualname), n)  # type: ignore[arg-type]
            # nested functions are reachable from their parent (callbacks are scheduled, not called)
            self.edges[fi.qualname] = outs
        for fi in model.funcs.values():
            if fi.parent is not None:
                self.edges.setdefault(fi.parent.qualname, set()).add(fi.qualname)

    def reachable(self, roots: Iterable[str]) -> dict[str, str | None]:
        """function -> predecessor on a shortest path from a root."""
        pred: dict[str, str | None] = {}
        queue = []
        for r in roots:
            if r in self.edges and r not in pred:
                pred[r] = None
                queue.append(r)
        i = 0
        while i < len(queue):
            x = queue[i]
            i += 1
            for y in sorted(self.edges.get(x, ())):
                if y not in pred:
                    pred[y] = x
                    queue.append(y)
        return pred

    def path(self, pred: dict[str, str | None], target: str) -> list[str]:
        out = [target]
        while pred.get(out[-1]) is not None:
            out.append(pred[out[-1]])  # type: ignore[arg-type]
        return list(reversed(out))

    def callers(self, target: str) -> list[str]:
        return sorted(f for f, outs in self.edges.items() if target in outs)


def short(qn: str) -> str:
    parts = qn.split('.')
    return '.'.join(parts[-2:])


_SAFE_CODECS = {'latin-1', 'latin1', 'iso-8859-1', 'iso8859-1', 'l1'}


def implicit_raise_sites(model: Model, fi: FuncInfo) -> list[tuple[ast.Call, str]]:
    """Call sites that raise without an explicit `raise`, modelled only where exact:
    bytes.decode / str.encode / bytes(s, enc) / str(b, enc) without errors= (UnicodeError), struct.unpack (struct.error),
    int(<str>) (ValueError).  Sites protected by an enclosing handler for the exception are left out."""
    folder = Folder(model)
    out: list[tuple[ast.Call, str]] = []
    pm = parent_map(fi.node)
    flow = ExcFlow.__new__(ExcFlow)
    flow.model = model
    flow._parents_cache = {}

    def protected(node: ast.AST, label: str) -> bool:
        cur: ast.AST | None = node
        while cur is not None:
            p = pm.get(id(cur))
            if isinstance(p, ast.Try) and any(x is cur for x in p.body):
                for h in p.handlers:
                    if ExcFlow.caught_by(flow, label, handler_names(h)):
                        return True
            cur = p
        return False

    for n in walk_no_nested(fi.node):
        if not isinstance(n, ast.Call):
            continue
        label = None
        if isinstance(n.func, ast.Attribute) and n.func.attr in ('decode', 'encode'):
            kw = {k.arg for k in n.keywords}
            if 'errors' in kw or len(n.args) >= 2:
                continue
            enc = folder.fold(n.args[0], fi.module, fi.cls) if n.args else 'utf-8'
            for k in n.keywords:
                if k.arg == 'encoding':
                    enc = folder.fold(k.value, fi.module, fi.cls)
            if isinstance(enc, str) and enc.lower() in _SAFE_CODECS and n.func.attr == 'decode':
                continue
            t = model.type_of(fi.module, n.func.value)
            if n.func.attr == 'decode' and ('bytes' in t or 'memoryview' in t or 'bytearray' in t or 'Buffer' in t or t in ('?', 'Any')):
                label = 'UnicodeDecodeError'
            elif n.func.attr == 'encode' and 'str' in t:
                if isinstance(enc, str) and enc.lower().replace('-', '') in ('utf8',):
                    continue
                label = 'UnicodeEncodeError'
        elif isinstance(n.func, ast.Name) and n.func.id in ('bytes', 'str') and len(n.args) == 2:
            enc = folder.fold(n.args[1], fi.module, fi.cls)
            if isinstance(enc, str) and enc.lower().replace('-', '') == 'utf8' and n.func.id == 'bytes':
                continue
            if isinstance(enc, str) and enc.lower() in _SAFE_CODECS and n.func.id == 'str':
                continue
            label = 'UnicodeEncodeError' if n.func.id == 'bytes' else 'UnicodeDecodeError'
        elif isinstance(n.func, ast.Name) and n.func.id == 'int' and len(n.args) >= 1:
            t = model.type_of(fi.module, n.args[0])
            if t == 'builtins.str':
                label = 'ValueError'
        if label and not protected(n, label):
            out.append((n, label))
    return out


def prev_minus_new(model: Model, fi: FuncInfo) -> dict:
    """Shape shared by OutgoingRIB.replace_restart / replace_reload: a dict filled from the `previous` routes by
    index, pruned by the index of every `new` route, and whatever is left handed to del_from_rib.  Local names are
    free; the two route lists are the second and third parameter."""
    from ..alpha import afind, amatch

    params = [a.arg for a in fi.node.args.args]
    prev, new = (params[1], params[2]) if len(params) >= 3 else ('?', '?')
    out: dict = {'table': None, 'filled': False, 'pruned': False, 'withdrawn': [], 'prune_nodes': []}
    loops = [n for n in walk_no_nested(fi.node) if isinstance(n, ast.For)]
    for lp in loops:
        if isinstance(lp.iter, ast.Name) and lp.iter.id == prev and isinstance(lp.target, ast.Name):
            for n, b in afind('V_x[V_r.index()] = V_r', lp, {'V_r': lp.target.id}):
                out['table'] = b['V_x']
                out['filled'] = True
    if out['table'] is None:
        # the same thing as a comprehension:  X = {r.index(): r for r in previous}
        for n in walk_no_nested(fi.node):
            if isinstance(n, (ast.Assign, ast.AnnAssign)) and n.value is not None:
                tg = n.targets[0] if isinstance(n, ast.Assign) else n.target
                if isinstance(tg, ast.Name) and amatch('{V_r.index(): V_r for V_r in V_p}', n.value, {'V_p': prev}) is not None:
                    out['table'] = tg.id
                    out['filled'] = True
    x = out['table']
    if x is None:
        return out
    # the table may be handed on under another name (built in a helper, returned, bound to a local)
    from ..alpha import Loc

    xs = sorted(Loc(model, fi).aliases(x))
    for lp in loops:
        if isinstance(lp.iter, ast.Name) and lp.iter.id == new and isinstance(lp.target, ast.Name):
            for xa in xs:
                for pat in ('V_x.pop(V_n.index(), None)', 'V_x.pop(V_n.index())'):
                    for n, b in afind(pat, lp, {'V_x': xa, 'V_n': lp.target.id}):
                        out['pruned'] = True
                        out['prune_nodes'].append(n)
                for n in walk_no_nested(lp):
                    if isinstance(n, ast.Delete) and any(amatch('V_x[V_n.index()]', t, {'V_x': xa, 'V_n': lp.target.id}) is not None for t in n.targets):
                        out['pruned'] = True
                        out['prune_nodes'].append(n)
    for lp in loops:
        if not isinstance(lp.target, ast.Name):
            continue
        k = lp.target.id
        over_keys = any(amatch(p, lp.iter, {'V_x': xa}) is not None for xa in xs for p in ('list(V_x)', 'list(V_x.keys())', 'sorted(V_x)'))
        over_vals = any(amatch(p, lp.iter, {'V_x': xa}) is not None for xa in xs for p in ('list(V_x.values())', 'V_x.values()', 'tuple(V_x.values())'))
        for c in model.calls_to(fi.module, lp, 'OutgoingRIB.del_from_rib'):
            if not c.args:
                continue
            if over_keys and any(amatch(p, c.args[0], {'V_x': xa, 'V_k': k}) is not None for xa in xs for p in ('V_x.pop(V_k)', 'V_x[V_k]')):
                out['withdrawn'].append(c)
            elif over_vals and isinstance(c.args[0], ast.Name) and c.args[0].id == k:
                out['withdrawn'].append(c)
    return out


# ---------------------------------------------------------------------------------------------- swapped arguments
def swapped_arguments_rule(model: Model, run, scopes: tuple[str, ...], what: str, floor: int = 20) -> None:  # noqa: ANN001
    """Positional arguments that are plain names (or attribute reads) and carry the names of two parameters of the callee, the
    other way round: `f(adj_rib_in, adj_rib_out)` for `def f(adj_rib_out, adj_rib_in)`.  Two values of one type swap silently;
    the names are what the author of both sides meant.  Calls inside `scopes` (module prefixes) are examined, after inlining
    (a helper extracted from its caller is seen with the caller's argument names)."""

    def aname(a: ast.AST) -> str | None:
        if isinstance(a, ast.Name):
            return a.id
        if isinstance(a, ast.Attribute):
            return a.attr
        return None

    n = 0
    for q, fi in sorted(model.funcs.items()):
        if not any(q.startswith(s_) for s_ in scopes):
            continue
        for c in walk_no_nested(fi.node):
            if not isinstance(c, ast.Call) or len(c.args) < 2:
                continue
            cs = [x for x in model.callees(fi.module, c, by_name=False) if x in model.funcs or x in model.classes]
            if len(cs) != 1:
                continue
            f = model.funcs.get(cs[0]) or model.effective(cs[0], '__init__')
            if f is None:
                continue
            params = [a.arg for a in f.node.args.args]
            if params and params[0] in ('self', 'cls', 'klass') and f.cls is not None:
                params = params[1:]
            names = [aname(a) for a in c.args]
            n += 1
            bad = None
            for i in range(len(names)):
                for j in range(i + 1, len(names)):
                    if j < len(params) and names[i] and names[j] and names[i] != names[j] and names[i] == params[j] and names[j] == params[i]:
                        bad = (i, j)
            inst = '%s: %s' % (short(q), norm(c)[:60])
            if bad is None:
                continue
            run.violation(
                q,
                'arguments %s and %s are passed in the order opposite to the parameters of %s' % (names[bad[0]], names[bad[1]], short(f.qualname)),
                fi.loc(c),
                '%s is declared (%s) and called with (%s): the two values have the same type, so nothing complains, and %s' % (short(f.qualname), ', '.join(params), ', '.join(x or '...' for x in names), what),
            )
    run.check(n >= floor, 'swapped-argument scan', '%d calls with two or more positional arguments examined' % n, '', 'scan floor %d' % floor) if n < floor else run.ok('swapped-argument scan', '%d calls examined' % n)


# ---------------------------------------------------------------------------------------------- copies are complete
def copy_completeness_rule(model: Model, run, scopes: tuple[str, ...], what: str, floor: int = 10) -> None:  # noqa: ANN001
    """Every __copy__ / __deepcopy__ of a class with __slots__ gives the copy each slot the class declares, taken from the
    same slot of the original (`new.x = ... self.x ...`): a slot left out or filled with a constant makes the copy a
    different object."""
    n = 0
    for q, ci in sorted(model.classes.items()):
        if not any(q.startswith(s_) for s_ in scopes):
            continue
        slots: list[str] = []
        for st in ci.node.body:
            if isinstance(st, (ast.Assign, ast.AnnAssign)):
                tg = st.targets[0] if isinstance(st, ast.Assign) else st.target
                if isinstance(tg, ast.Name) and tg.id == '__slots__' and isinstance(st.value, (ast.Tuple, ast.List)):
                    slots = [e.value for e in st.value.elts if isinstance(e, ast.Constant) and isinstance(e.value, str)]
        if not slots:
            continue
        for mn in ('__copy__', '__deepcopy__'):
            f = ci.methods.get(mn)
            if f is None:
                continue
            news = [a.targets[0].id for a in walk_no_nested(f.node) if isinstance(a, ast.Assign) and isinstance(a.targets[0], ast.Name) and isinstance(a.value, ast.Call) and '__new__' in norm(a.value)]
            if not news:
                continue
            run.analysed(f)
            new = news[0]
            for slot in slots:
                n += 1
                asg = [a for a in walk_no_nested(f.node) if isinstance(a, ast.Assign) and dotted(a.targets[0]) == new + '.' + slot]
                bad = [a for a in asg if ('self.' + slot) not in norm(a.value)]
                inst = '%s.%s copies %s' % (short(q), mn, slot)
                if asg and not bad:
                    run.ok(inst)
                else:
                    run.violation(
                        f.qualname,
                        'the copy does not get the %s of the original (%s)' % (slot, norm(bad[0])[:50] if bad else 'never assigned'),
                        f.loc(bad[0]) if bad else f.loc(),
                        'the class declares the slot %s and %s builds the copy with __new__: the copy %s, so it is not the object that was '
                        'copied - %s' % (slot, mn, ('gets %s instead' % norm(bad[0].value)[:40]) if bad else 'has no such slot at all', what),
                    )
    if n < floor:
        run.cannot('only %d slots of copied classes examined' % n)
