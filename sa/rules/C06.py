"""C06 — message framing independent of TCP delivery.  DESIGN.md 3/C06."""

from __future__ import annotations

import ast

from ..alpha import Loc
from ..const import UNKNOWN, ClassRef, Folder
from ..flow import Slicer, always_exits, flat_guards, guards, parent_map
from ..model import FuncInfo, Model, dotted, norm, walk_no_nested, walk_with_lambdas
from ..report import Run
from .common import CallGraph, short

CONN = 'exabgp.reactor.network.connection.Connection'
READ_MESSAGE = 'exabgp.reactor.protocol.Protocol.read_message'


def _notify_pair(folder: Folder, fi: FuncInfo, call: ast.Call):
    if len(call.args) < 2:
        return None
    c = folder.fold(call.args[0], fi.module, fi.cls)
    s = folder.fold(call.args[1], fi.module, fi.cls)
    if isinstance(c, int) and isinstance(s, int):
        return (c, s)
    return None


def _exit_value(body: list[ast.stmt]):
    """The value carried out by a checking branch: `return X` or `yield X; return`."""
    for st in body:
        if isinstance(st, ast.Return) and st.value is not None:
            return st.value
        if isinstance(st, ast.Expr) and isinstance(st.value, ast.Yield) and st.value.value is not None:
            return st.value.value
    return None


def header_plan(model: Model, folder: Folder, fi: FuncInfo) -> tuple[list[dict], dict]:
    """Ordered list of the header checks of a reader: kind, codes, constants; plus facts about the body read."""
    mod = fi.module
    plan: list[dict] = []
    facts: dict = {}
    reads = []
    for n in walk_no_nested(fi.node):
        if isinstance(n, ast.Call) and model.call_matches(mod, n, 'Connection._reader', 'Connection._reader_async'):
            reads.append(n)
    reads.sort(key=lambda c: c.lineno)
    facts['reads'] = reads
    # the length variable: decoded from bytes 16..18 of what the first read returned - whatever it is called
    loc = Loc(model, fi)
    hdr = [nm for nm, ds in loc.defs.items() if any(v is not None and reads and (v is reads[0] or (isinstance(v, ast.Await) and v.value is reads[0])) for v, _, _ in ds)]
    # the generator twin binds the header in a `for ... in self._reader(19)` loop
    hdr += [nm for nm, ds in loc.defs.items() if any(h.startswith('for') and reads and v is reads[0] for v, h, _ in ds)]

    def is_len_field(v: ast.AST) -> bool:
        for x in ast.walk(v):
            if isinstance(x, ast.Subscript) and isinstance(x.slice, ast.Slice) and isinstance(x.value, ast.Name) and x.value.id in hdr:
                if folder.fold(x.slice.lower, mod, fi.cls) == 16 and folder.fold(x.slice.upper, mod, fi.cls) == 18:
                    return True
        return False

    lvars = loc.from_value(is_len_field)
    facts['length_var'] = lvars[0] if len(lvars) == 1 else None
    L = facts['length_var']

    def lname(e: ast.AST) -> str:
        return 'length' if isinstance(e, ast.Name) and e.id == L else norm(e)
    if reads:
        facts['first_read_arg'] = folder.fold(reads[0].args[0], mod, fi.cls) if reads[0].args else UNKNOWN
    for st in fi.node.body:
        if not isinstance(st, ast.If):
            continue
        val = _exit_value(st.body)
        if val is None or not always_exits(st.body, loop_exit_counts=False):
            continue
        err = None
        if isinstance(val, ast.Tuple):
            for e in val.elts:
                if isinstance(e, ast.Call) and model.call_matches(mod, e, 'NotifyError'):
                    err = _notify_pair(folder, fi, e)
        if err is None:
            facts.setdefault('plain_exits', []).append(st)
        tests = [st.test]
        if isinstance(st.test, ast.BoolOp) and isinstance(st.test.op, ast.Or):
            vals = list(st.test.values)
            tail = [v for v in vals if isinstance(v, ast.UnaryOp) and isinstance(v.op, ast.Not) and isinstance(v.operand, ast.Call)]
            head = [v for v in vals if v not in tail]
            if tail and head and vals.index(tail[0]) == len(head):
                # `<range tests> or not validator(length)`: one exit, two checks (evaluated left to right)
                first = head[0] if len(head) == 1 else ast.copy_location(ast.BoolOp(op=ast.Or(), values=head), st.test)
                tests = [first] + tail
        for test in tests:
            plan.extend(_classify(model, folder, fi, st, test, err, facts, lname))
    # body length expression
    if len(reads) >= 2 and reads[1].args:
        v = loc.resolve(reads[1].args[0])
        if isinstance(v, ast.BinOp) and isinstance(v.op, ast.Sub):
            facts['body_len'] = (lname(v.left), folder.fold(v.right, mod, fi.cls))
    return plan, facts


def _classify(model: Model, folder: Folder, fi: FuncInfo, st: ast.If, test: ast.AST, err, facts: dict, lname) -> list[dict]:  # noqa: ANN001
    mod = fi.module
    plan: list[dict] = []
    if True:
        kind = 'other'
        consts: dict = {}
        txt = norm(test)
        # marker: X[:16] != <16 x 0xFF>
        for cmp_ in ast.walk(test):
            if isinstance(cmp_, ast.Compare) and len(cmp_.ops) == 1:
                sides = [cmp_.left, cmp_.comparators[0]]
                folded = [folder.fold(s, mod, fi.cls) for s in sides]
                for s, f, other in ((sides[0], folded[0], sides[1]), (sides[1], folded[1], sides[0])):
                    if isinstance(f, bytes) and len(f) == 16 and isinstance(other, ast.Subscript) and isinstance(other.slice, ast.Slice):
                        up = folder.fold(other.slice.upper, mod, fi.cls) if other.slice.upper is not None else None
                        lo = folder.fold(other.slice.lower, mod, fi.cls) if other.slice.lower is not None else 0
                        kind = 'marker'
                        consts = {'marker': f.hex(), 'slice': [lo, up], 'op': type(cmp_.ops[0]).__name__}
        if kind == 'other' and isinstance(test, ast.BoolOp) and isinstance(test.op, ast.Or):
            lows, highs = [], []
            for v in test.values:
                if isinstance(v, ast.Compare) and len(v.ops) == 1 and isinstance(v.left, ast.Name):
                    rhs = v.comparators[0]
                    if isinstance(v.ops[0], ast.Lt):
                        lows.append(folder.fold(rhs, mod, fi.cls))
                    elif isinstance(v.ops[0], ast.LtE):
                        k = folder.fold(rhs, mod, fi.cls)
                        lows.append(k + 1 if isinstance(k, int) else k)
                    elif isinstance(v.ops[0], ast.Gt):
                        highs.append(dotted(rhs) or norm(rhs))
                    elif isinstance(v.ops[0], ast.GtE):
                        highs.append('>=' + (dotted(rhs) or norm(rhs)))
            if lows and highs:
                kind = 'range'
                consts = {'low': lows, 'high': highs, 'var': sorted({lname(v.left) for v in test.values if isinstance(v, ast.Compare)})}
        if kind == 'other' and isinstance(test, ast.UnaryOp) and isinstance(test.op, ast.Not) and isinstance(test.operand, ast.Call):
            call = test.operand
            src = None
            if isinstance(call.func, ast.Name):
                # validator = Message.Length.get(msg, default)
                for n in walk_no_nested(fi.node):
                    if isinstance(n, ast.Assign) and isinstance(n.targets[0], ast.Name) and n.targets[0].id == call.func.id:
                        src = n.value
            elif isinstance(call.func, ast.Call):
                # Message.Length.get(msg, default)(length): the table looked up in place
                src = call.func
            if src is not None and 'Message.Length' in norm(src):
                kind = 'type-length'
                consts = {'table': 'Message.Length', 'arg': lname(call.args[0]) if call.args else ''}
        if kind == 'other' and isinstance(test, ast.UnaryOp) and isinstance(test.op, ast.Not) and isinstance(test.operand, ast.Name):
            # `if not number:` -> complete message without body
            if err is None:
                facts['empty_body_exit'] = True
                return plan
        plan.append({'kind': kind, 'err': err, 'consts': consts, 'line': st.lineno, 'test': txt, 'node': st})
    return plan


def check(model: Model, run: Run) -> None:
    folder = Folder(model)
    conn = model.cls(CONN)
    ra = model.func(CONN + '.reader_async')
    rs = model.func(CONN + '.reader')
    run.analysed(ra)
    run.analysed(rs)
    plan_a, facts_a = header_plan(model, folder, ra)
    plan_s, facts_s = header_plan(model, folder, rs)

    # ------------------------------------------------------------------ R1 twins
    run.rule('C06.R1', 'Connection.reader and reader_async perform the same header checks in the same order with the same (code, subcode) and body length', floor=1)
    strip = lambda plan: [(p['kind'], p['err'], str(p['consts'])) for p in plan]
    if len(plan_a) < 3:
        run.cannot('fewer than 3 header checks extracted from reader_async (%s)' % strip(plan_a))
    if strip(plan_a) == strip(plan_s) and facts_a.get('body_len') == facts_s.get('body_len'):
        for p in plan_a:
            run.ok('twin check %s %s' % (p['kind'], p['err']), p['test'])
    else:
        for i in range(max(len(plan_a), len(plan_s))):
            a = strip(plan_a)[i] if i < len(plan_a) else None
            s = strip(plan_s)[i] if i < len(plan_s) else None
            if a != s:
                run.violation(
                    CONN + '.reader/reader_async',
                    'check #%d differs: async %s / generator %s' % (i + 1, a, s),
                    ra.loc(plan_a[i]['node']) if i < len(plan_a) else rs.loc(),
                    'the two readers are kept in parallel and must frame messages identically',
                )
        if facts_a.get('body_len') != facts_s.get('body_len'):
            run.violation(CONN + '.reader/reader_async', 'body length %s vs %s' % (facts_a.get('body_len'), facts_s.get('body_len')), ra.loc(), 'body length differs between the twins')

    # ------------------------------------------------------------------ R2 checks precede the body read
    run.rule(
        'C06.R2',
        'in reader_async the body read is preceded (on every path, by early-exit guards at function level) by: marker == 16 x 0xFF '
        'else NotifyError(1,1); HEADER_LEN <= length <= self.msg_size else (1,2); per-type Message.Length else (1,2); the '
        'header read asks for HEADER_LEN bytes and the body read for length - HEADER_LEN',
        floor=5,
    )
    for fi, plan, facts in ((ra, plan_a, facts_a), (rs, plan_s, facts_s)):
        want = [('marker', (1, 1)), ('range', (1, 2)), ('type-length', (1, 2))]
        got = [(p['kind'], p['err']) for p in plan if p['kind'] != 'other']
        reads = facts['reads']
        body_read_line = reads[1].lineno if len(reads) >= 2 else None
        if body_read_line is None:
            run.cannot('%s: second _reader call (body) not found' % fi.qualname)
            continue
        for w in want:
            p = next((p for p in plan if (p['kind'], p['err']) == w), None)
            run.check(
                p is not None and p['line'] < body_read_line,
                fi.qualname,
                'header check %s -> NotifyError%s before the body read' % w,
                fi.loc(p['node']) if p else fi.loc(),
                'the %s check with NotifyError%s must be a function-level early exit before the body is read; found %s' % (w[0], w[1], got),
            )
        # nothing is handed to the caller as a good message before the last of the three checks
        tl = next((p for p in plan if p['kind'] == 'type-length'), None)
        early = [st for st in facts.get('plain_exits', []) if tl is not None and reads and reads[0].lineno < st.lineno < tl['line']]
        run.check(
            not early,
            fi.qualname,
            'no message leaves the reader before the per-type length check',
            fi.loc(early[0]) if early else fi.loc(),
            'an exit without error (%s) sits between the header read and the per-type Message.Length check: a header-only OPEN / UPDATE / '
            'NOTIFICATION / ROUTE-REFRESH (length 19) is handed to the decoders instead of being refused with 1/2 (a 19 byte '
            'NOTIFICATION then resets the session as "notification received 0/0")' % (norm(early[0].test) if early else ''),
        )
        # order marker < range < type-length
        order = [p['kind'] for p in plan if p['kind'] in ('marker', 'range', 'type-length')]
        run.check(order == ['marker', 'range', 'type-length'], fi.qualname, 'check order %s' % order, fi.loc(), 'checks must run marker, range, per-type')
        mk = next((p for p in plan if p['kind'] == 'marker'), None)
        if mk is not None:
            run.check(
                mk['consts'].get('marker') == 'ff' * 16 and mk['consts'].get('slice') in ([0, 16], [None, 16]) and mk['consts'].get('op') == 'NotEq',
                fi.qualname,
                'marker check compares header[:16] with 16 x 0xFF: %s' % mk['consts'],
                fi.loc(mk['node']),
                'RFC 4271 4.1: the marker is 16 octets of all ones',
            )
        rg = next((p for p in plan if p['kind'] == 'range'), None)
        if rg is not None:
            run.check(
                rg['consts'].get('low') == [19] and rg['consts'].get('high') == ['self.msg_size'] and rg['consts'].get('var') == ['length'],
                fi.qualname,
                'range check: length < %s or length > %s' % (rg['consts'].get('low'), rg['consts'].get('high')),
                fi.loc(rg['node']),
                'length must be refused below 19 and above the negotiated maximum held in self.msg_size',
            )
        tl = next((p for p in plan if p['kind'] == 'type-length'), None)
        if tl is not None:
            run.check(tl['consts'].get('arg') == 'length', fi.qualname, 'per-type validator is applied to the length field (%s)' % tl['consts'].get('arg'), fi.loc(tl['node']), 'Message.Length validates the length of the header')
        run.check(facts.get('first_read_arg') == 19, fi.qualname, 'header read asks for %s bytes' % facts.get('first_read_arg'), fi.loc(), 'the header is 19 bytes')
        run.check(
            facts.get('body_len') is not None and facts['body_len'][1] == 19 and facts['body_len'][0] == 'length',
            fi.qualname,
            'body read asks for %s' % (facts.get('body_len'),),
            fi.loc(),
            'the body is length - HEADER_LEN bytes',
        )

    # ------------------------------------------------------------------ R3 constants
    run.rule('C06.R3', 'constants: MARKER = 16 x 0xFF, HEADER_LEN = 19, initial/extended sizes 4096/65535, Message.Length table = RFC 4271 4 / RFC 2918', floor=6)
    msg = model.cls('exabgp.bgp.message.message.Message')
    run.analysed(model.func('exabgp.bgp.message.message.Message.unpack'))
    marker = folder.class_attr(msg.qualname, 'MARKER')
    run.check(marker == b'\xff' * 16, msg.qualname, 'MARKER = %r' % (marker,), msg.loc(), 'marker must be 16 x 0xFF')
    hl = folder.class_attr(msg.qualname, 'HEADER_LEN')
    run.check(hl == 19, msg.qualname, 'HEADER_LEN = %r' % (hl,), msg.loc(), 'header is 19 bytes')
    ext = model.cls('exabgp.bgp.message.open.capability.extended.ExtendedMessage')
    ini = folder.class_attr(ext.qualname, 'INITIAL_SIZE')
    big = folder.class_attr(ext.qualname, 'EXTENDED_SIZE')
    run.check(ini == 4096, ext.qualname, 'INITIAL_SIZE = %r' % (ini,), ext.loc(), 'RFC 4271: 4096')
    run.check(big == 65535, ext.qualname, 'EXTENDED_SIZE = %r' % (big,), ext.loc(), 'RFC 8654: 65535')
    table = msg.assigns.get('Length')
    # the entries are predicates over the length: decided by evaluating them at the boundaries, whichever way they are written
    # (a lambda, a factory call returning one, a named function)
    want = {1: ('GtE', 29), 2: ('GtE', 23), 3: ('GtE', 21), 4: ('Eq', 19), 5: ('Eq', 23)}
    got: dict = {}

    def classify(v: ast.expr) -> tuple:
        vals = {}
        for x in (18, 19, 20, 21, 22, 23, 24, 28, 29, 30, 4096, 65535):
            vals[x] = _length_pred(model, folder, msg, v, x)
        if any(r is UNKNOWN for r in vals.values()):
            return ('?', norm(v))
        true = [x for x in sorted(vals) if vals[x]]
        if not true:
            return ('never', None)
        if len(true) == 1:
            return ('Eq', true[0])
        if true == [x for x in sorted(vals) if x >= true[0]]:
            return ('GtE', true[0])
        return ('?', 'true at %s' % true)

    if isinstance(table, ast.Dict):
        for k, v in zip(table.keys, table.values):
            kk = folder.fold(k, msg.module, msg)
            got[kk] = classify(v)
    else:
        run.cannot('Message.Length is not a dict literal')
    for k, w in want.items():
        run.check(got.get(k) == w, msg.qualname, 'Length[%s] = %s' % (k, got.get(k)), msg.loc(), 'RFC length bound for message type %d is %s' % (k, w))
    for k in got:
        if k not in want:
            run.violation(msg.qualname, 'Length[%s] = %s' % (k, got[k]), msg.loc(), 'unexpected per-type length rule')
    # the Connection starts at the initial size
    init = model.func(CONN + '.__init__')
    ok = False
    for n in walk_no_nested(init.node):
        if isinstance(n, (ast.Assign, ast.AnnAssign)):
            t = n.targets[0] if isinstance(n, ast.Assign) else n.target
            if dotted(t) == 'self.msg_size' and n.value is not None and folder.fold(n.value, init.module, init.cls) == 4096:
                ok = True
    run.check(ok, init.qualname, 'self.msg_size starts at INITIAL_SIZE', init.loc(), 'a new connection accepts at most 4096 bytes until extended messages are negotiated')

    # ------------------------------------------------------------------ R4 exactly N bytes
    run.rule(
        'C06.R4',
        '_reader_async accumulates exactly `number` bytes: buffer = bytearray(number), loop while offset < number, receive '
        'into the view from offset, offset grows by the received count only, zero bytes leaves by raising, the whole view is returned '
        '(or, in the accumulate form, each sock_recv asks only for what is still missing)',
        floor=1,
    )
    _r4_exact(model, run, folder)

    # ------------------------------------------------------------------ R8 the header fields
    run.rule(
        'C06.R8',
        'both readers decode the length as the unsigned big-endian number in octets 16-17 of the header and the type as '
        'octet 18: the defining expressions are evaluated on two headers (length 0x8001 / type 2, length 19 / type 4)',
        floor=4,
    )
    for fi in (ra, rs):
        _r8_fields(model, run, folder, fi)

    # ------------------------------------------------------------------ R5 unknown type / unchanged codes
    run.rule('C06.R5', 'read_message: the reader error is re-raised with its own code/subcode; a type outside the known set raises Notify(1, 3)', floor=1)
    _r5_unknown_type(model, run, folder)

    # ------------------------------------------------------------------ R6 msg_size
    run.rule('C06.R6', 'the only write to Connection.msg_size outside __init__ takes negotiated.msg_size and, on every path (correlated guards), follows both negotiated.sent(...) and negotiated.received(...)', floor=1)
    _r6_msg_size(model, run, folder)

    # ------------------------------------------------------------------ R7 cancellable partial read
    run.rule(
        'C06.R7',
        'a read that is cancelled by asyncio.wait_for after consuming part of a message must end the session: the '
        'TimeoutError arm of every wait_for around a message read raises (it must not map the timeout to a no-op and '
        'read the same connection again)',
        floor=1,
    )
    _r7_cancel(model, run, folder)


def _length_pred(model: Model, folder: Folder, msg, v: ast.expr, x: int, env: dict | None = None, depth: int = 0):
    """Value of the length predicate `v` (an entry of Message.Length) for the length x, or UNKNOWN."""
    from ..evalfn import eval_function

    env = dict(env or {})
    if depth > 3:
        return UNKNOWN
    if isinstance(v, ast.Lambda):
        if len(v.args.args) != 1:
            return UNKNOWN
        env[v.args.args[0].arg] = x
        r = folder.fold(v.body, msg.module, msg, env)
        return bool(r) if r is not UNKNOWN else UNKNOWN
    if isinstance(v, ast.Call) and isinstance(v.func, ast.Name) and v.func.id in msg.module.functions and not v.keywords:
        # a factory: its parameters are bound to the (constant) arguments, its returned expression is the predicate
        fac = msg.module.functions[v.func.id]
        params = [a.arg for a in fac.node.args.args]
        if len(params) != len(v.args):
            return UNKNOWN
        fenv = {}
        for pn, a in zip(params, v.args):
            c = folder.fold(a, msg.module, msg, env)
            if c is UNKNOWN:
                return UNKNOWN
            fenv[pn] = c
        body = [st for st in fac.node.body if not (isinstance(st, ast.Expr) and isinstance(st.value, ast.Constant))]
        if len(body) == 1 and isinstance(body[0], ast.Return) and body[0].value is not None:
            return _length_pred(model, folder, msg, body[0].value, x, fenv, depth + 1)
        return UNKNOWN
    if isinstance(v, ast.Name) and v.id in msg.module.functions:
        fi = msg.module.functions[v.id]
        params = [a.arg for a in fi.node.args.args]
        if len(params) != 1:
            return UNKNOWN
        r = eval_function(folder, fi, {params[0]: x})
        return bool(r) if r is not UNKNOWN else UNKNOWN
    return UNKNOWN


def _r8_fields(model: Model, run: Run, folder: Folder, fi: FuncInfo) -> None:
    loc = Loc(model, fi)
    mod = fi.module
    reads = sorted((n for n in walk_no_nested(fi.node) if isinstance(n, ast.Call) and model.call_matches(mod, n, 'Connection._reader', 'Connection._reader_async')), key=lambda c: c.lineno)
    if len(reads) < 2:
        run.cannot('%s: header and body reads not found' % fi.qualname)
        return
    hdr = [nm for nm, ds in loc.defs.items() if any(v is not None and (v is reads[0] or (isinstance(v, ast.Await) and v.value is reads[0])) for v, _, _ in ds)]
    if len(hdr) != 1:
        run.cannot('%s: the variable holding the header is not unique: %s' % (fi.qualname, hdr))
        return
    # the length: what the body size is computed from;  the type: what selects the per-type length rule
    size = loc.resolve(reads[1].args[0]) if reads[1].args else None
    lvar = size.left.id if isinstance(size, ast.BinOp) and isinstance(size.op, ast.Sub) and isinstance(size.left, ast.Name) else None
    tvar = None
    for c in walk_no_nested(fi.node):
        if isinstance(c, ast.Call) and isinstance(c.func, ast.Attribute) and c.func.attr == 'get' and (dotted(c.func.value) or '').endswith('Message.Length') and c.args and isinstance(c.args[0], ast.Name):
            tvar = c.args[0].id
    if lvar is None or tvar is None:
        run.cannot('%s: length / type variables not identified (%s, %s)' % (fi.qualname, lvar, tvar))
        return

    def value_of(name: str, header: bytes):
        out = []
        for v, how, _ in loc.defs.get(name, []):
            if v is None:
                out.append(UNKNOWN)
                continue
            r = folder.fold(loc.expanded(v, depth=4, keep=hdr), mod, fi.cls, {hdr[0]: header})
            if how.startswith('assign[') and isinstance(r, tuple):
                i = int(how[7:-1])
                r = r[i] if i < len(r) else UNKNOWN
            elif how != 'assign':
                r = UNKNOWN if how.startswith('assign[') else r
            out.append(r)
        return out

    cases = ((b'\xff' * 16 + b'\x80\x01\x02', 0x8001, 2), (b'\xff' * 16 + b'\x00\x13\x04', 19, 4))
    for name, idx, what in ((lvar, 1, 'length'), (tvar, 2, 'type')):
        got = [value_of(name, c[0]) for c in cases]
        want = [[c[idx]] for c in cases]
        if any(g is UNKNOWN for gs in got for g in gs) or any(len(gs) != 1 for gs in got):
            run.cannot('%s: the %s (%s) could not be evaluated from the header: %s' % (fi.qualname, what, name, got))
            continue
        run.check(got == want, fi.qualname, '%s decoded from the header: %s for 0x8001/2 and 19/4' % (what, [g[0] for g in got]), fi.loc(loc.defs[name][0][2]), 'RFC 4271 4.1: the length is an unsigned 2-octet field (a signed read turns every extended message of 32768 octets or more into a negative length and the session is torn down with 1/2), the type is the octet after it')


def _r4_exact(model: Model, run: Run, folder: Folder) -> None:
    fi = model.func(CONN + '._reader_async')
    run.analysed(fi)
    mod = fi.module
    params = [a.arg for a in fi.node.args.args]
    if len(params) < 2:
        run.cannot('_reader_async has no size parameter')
        return
    number = params[1]
    recv = None
    for n in walk_no_nested(fi.node):
        if isinstance(n, ast.Call) and isinstance(n.func, ast.Attribute) and n.func.attr in ('sock_recv_into',):
            recv = n
    if recv is None:
        # the accumulate form: data = await loop.sock_recv(io, n); buffer += data
        plain = [n for n in walk_no_nested(fi.node) if isinstance(n, ast.Call) and isinstance(n.func, ast.Attribute) and n.func.attr == 'sock_recv']
        if not plain:
            run.cannot('neither sock_recv_into nor sock_recv found in _reader_async')
            return
        rl = Loc(model, fi)
        for c in plain:
            got = rl.from_value(lambda v: (v.value if isinstance(v, ast.Await) else v) is c)
            acc = [a.target.id for a in walk_no_nested(fi.node) if isinstance(a, ast.AugAssign) and isinstance(a.op, ast.Add) and isinstance(a.target, ast.Name) and isinstance(a.value, ast.Name) and a.value.id in got]
            want = c.args[1] if len(c.args) >= 2 else None
            reads_acc = want is not None and bool(set(acc) & rl.reads(want)) or (want is not None and rl.depends_on(want, acc))
            run.check(
                bool(acc) and reads_acc,
                fi.qualname,
                'each receive asks only for what is still missing (%s)' % (norm(want) if want is not None else None),
                fi.loc(c),
                'after a short read the next receive asks for the full %s bytes again: it takes the beginning of the NEXT message off the socket and the surplus is thrown away when the result is cut to size - the stream loses sync whenever TCP splits a message' % number,
            )
        return
    sl = Slicer(model, fi)
    # target of the receive
    tgt = recv.args[1] if len(recv.args) >= 2 else None
    ok_tgt = False
    offset_name = view_name = None
    if isinstance(tgt, ast.Subscript) and isinstance(tgt.slice, ast.Slice) and tgt.slice.upper is None and isinstance(tgt.slice.lower, ast.Name) and isinstance(tgt.value, ast.Name):
        offset_name = tgt.slice.lower.id
        view_name = tgt.value.id
        ok_tgt = True
    run.check(ok_tgt, fi.qualname, 'receive target %s' % (norm(tgt) if tgt is not None else None), fi.loc(recv), 'bytes must be received into view[offset:]')
    if not ok_tgt:
        return
    # view = memoryview(buffer); buffer = bytearray(number)
    vdefs = [v for v, _ in sl.defs.get(view_name, [])]
    buf_ok = False
    el4 = Loc(model, fi)
    for v in vdefs:
        # memoryview(buffer) with buffer = bytearray(number), or memoryview(bytearray(number)) in one expression
        if el4.expand(v, depth=3) == 'memoryview(bytearray(%s))' % number:
            buf_ok = True
    run.check(buf_ok and len(vdefs) == 1, fi.qualname, 'buffer is bytearray(%s) viewed once' % number, fi.loc(), 'the buffer must be exactly `number` bytes long')
    # loop test
    loop = None
    pm = parent_map(fi.node)
    cur: ast.AST | None = recv
    while cur is not None:
        cur = pm.get(id(cur))
        if isinstance(cur, ast.While):
            loop = cur
            break
    ok_loop = (
        loop is not None
        and isinstance(loop.test, ast.Compare)
        and len(loop.test.ops) == 1
        and isinstance(loop.test.ops[0], ast.Lt)
        and isinstance(loop.test.left, ast.Name)
        and loop.test.left.id == offset_name
        and isinstance(loop.test.comparators[0], ast.Name)
        and loop.test.comparators[0].id == number
    )
    run.check(ok_loop, fi.qualname, 'loop test %s' % (norm(loop.test) if loop is not None else None), fi.loc(loop) if loop is not None else fi.loc(), 'the loop must run while offset < number')
    # offset updates
    nbytes_name = None
    for n in walk_no_nested(fi.node):
        if isinstance(n, ast.Assign) and any(x is recv for x in ast.walk(n.value)) and isinstance(n.targets[0], ast.Name):
            nbytes_name = n.targets[0].id
    updates = []
    for n in walk_no_nested(fi.node):
        if isinstance(n, ast.AugAssign) and isinstance(n.target, ast.Name) and n.target.id == offset_name:
            updates.append(n)
        if isinstance(n, ast.Assign) and any(isinstance(t, ast.Name) and t.id == offset_name for t in n.targets):
            updates.append(n)
    good = [u for u in updates if isinstance(u, ast.AugAssign) and isinstance(u.op, ast.Add) and isinstance(u.value, ast.Name) and u.value.id == nbytes_name]
    inits = [u for u in updates if isinstance(u, ast.Assign) and folder.fold(u.value, mod, fi.cls) == 0]
    run.check(
        len(good) == 1 and len(inits) == 1 and len(updates) == 2,
        fi.qualname,
        'offset updates: %s' % [norm(u) for u in updates],
        fi.loc(updates[0]) if updates else fi.loc(),
        'offset must start at 0 and grow by the received byte count only',
    )
    # zero bytes -> raise
    zero_ok = False
    for n in walk_no_nested(fi.node):
        if isinstance(n, ast.If) and isinstance(n.test, ast.UnaryOp) and isinstance(n.test.op, ast.Not) and isinstance(n.test.operand, ast.Name) and n.test.operand.id == nbytes_name:
            if n.body and isinstance(n.body[-1], ast.Raise):
                zero_ok = True
        if isinstance(n, ast.If) and isinstance(n.test, ast.Compare) and isinstance(n.test.left, ast.Name) and n.test.left.id == nbytes_name and folder.fold(n.test.comparators[0], mod, fi.cls) == 0:
            if n.body and isinstance(n.body[-1], ast.Raise):
                zero_ok = True
    run.check(zero_ok, fi.qualname, 'zero bytes received raises', fi.loc(), 'an EOF must leave the read by raising (otherwise a short message is returned or the loop spins)')
    # returns
    rets = [r for r in walk_no_nested(fi.node) if isinstance(r, ast.Return)]
    tail = [r for r in rets if loop is not None and r.lineno > loop.lineno]
    ok_ret = bool(tail) and all(isinstance(r.value, ast.Name) and r.value.id == view_name for r in tail)
    run.check(ok_ret, fi.qualname, 'returns the whole view: %s' % [norm(r) for r in tail], fi.loc(tail[0]) if tail else fi.loc(), 'the complete buffer must be returned, not a part of it')
    early = [r for r in rets if loop is not None and r.lineno < loop.lineno]
    for r in early:
        g = flat_guards(fi.node, r)
        ok = any(isinstance(t, ast.Compare) and isinstance(t.left, ast.Name) and t.left.id == number and folder.fold(t.comparators[0], mod, fi.cls) == 0 and pol for t, pol in g)
        run.check(ok, fi.qualname, 'early return %s' % norm(r), fi.loc(r), 'the only return before the loop is the zero-length read')


def _r5_unknown_type(model: Model, run: Run, folder: Folder) -> None:
    fi = model.func(READ_MESSAGE)
    run.analysed(fi)
    mod = fi.module
    found = None
    for n in walk_no_nested(fi.node):
        if isinstance(n, ast.If) and isinstance(n.test, ast.Compare) and len(n.test.ops) == 1 and isinstance(n.test.ops[0], ast.NotIn):
            d = dotted(n.test.comparators[0]) or ''
            if d.endswith('MESSAGES') or d.endswith('registered_message'):
                found = n
    if found is None:
        run.violation(fi.qualname, 'no unknown-type test', fi.loc(), 'read_message must refuse a type outside Message.CODE.MESSAGES')
    else:
        pair = None
        for st in found.body:
            if isinstance(st, ast.Raise) and isinstance(st.exc, ast.Call) and model.call_matches(mod, st.exc, 'Notify'):
                pair = _notify_pair(folder, fi, st.exc)
        run.check(
            pair == (1, 3),
            fi.qualname,
            'unknown message type raises Notify%s' % (pair,),
            fi.loc(found),
            'RFC 4271 6.1: an unrecognised Type field is Message Header Error / Bad Message Type (1/3); found %s' % (pair,),
        )
    # reader error re-raised unchanged
    ok = False
    for n in walk_no_nested(fi.node):
        if isinstance(n, ast.Call) and model.call_matches(mod, n, 'Notify') and len(n.args) >= 2:
            a0, a1 = dotted(n.args[0]) or '', dotted(n.args[1]) or ''
            if a0.endswith('.code') and a1.endswith('.subcode') and a0.split('.')[0] == a1.split('.')[0]:
                ok = True
    run.check(ok, fi.qualname, 'reader error converted with its own code and subcode', fi.loc(), 'Notify(notify.code, notify.subcode, ...) expected')
    # ... and looked at FIRST: the readers hand back (0, 0, header, b'', error) for a marker fault or a Length of 0, so nothing
    # may leave read_message (a no-op message, say) between the reader call and the test of the error it returned
    from ..cfg import CFG

    loc5 = Loc(model, fi)
    unp = loc5.unpacked_from_call('Connection.reader_async', 'Connection.reader')
    errv = unp.get(4)
    rd = [n for n in walk_no_nested(fi.node) if isinstance(n, ast.Call) and model.call_matches(mod, n, 'Connection.reader_async', 'Connection.reader')]
    tests = [n for n in walk_no_nested(fi.node) if isinstance(n, ast.If) and errv and any(isinstance(x, ast.Name) and x.id == errv for x in ast.walk(n.test)) and any(isinstance(r, ast.Raise) for r in walk_no_nested(n))]
    if not rd or not tests:
        run.cannot('read_message: the reader call or the test of its error was not found')
    else:
        cfg5 = CFG(fi.node)
        a5 = cfg5.stmt_node_containing(rd[0])
        targets5 = {x.id for x in cfg5.nodes_of(tests[0])} | ({cfg5.stmt_node_containing(tests[0].test).id} if cfg5.stmt_node_containing(tests[0].test) is not None else set())
        ok5, path5 = (False, []) if a5 is None else cfg5.all_paths_pass(a5.id, targets5, {cfg5.exit.id}, skip_labels=('exc',))
        run.check(ok5, fi.qualname, 'the error handed back by the reader is tested before anything leaves read_message', fi.loc(tests[0]), 'a path from the reader call leaves the function without testing `%s`: a header fault reported as (0, 0, header, error) is taken for "nothing read yet", no NOTIFICATION is sent and the next octets of the stream are read as a header: %s' % (errv, ' -> '.join(cfg5.describe_path(path5)[-4:]) if not ok5 else ''))


def _r6_msg_size(model: Model, run: Run, folder: Folder) -> None:
    n_writes = 0
    for fi in model.funcs.values():
        for n in walk_no_nested(fi.node):
            if not isinstance(n, (ast.Assign, ast.AnnAssign, ast.AugAssign)):
                continue
            tgts = n.targets if isinstance(n, ast.Assign) else [n.target]
            for t in tgts:
                if isinstance(t, ast.Attribute) and t.attr == 'msg_size':
                    if not model.is_instance_of(fi.module, t.value, CONN):
                        continue
                    if fi.qualname == CONN + '.__init__':
                        continue
                    n_writes += 1
                    run.analysed(fi)
                    val = n.value
                    src_ok = val is not None and (dotted(val) or '').endswith('negotiated.msg_size')
                    # on every path to the assignment both OPENs must have been handed to the negotiation
                    from ..cfg import CFG
                    from ..typestate import propagate
                    from .C05 import _calls_in_stmt

                    cfg = CFG(fi.node)
                    seen_states: list[frozenset] = []

                    def transfer(node, val_, _n=n, _fi=fi):
                        cur = val_
                        if node.ast is _n:
                            seen_states.append(cur)
                        for call in _calls_in_stmt(node):
                            if model.call_matches(_fi.module, call, 'Negotiated.received'):
                                cur = cur | {'received'}
                            if model.call_matches(_fi.module, call, 'Negotiated.sent'):
                                cur = cur | {'sent'}
                        return [cur]

                    propagate(cfg, frozenset(), transfer)
                    complete = bool(seen_states) and all(st >= {'sent', 'received'} for st in seen_states)
                    missing = sorted({'sent', 'received'} - (frozenset.intersection(*seen_states) if seen_states else frozenset()))
                    run.check(
                        src_ok and complete,
                        fi.qualname,
                        norm(n),
                        fi.loc(n),
                        'Connection.msg_size may only be raised to negotiated.msg_size once the negotiation is complete: on some '
                        'path to this assignment negotiated.%s() has not run yet, so negotiated.msg_size still holds the 4096 '
                        'default and extended messages negotiated by both sides are refused with 1/2' % ('/'.join(missing) or '?'),
                    )
    if n_writes == 0:
        run.violation(CONN, 'msg_size is never raised', model.cls(CONN).loc(), 'after negotiating extended messages the connection would still refuse messages above 4096 bytes')


def _reaches_reader(model: Model, cg: CallGraph, start: list[str]) -> bool:
    pred = cg.reachable(start)
    return any(q.endswith('Connection.reader_async') or q.endswith('Connection._reader_async') for q in pred)


def _r7_cancel(model: Model, run: Run, folder: Folder) -> None:
    cg = CallGraph(model)
    n = 0
    for fi in list(model.funcs_in('exabgp/reactor/')):
        for call in walk_no_nested(fi.node):
            if not (isinstance(call, ast.Call) and (dotted(call.func) or '').endswith('wait_for')):
                continue
            if not call.args:
                continue
            inner = call.args[0]
            targets = []
            for c in ast.walk(inner):
                if isinstance(c, ast.Call):
                    targets.extend(x for x in model.callees(fi.module, c) if x in model.funcs)
            if not targets or not _reaches_reader(model, cg, targets):
                continue
            n += 1
            run.analysed(fi)
            # the enclosing try and its TimeoutError arm
            pm = parent_map(fi.node)
            cur: ast.AST | None = call
            t = None
            while cur is not None:
                p = pm.get(id(cur))
                if isinstance(p, ast.Try) and any(x is cur for x in p.body):
                    t = p
                    break
                cur = p
            arm = None
            if t is not None:
                from ..cfg import handler_names

                for h in t.handlers:
                    if any('Timeout' in nm for nm in handler_names(h)):
                        arm = h
            inst = '%s: %s' % (short(fi.qualname), norm(call)[:80])
            if arm is None:
                run.ok(inst, 'no TimeoutError arm: the timeout propagates and ends the session')
                continue
            ends = always_exits(arm.body, loop_exit_counts=False) and any(isinstance(x, ast.Raise) for x in walk_no_nested(arm))
            if ends:
                run.ok(inst, 'timeout arm raises')
            else:
                run.violation(
                    fi.qualname,
                    'wait_for(%s) timeout arm continues' % norm(inner)[:60],
                    fi.loc(arm),
                    'asyncio.wait_for cancels the read coroutine on timeout; reader_async/_reader_async keep the bytes '
                    'already consumed (header, part of the body) in frame-local buffers, so they are lost, and this arm '
                    'goes on reading the same connection: the next read starts in the middle of a message',
                    ['%s: %s' % (fi.loc(st), norm(st)[:100]) for st in arm.body],
                )
    if n == 0:
        run.cannot('no wait_for around a message read found')
